---------------------------- MODULE TraceService ----------------------------
(* impl -> spec for C08: what Engine B did to REAL client and server processes (Fault f: one entry of the catalogue was
   injected; silent peers stay connected) and what it then observed when it used the service like a well-behaved user:
   CanaryTcp(ok)  a fresh TCP flow through client and server echoed its data,
   CanaryUdp(ok, same)  a datagram exchange echoed (same = on the session that the faults had touched, else a fresh one),
   Alive(c, s), Panic(n).  The recorded run must be a behaviour of Service with Dev = {} : every canary's `ok` must
   equal what the specification says the canary can do in that state - which, for the ideal service, is TRUE.      *)
EXTENDS Service, IOUtils

Rec == ndJsonDeserialize(IOEnv.TRACE)

VARIABLE l
tvars == <<vars, l>>
Ev(name) == l <= Len(Rec) /\ Rec[l].ev = name /\ l' = l + 1

TraceInit == Init /\ l = 1

TReset  == Ev("Reset") /\ sT' = "run" /\ sU' = (IF Rec[l].udploop THEN "run" ELSE "none") /\ cT' = "run"
           /\ cU' = (IF Rec[l].udp THEN "run" ELSE "none")
           /\ held' = {} /\ assocDead' = FALSE /\ replyDead' = FALSE /\ script' = <<>> /\ done' = FALSE
TFault  == Ev("Fault") /\ Rec[l].f \in AllFaults /\ React(Rec[l].f) /\ script' = Append(script, Rec[l].f) /\ UNCHANGED done
TCanT   == Ev("CanaryTcp") /\ Rec[l].ok = TcpCanaryOK /\ UNCHANGED vars
TCanU   == Ev("CanaryUdp") /\ Rec[l].ok = (UdpCanaryOK /\ (Rec[l].same => SameSessionOK)) /\ UNCHANGED vars
TAlive  == Ev("Alive") /\ Rec[l].c /\ Rec[l].s /\ UNCHANGED vars
TPanic  == Ev("Panic") /\ Rec[l].n = 0 /\ UNCHANGED vars
TNote   == Ev("Note") /\ UNCHANGED vars

TraceNext == TReset \/ TFault \/ TCanT \/ TCanU \/ TAlive \/ TPanic \/ TNote
TraceSpec == TraceInit /\ [][TraceNext]_tvars

TraceAccepted ==
  LET d == TLCGet("stats").diameter IN
  IF d - 1 = Len(Rec) THEN PrintT(<<"TRACE-ACCEPTED", d - 1>>)
  ELSE PrintT(<<"TRACE-REJECTED", d - 1, "next unmatched event", Rec[d]>>)
=============================================================================
