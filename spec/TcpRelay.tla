------------------------------ MODULE TcpRelay ------------------------------
(* C01 / C15, design level: one relayed TCP flow as the code builds it.

     app ==AC== client ==LINK== server ==ST== target

   channels (directed):  1 A->C   2 C->S   3 S->T      (up)
                         4 T->S   5 S->C   6 C->A      (down)
   four pumps (Stream::forward):   P1 = 1 -> 2  (client l_c_s)    P2 = 2 -> 3  (server c_s_p)
                                   P3 = 4 -> 5  (server p_s_c)    P4 = 5 -> 6  (client s_c_l)
   two relays (client relay_tcp, server relay_bidirectional): select! on the two pumps; when the first
   one ends with Close the other direction gets a grace period, then all four halves are dropped; when it
   ends with Err everything is dropped at once.

   A channel is a kernel pipe: sq = written but not yet transmitted, rq = arrived but not yet read, fin =
   0 none / 1 queued behind sq / 2 arrived behind rq, rst = the reader sees a reset once rq is drained.
   Socket semantics that matter (Linux TCP):
     * dropping an endpoint that has unread input, or data arriving at a dropped endpoint, resets the
       connection: the dropper's own not yet transmitted output is discarded (AbortiveDrop / LateData);
     * dropping an endpoint with nothing unread is orderly: FIN behind the queued output.
   QUIC link: dropping the connection discards what the peer has not read yet; the stream's shutdown
   therefore waits until the peer has read it to the end (5dfd783).  TLS link: the server's stack may put
   protocol records (session tickets) on the wire that sit unread at the client when it stops reading.

   Deviations (Dev): "DropOnFirstClose" = try_join! (the relay before be0a098), "JoinBoth" = wait for both
   pumps with no time limit, "QuicNoWaitStopped" = QUIC shutdown returns without waiting for the peer (before
   5dfd783; visible together with DropOnFirstClose, which is how the tree was), "NoSinkClose" = forward does not
   close its sink (together with JoinBoth: the peer then never sees the end), "IgnoreLinkErr" = a pump whose link
   read failed does not end (after a link failure the outer sides are never told), "WsCloseEndsBoth" (open finding: the
   end of a WebSocket link direction ends the other direction too), "CloseSkipsFlush" (a sink close that completes with
   its write buffer unflushed), "NoKeepAlive" (a silent QUIC flow is lost at the idle timeout; before 1bbb4d9).

   The external variables are those of RelayAbs (same names): TLC checks  TcpRelay => RelayAbs  as the action
   property RA!Spec, i.e. every step here is a RelayAbs step or leaves RelayAbs' variables unchanged.       *)
EXTENDS Naturals, Sequences, FiniteSets, TLC

CONSTANTS MaxUp, MaxDown,   \* units the application / the target may write
          Link,             \* "tcp" | "tls" | "quic" | "ws"   (wss behaves as ws; ws as tcp except for the Close frame, see SrcEof)
          Reach,            \* "ok" | "refused"            (refused stands for unresolvable too)
          Cap,              \* capacity of each kernel queue (sq, rq) in units: a full queue blocks its writer (back-pressure)
          Cut,              \* BOOLEAN: the environment may cut the link between client and server once (C15)
          Dev

VARIABLES
  \* RelayAbs' variables
  phase, want, reach, dials, sentUp, gotUp, sentDown, gotDown, appClosed, tgtClosed, cleanApp, cleanTgt, appSaw, tgtSaw, fault, lapsed,
  \* design
  sq, rq, fin, rst,        \* per channel 1..6
  ep,                      \* endpoint state: "open" | "shut" | "dropped";  A CA CL SL ST T
  pump,                    \* P1..P4: "run" | "closing" | "closed" | "err"
  wb,                      \* P1..P4: units in the sink's user-space write buffer (Framed / WebSocketFramed), not yet in the kernel
  relay,                   \* [c |-> ..., s |-> ...]: "wait" | "run" | "grace" | "dropped"
  noise                    \* TLS records the relay never asked for, at the client's link endpoint: 0 none yet, 1 unread, 2 consumed

absVars == <<phase, want, reach, dials, sentUp, gotUp, sentDown, gotDown, appClosed, tgtClosed, cleanApp, cleanTgt, appSaw, tgtSaw, fault, lapsed>>
desVars == <<sq, rq, fin, rst, ep, pump, wb, relay, noise>>
vars == <<absVars, desVars>>

RA == INSTANCE RelayAbs

Chan == 1..6
\* endpoint that writes / reads a channel
Writer(ch) == CASE ch = 1 -> "A" [] ch = 2 -> "CL" [] ch = 3 -> "ST" [] ch = 4 -> "T" [] ch = 5 -> "SL" [] ch = 6 -> "CA"
Reader(ch) == CASE ch = 1 -> "CA" [] ch = 2 -> "SL" [] ch = 3 -> "T" [] ch = 4 -> "ST" [] ch = 5 -> "CL" [] ch = 6 -> "A"
\* the channel in the opposite direction of the same connection
Back(ch) == CASE ch = 1 -> 6 [] ch = 6 -> 1 [] ch = 2 -> 5 [] ch = 5 -> 2 [] ch = 3 -> 4 [] ch = 4 -> 3
OutOf(e) == CHOOSE ch \in Chan : Writer(ch) = e
InOf(e)  == CHOOSE ch \in Chan : Reader(ch) = e
IsLink(ch) == ch \in {2, 5}
Src(p) == CASE p = 1 -> 1 [] p = 2 -> 2 [] p = 3 -> 4 [] p = 4 -> 5
Snk(p) == CASE p = 1 -> 2 [] p = 2 -> 3 [] p = 3 -> 5 [] p = 4 -> 6
Owner(p) == IF p \in {1, 4} THEN "c" ELSE "s"
Pumps(r) == IF r = "c" THEN {1, 4} ELSE {2, 3}
Eps(r)   == IF r = "c" THEN {"CA", "CL"} ELSE {"SL", "ST"}

Init ==
  /\ RA!Init
  /\ sq = [c \in Chan |-> 0] /\ rq = [c \in Chan |-> 0] /\ fin = [c \in Chan |-> 0] /\ rst = [c \in Chan |-> FALSE]
  /\ ep = [e \in {"A", "CA", "CL", "SL", "ST", "T"} |-> "open"]
  /\ pump = [p \in 1..4 |-> "run"] /\ wb = [p \in 1..4 |-> 0]
  /\ relay = [c |-> "run", s |-> "wait"]
  /\ noise = 0

-----------------------------------------------------------------------------
(* socket layer *)

\* Effect of dropping endpoint e (function on the channel state; returns the new <<sq, rq, fin, rst>>).
\* abortive when something is unread at e: e's own unsent output is lost and the peer will see a reset.
Unread(e) == rq[InOf(e)] > 0 \/ (e = "CL" /\ noise = 1)
QuicEnd(e) == Link = "quic" /\ e \in {"CL", "SL"}

DropEffect(S, e) ==         \* S = [sq, rq, fin, rst] record
  LET o == OutOf(e)  i == InOf(e)
      abort == S.rq[i] > 0 \/ (e = "CL" /\ noise = 1)
  IN IF QuicEnd(e)
       THEN \* connection close: everything the peer has not read yet is gone, the peer sees the connection lost
            \* unless the stream had been finished and read to the end
            [S EXCEPT !.sq[o] = 0, !.rq[o] = 0, !.rq[i] = 0, !.sq[i] = 0,
                      !.rst[o] = ~(S.fin[o] = 2 /\ S.sq[o] = 0 /\ S.rq[o] = 0) /\ ~(S.fin[o] = 3), !.rst[i] = TRUE]
       ELSE IF abort
         THEN [S EXCEPT !.sq[o] = 0, !.rst[o] = TRUE, !.fin[o] = IF S.fin[o] = 2 THEN 2 ELSE 0, !.rq[i] = 0]
         ELSE [S EXCEPT !.fin[o] = IF S.fin[o] = 0 THEN 1 ELSE S.fin[o]]

DropAll(S, es) ==
  LET RECURSIVE go(_, _)
      go(s, rest) == IF rest = {} THEN s ELSE LET e == CHOOSE x \in rest : TRUE IN go(DropEffect(s, e), rest \ {e})
  IN go(S, es)

Cur == [sq |-> sq, rq |-> rq, fin |-> fin, rst |-> rst]
SetChans(S) == sq' = S.sq /\ rq' = S.rq /\ fin' = S.fin /\ rst' = S.rst

\* one unit travels; data reaching a dropped endpoint is answered with a reset (LateData)
Transmit(ch) ==
  /\ sq[ch] > 0 /\ ~rst[ch] /\ (rq[ch] < Cap \/ ep[Reader(ch)] = "dropped")
  /\ IF ep[Reader(ch)] = "dropped"
       THEN /\ sq' = [sq EXCEPT ![ch] = 0, ![Back(ch)] = 0]
            /\ rst' = [rst EXCEPT ![Back(ch)] = TRUE]
            /\ fin' = [fin EXCEPT ![Back(ch)] = IF fin[Back(ch)] = 2 THEN 2 ELSE 0]
            /\ UNCHANGED rq
       ELSE /\ sq' = [sq EXCEPT ![ch] = sq[ch] - 1] /\ rq' = [rq EXCEPT ![ch] = rq[ch] + 1]
            /\ UNCHANGED <<fin, rst>>
  /\ UNCHANGED <<absVars, ep, pump, wb, relay, noise>>

\* output queued towards a connection that has been reset is thrown away
Discard(ch) ==
  /\ rst[ch] /\ (sq[ch] > 0 \/ fin[ch] = 1)
  /\ sq' = [sq EXCEPT ![ch] = 0] /\ fin' = [fin EXCEPT ![ch] = 0]
  /\ UNCHANGED <<absVars, rq, rst, ep, pump, wb, relay, noise>>

TransmitFin(ch) ==
  /\ sq[ch] = 0 /\ fin[ch] = 1 /\ ~rst[ch]
  /\ fin' = [fin EXCEPT ![ch] = 2]
  /\ UNCHANGED <<absVars, sq, rq, rst, ep, pump, wb, relay, noise>>

\* TLS: the server's stack emits a record the relay never asked for; the client consumes it only while it reads
Noise ==
  \* only while the server's side of the link is still open for writing: after it has closed that direction (close_notify,
  \* FIN) its stack puts nothing more on the wire
  /\ Link = "tls" /\ noise = 0 /\ ep["SL"] = "open" /\ fin[5] = 0 /\ ep["CL"] # "dropped"
  /\ noise' = 1
  /\ UNCHANGED <<absVars, sq, rq, fin, rst, ep, pump, wb, relay>>

ConsumeNoise ==
  /\ noise = 1 /\ pump[4] = "run" /\ relay.c \in {"run", "grace"}
  /\ noise' = 2
  /\ UNCHANGED <<absVars, sq, rq, fin, rst, ep, pump, wb, relay>>

-----------------------------------------------------------------------------
(* environment: the application and the target *)

AppWrite ==
  /\ sentUp < MaxUp /\ ep["A"] = "open" /\ sq[1] < Cap
  /\ RA!AppWrite(1)
  /\ sq' = [sq EXCEPT ![1] = IF rst[6] THEN 0 ELSE sq[1] + 1]
  /\ UNCHANGED <<rq, fin, rst, ep, pump, wb, relay, noise>>

TgtWrite ==
  /\ sentDown < MaxDown /\ ep["T"] = "open" /\ sq[4] < Cap
  /\ RA!TgtWrite(1)
  /\ sq' = [sq EXCEPT ![4] = IF rst[3] THEN 0 ELSE sq[4] + 1]
  /\ UNCHANGED <<rq, fin, rst, ep, pump, wb, relay, noise>>

EnvClose(e, how) ==
  /\ ep[e] = "open"
  /\ IF how = "fin"
       THEN /\ ep' = [ep EXCEPT ![e] = "shut"]
            /\ fin' = [fin EXCEPT ![OutOf(e)] = IF fin[OutOf(e)] = 0 /\ ~rst[OutOf(e)] THEN 1 ELSE fin[OutOf(e)]]
            /\ UNCHANGED <<sq, rq, rst>>
       ELSE /\ ep' = [ep EXCEPT ![e] = "dropped"]
            /\ IF how = "rst"
                 THEN LET o == OutOf(e) i == InOf(e) IN
                      /\ sq' = [sq EXCEPT ![o] = 0] /\ rst' = [rst EXCEPT ![o] = TRUE]
                      /\ fin' = [fin EXCEPT ![o] = IF fin[o] = 2 THEN 2 ELSE 0] /\ rq' = [rq EXCEPT ![i] = 0]
                 ELSE SetChans(DropEffect(Cur, e))
  /\ UNCHANGED <<pump, wb, relay, noise>>

AppClose(how) == phase = "open" /\ RA!AppClose(how) /\ EnvClose("A", how)
\* acked: nothing of what the target wrote is still unsent when it resets (what had arrived at the server stays readable)
TgtClose(how) == RA!TgtCloseA(how, sq[4] = 0 /\ ~rst[4]) /\ EnvClose("T", how)

\* What the application and the target observe is written down as it happens; that each such step is allowed by
\* RelayAbs (DeliverDown, AppEnd, ...) is exactly what the property RefinesAbs checks.
Only(v, val) == LET f == [phase |-> phase, want |-> want, reach |-> reach, dials |-> dials, sentUp |-> sentUp, gotUp |-> gotUp,
                         sentDown |-> sentDown, gotDown |-> gotDown, appClosed |-> appClosed, tgtClosed |-> tgtClosed,
                         cleanApp |-> cleanApp, cleanTgt |-> cleanTgt, appSaw |-> appSaw, tgtSaw |-> tgtSaw, fault |-> fault,
                         lapsed |-> lapsed]
                     g == [f EXCEPT ![v] = val]
                 IN /\ phase' = g.phase /\ want' = g.want /\ reach' = g.reach /\ dials' = g.dials /\ sentUp' = g.sentUp
                    /\ gotUp' = g.gotUp /\ sentDown' = g.sentDown /\ gotDown' = g.gotDown /\ appClosed' = g.appClosed
                    /\ tgtClosed' = g.tgtClosed /\ cleanApp' = g.cleanApp /\ cleanTgt' = g.cleanTgt /\ appSaw' = g.appSaw
                    /\ tgtSaw' = g.tgtSaw /\ fault' = g.fault /\ lapsed' = g.lapsed

AppRead ==
  /\ ep["A"] # "dropped" /\ rq[6] > 0 /\ appSaw = "no"
  /\ Only("gotDown", gotDown + 1)
  /\ rq' = [rq EXCEPT ![6] = rq[6] - 1]
  /\ UNCHANGED <<sq, fin, rst, ep, pump, wb, relay, noise>>

AppSeeEnd ==
  /\ ep["A"] # "dropped" /\ rq[6] = 0 /\ appSaw = "no"
  /\ \/ fin[6] = 2 /\ ~rst[6] /\ Only("appSaw", "eof")
     \/ rst[6] /\ Only("appSaw", "rst")
  /\ UNCHANGED desVars

TgtRead ==
  /\ ep["T"] # "dropped" /\ rq[3] > 0 /\ tgtSaw = "no"
  /\ Only("gotUp", gotUp + 1)
  /\ rq' = [rq EXCEPT ![3] = rq[3] - 1]
  /\ UNCHANGED <<sq, fin, rst, ep, pump, wb, relay, noise>>

TgtSeeEnd ==
  /\ ep["T"] # "dropped" /\ rq[3] = 0 /\ tgtSaw = "no" /\ dials # <<>>
  /\ \/ fin[3] = 2 /\ ~rst[3] /\ Only("tgtSaw", "eof")
     \/ rst[3] /\ Only("tgtSaw", "rst")
  /\ UNCHANGED desVars

-----------------------------------------------------------------------------
(* pumps *)

Move(p) ==
  /\ pump[p] = "run" /\ relay[Owner(p)] \in {"run", "grace"} /\ rq[Src(p)] > 0
  /\ wb[p] = 0               \* forward: the buffered item is handed to the sink only when the sink is ready (poll_ready)
  /\ IF rst[Back(Snk(p))]      \* the sink's connection has been reset: the write fails
       THEN /\ pump' = [pump EXCEPT ![p] = IF Owner(p) = "s" \/ "ClientSwallowsErr" \in Dev THEN "closed" ELSE "err"]
            /\ UNCHANGED <<rq, wb>>
       ELSE /\ rq' = [rq EXCEPT ![Src(p)] = rq[Src(p)] - 1] /\ wb' = [wb EXCEPT ![p] = 1]
            /\ UNCHANGED pump
  /\ UNCHANGED <<absVars, sq, fin, rst, ep, relay, noise>>

\* the sink writes its buffer into the kernel when the kernel has room (poll_flush; Pending while the queue is full)
Flush(p) ==
  /\ wb[p] > 0 /\ pump[p] = "run" /\ relay[Owner(p)] \in {"run", "grace"}
  /\ IF rst[Back(Snk(p))]
       THEN /\ wb' = [wb EXCEPT ![p] = 0] /\ UNCHANGED sq
            /\ pump' = [pump EXCEPT ![p] = IF Owner(p) = "s" \/ "ClientSwallowsErr" \in Dev THEN "closed" ELSE "err"]
       ELSE /\ sq[Snk(p)] < Cap
            /\ wb' = [wb EXCEPT ![p] = 0] /\ sq' = [sq EXCEPT ![Snk(p)] = sq[Snk(p)] + 1]
            /\ UNCHANGED pump
  /\ UNCHANGED <<absVars, rq, fin, rst, ep, relay, noise>>

WsClose(p) == Link = "ws" /\ IsLink(Src(p)) /\ "WsCloseEndsBoth" \in Dev
\* the source ended: forward closes (shuts down) its sink.  On a QUIC link the shutdown completes only when the
\* peer has read the stream to the end.
\* Closing the sink flushes it first (poll_close = flush, then shutdown): the close completes only when the buffer is in the
\* kernel.  Deviation "CloseSkipsFlush": a close that reports completion while the flush is still pending - what is in
\* the buffer never reaches the kernel.
SrcEof(p) ==
  /\ pump[p] = "run" /\ relay[Owner(p)] \in {"run", "grace"} /\ rq[Src(p)] = 0 /\ fin[Src(p)] = 2 /\ ~rst[Src(p)]
  /\ wb[p] = 0 \/ "CloseSkipsFlush" \in Dev
  \* a TLS stream is read in order: the client reaches the server's end-of-stream only after the records before it
  /\ (p = 4 /\ Link = "tls") => noise # 1
  /\ wb' = [wb EXCEPT ![p] = 0]
  /\ IF "NoSinkClose" \in Dev
       THEN UNCHANGED <<fin, ep>> /\ pump' = [pump EXCEPT ![p] = "closed"]
       ELSE /\ fin' = [c \in Chan |->
                       IF c = Snk(p) THEN (IF fin[c] = 0 /\ ~rst[c] THEN 1 ELSE fin[c])
                       ELSE IF WsClose(p) /\ c = Back(Src(p)) THEN (IF fin[c] = 0 /\ ~rst[c] THEN 1 ELSE fin[c])
                       ELSE fin[c]]
            /\ ep' = [ep EXCEPT ![Writer(Snk(p))] = IF ep[Writer(Snk(p))] = "open" THEN "shut" ELSE ep[Writer(Snk(p))]]
            /\ pump' = [pump EXCEPT ![p] = IF Link = "quic" /\ IsLink(Snk(p)) /\ "QuicNoWaitStopped" \notin Dev THEN "closing" ELSE "closed"]
  \* deviation WsCloseEndsBoth: the end of a WebSocket link direction is a Close frame; the library that reads it answers
  \* with its own Close at once and refuses every later message in the opposite direction of that connection
  /\ rst' = IF WsClose(p) /\ "NoSinkClose" \notin Dev THEN [rst EXCEPT ![Src(p)] = TRUE] ELSE rst
  /\ UNCHANGED <<absVars, sq, rq, relay, noise>>

QuicStopped(p) ==
  /\ pump[p] = "closing"
  /\ \/ fin[Snk(p)] = 3                                   \* the peer has read the stream to its end
     \/ rst[Back(Snk(p))] \/ rst[Snk(p)]                  \* or the connection is gone
  /\ pump' = [pump EXCEPT ![p] = "closed"]
  /\ UNCHANGED <<absVars, sq, rq, fin, rst, ep, wb, relay, noise>>

\* the source was reset.  The server's pumps filter errors out of their streams (filter_map(r.ok())), so a reset
\* looks like an end-of-stream there and the sink is closed in an orderly way; the client's pumps end with Err.
\* whose pumps turn a failed read into an end-of-stream (deviation "ServerForwardsErr": the server's do not any more, so what
\* the server had read just before its target reset the connection, and not yet flushed, is dropped with the flow)
Swallows(p) == (Owner(p) = "s" /\ "ServerForwardsErr" \notin Dev) \/ "ClientSwallowsErr" \in Dev
SrcRst(p) ==
  /\ pump[p] = "run" /\ relay[Owner(p)] \in {"run", "grace"} /\ rq[Src(p)] = 0 /\ rst[Src(p)]
  /\ ~("IgnoreLinkErr" \in Dev /\ IsLink(Src(p)))         \* deviation: a failed link read is retried for ever
  /\ Swallows(p) => wb[p] = 0
  /\ wb' = [wb EXCEPT ![p] = 0]
  /\ IF Swallows(p)
       THEN /\ fin' = [fin EXCEPT ![Snk(p)] = IF fin[Snk(p)] = 0 /\ ~rst[Snk(p)] THEN 1 ELSE fin[Snk(p)]]
            \* the sink is closed exactly as at an end-of-stream: on a QUIC link that waits until the peer has read it all
            /\ pump' = [pump EXCEPT ![p] = IF Link = "quic" /\ IsLink(Snk(p)) /\ "QuicNoWaitStopped" \notin Dev THEN "closing" ELSE "closed"]
       ELSE UNCHANGED fin /\ pump' = [pump EXCEPT ![p] = "err"]
  /\ UNCHANGED <<absVars, sq, rq, rst, ep, relay, noise>>

\* QUIC: the reader of a finished stream acknowledges its end (fin 2 -> 3) when its pump consumes the end-of-stream;
\* that is what `stopped()` waits for.  Folded into SrcEof of the reading pump for link channels:
QuicAckEnd(ch) ==
  /\ Link = "quic" /\ IsLink(ch) /\ fin[ch] = 2 /\ rq[ch] = 0
  /\ LET p == IF ch = 2 THEN 2 ELSE 4 IN pump[p] # "run" \/ relay[Owner(p)] = "dropped"
  /\ fin' = [fin EXCEPT ![ch] = 3]
  /\ UNCHANGED <<absVars, sq, rq, rst, ep, pump, wb, relay, noise>>

-----------------------------------------------------------------------------
(* relays *)

\* server: first item -> dial
ServerStart ==
  /\ relay.s = "wait" /\ rq[2] > 0
  /\ IF Reach = "ok"
       THEN /\ Only("dials", Append(dials, want))
            /\ rq' = [rq EXCEPT ![2] = rq[2] - 1] /\ sq' = [sq EXCEPT ![3] = sq[3] + 1]
            /\ relay' = [relay EXCEPT !.s = "run"]
            /\ UNCHANGED <<fin, rst, ep>>
       ELSE /\ UNCHANGED absVars            \* connect / resolve failed: the task ends, the link endpoint is dropped
            /\ relay' = [relay EXCEPT !.s = "dropped"]
            /\ ep' = [ep EXCEPT !["SL"] = "dropped", !["ST"] = "dropped"]
            /\ SetChans(DropEffect(Cur, "SL"))
  /\ UNCHANGED <<pump, wb, noise>>

ServerNoRequest ==      \* the client went away before sending anything
  /\ relay.s = "wait" /\ rq[2] = 0 /\ (fin[2] = 2 \/ rst[2])
  /\ relay' = [relay EXCEPT !.s = "dropped"]
  /\ ep' = [ep EXCEPT !["SL"] = "dropped", !["ST"] = "dropped"]
  /\ SetChans(DropEffect(Cur, "SL"))
  /\ UNCHANGED <<absVars, pump, wb, noise>>

DropRelay(r) ==
  /\ relay' = [relay EXCEPT ![r] = "dropped"]
  /\ wb' = [p \in 1..4 |-> IF p \in Pumps(r) THEN 0 ELSE wb[p]]
  /\ ep' = [e \in DOMAIN ep |-> IF e \in Eps(r) THEN "dropped" ELSE ep[e]]
  /\ SetChans(DropAll(Cur, Eps(r)))

\* select!: the first pump to end decides
First(r) ==
  /\ relay[r] = "run"
  /\ \E p \in Pumps(r) :
       /\ pump[p] \in {"closed", "err"}
       /\ IF pump[p] = "closed" /\ "DropOnFirstClose" \notin Dev
            THEN relay' = [relay EXCEPT ![r] = "grace"] /\ UNCHANGED <<sq, rq, fin, rst, ep, wb>>
            ELSE DropRelay(r)
  /\ UNCHANGED <<absVars, pump, noise>>

\* grace: the other pump ends too ...
GraceBoth(r) ==
  /\ relay[r] = "grace"
  /\ \A p \in Pumps(r) : pump[p] \in {"closed", "err"}
  /\ DropRelay(r)
  /\ UNCHANGED <<absVars, pump, noise>>

\* everything the two processes and the kernels do by themselves, without a timer
Internal == \/ \E ch \in Chan : Transmit(ch) \/ TransmitFin(ch) \/ QuicAckEnd(ch) \/ Discard(ch)
            \/ ConsumeNoise
            \/ \E p \in 1..4 : Move(p) \/ Flush(p) \/ SrcEof(p) \/ SrcRst(p) \/ QuicStopped(p)
            \/ ServerStart \/ ServerNoRequest
            \/ \E r \in {"c", "s"} : First(r) \/ GraceBoth(r)

(* ... or the time is up.  Timing assumption of this model (maximal progress): the two seconds of grace are long
   compared with everything the kernels and the tasks do by themselves, so the timer fires only in states where
   none of those steps is possible any more (what the application or the target leaves unread may stay unread). *)
GraceTimeout(r) ==
  /\ relay[r] = "grace" /\ "JoinBoth" \notin Dev
  /\ ~ENABLED Internal
  /\ DropRelay(r)
  /\ IF appClosed # "no" \/ tgtClosed # "no" THEN RA!Lapse ELSE UNCHANGED absVars
  /\ UNCHANGED <<pump, noise>>

-----------------------------------------------------------------------------
(* C15: the link between client and server fails.  Both link connections are reset (a middlebox or a network that
   goes away; on a QUIC link: silence, then the idle timeout reports the connection lost): what is in flight on the
   link is gone and both link endpoints see a reset once they have drained what had arrived.  On QUIC what had
   arrived but was not read yet is gone too.                                                                       *)
LinkCut ==
  /\ Cut /\ phase = "open" /\ ~fault
  /\ RA!Fault
  /\ sq' = [sq EXCEPT ![2] = 0, ![5] = 0]
  /\ rq' = IF Link = "quic" THEN [rq EXCEPT ![2] = 0, ![5] = 0] ELSE rq
  /\ rst' = [rst EXCEPT ![2] = TRUE, ![5] = TRUE]
  /\ fin' = [fin EXCEPT ![2] = IF fin[2] >= 2 THEN fin[2] ELSE 0, ![5] = IF fin[5] >= 2 THEN fin[5] ELSE 0]
  /\ UNCHANGED <<ep, pump, wb, relay, noise>>

(* Deviation "NoKeepAlive" (the tree before 1bbb4d9): a QUIC connection on which nothing is sent for longer than its idle
   timeout is declared lost by both ends, although neither the application nor the target has closed - a silent flow
   is a state in which nothing internal is enabled.  With keep-alive packets silence on the flow is not silence on the
   connection and this step does not exist.                                                                       *)
QuicIdleLoss ==
  /\ "NoKeepAlive" \in Dev /\ Link = "quic" /\ phase = "open" /\ ~fault
  /\ ~ENABLED Internal /\ relay.c # "dropped" /\ ~rst[2] /\ ~rst[5]
  /\ sq' = [sq EXCEPT ![2] = 0, ![5] = 0] /\ rq' = [rq EXCEPT ![2] = 0, ![5] = 0]
  /\ rst' = [rst EXCEPT ![2] = TRUE, ![5] = TRUE]
  /\ fin' = [fin EXCEPT ![2] = IF fin[2] >= 2 THEN fin[2] ELSE 0, ![5] = IF fin[5] >= 2 THEN fin[5] ELSE 0]
  /\ UNCHANGED <<absVars, ep, pump, wb, relay, noise>>

OpenFlow ==
  /\ phase = "idle"
  /\ RA!Open(1, Reach)
  /\ UNCHANGED desVars

Env == OpenFlow \/ AppWrite \/ TgtWrite \/ (\E h \in {"fin", "close", "rst"} : AppClose(h) \/ TgtClose(h)) \/ LinkCut
Sys == \/ Internal \/ Noise \/ QuicIdleLoss
       \/ AppRead \/ AppSeeEnd \/ TgtRead \/ TgtSeeEnd
       \/ \E r \in {"c", "s"} : GraceTimeout(r)

Next == Env \/ Sys
Fair == /\ \A ch \in Chan : WF_vars(Transmit(ch)) /\ WF_vars(TransmitFin(ch)) /\ WF_vars(QuicAckEnd(ch)) /\ WF_vars(Discard(ch))
        /\ WF_vars(ConsumeNoise) /\ WF_vars(AppRead) /\ WF_vars(AppSeeEnd) /\ WF_vars(TgtRead) /\ WF_vars(TgtSeeEnd)
        /\ \A p \in 1..4 : WF_vars(Move(p)) /\ WF_vars(Flush(p)) /\ WF_vars(SrcEof(p)) /\ WF_vars(SrcRst(p)) /\ WF_vars(QuicStopped(p))
        /\ WF_vars(ServerStart) /\ WF_vars(ServerNoRequest)
        /\ \A r \in {"c", "s"} : WF_vars(First(r)) /\ WF_vars(GraceBoth(r)) /\ WF_vars(GraceTimeout(r))
Spec == Init /\ [][Next]_vars /\ Fair

-----------------------------------------------------------------------------
(* properties *)

\* refinement: every step is a step of the abstract relay (or invisible to it)
AbsNext == \/ RA!Open(1, Reach) \/ RA!AppWrite(1) \/ RA!TgtWrite(1)
           \/ \E h \in {"fin", "close", "rst"} : RA!AppClose(h) \/ RA!TgtCloseA(h, TRUE) \/ RA!TgtCloseA(h, FALSE)
           \/ RA!Fault \/ RA!Lapse
           \/ RA!Dial(1) \/ RA!DeliverUp(1, TRUE) \/ RA!DeliverDown(1, TRUE)
           \/ \E h \in {"eof", "rst"} : RA!AppEnd(h) \/ RA!TgtEnd(h)
RefinesAbs == [][AbsNext]_absVars

\* C15 PromptEnd / Released as liveness under weak fairness of the system's own steps
PromptAppEnd == (tgtClosed # "no" /\ appClosed = "no") ~> (appSaw # "no" \/ appClosed # "no")
PromptTgtEnd == (appClosed # "no" /\ dials # <<>> /\ tgtClosed = "no") ~> (tgtSaw # "no" \/ tgtClosed # "no")
Released == (appClosed # "no" \/ tgtClosed # "no") ~> (relay.c = "dropped" /\ relay.s = "dropped")
\* C15: after a link failure both outer sides observe an end and both processes let go of the flow
FaultAppEnd == fault ~> (appSaw # "no" \/ ep["A"] = "dropped")
FaultTgtEnd == (fault /\ dials # <<>>) ~> (tgtSaw # "no" \/ ep["T"] = "dropped")
FaultReleased == fault ~> (relay.c = "dropped" /\ relay.s = "dropped")
RefusedEnds == (Reach # "ok" /\ sentUp > 0) ~> (appSaw # "no" \/ appClosed # "no")

TypeOK == /\ \A c \in Chan : sq[c] \in 0..(MaxUp + MaxDown) /\ rq[c] \in 0..(MaxUp + MaxDown) /\ fin[c] \in 0..3
=============================================================================
