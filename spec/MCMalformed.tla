----------------------------- MODULE MCMalformed -----------------------------
EXTENDS Malformed, Json, Sequences
Allowed(x) == {"refused"} \cup (IF MayWait(x) THEN {"waits"} ELSE {}) \cup (IF MayAccept(x) THEN {"accepted"} ELSE {})
Export == outcome = "pending" =>
  PrintT("REPLAY " \o ToJson([dec |-> case.dec, class |-> case.class, allowed |-> Allowed(case)]))
=============================================================================
