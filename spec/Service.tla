------------------------------ MODULE Service ------------------------------
(* C08: one failing or hostile flow never takes the service down for others.

   What can end a service is one of four long-lived loops:
     sT  server  accept loop (per TCP listener; TLS / WebSocket handshakes belong to the per-connection task)
     sU  server  datagram loop of Shadowsocks (one select loop for every client) + its association tasks
     cT  client  accept loop of the local SOCKS5 / HTTP port
     cU  client  datagram loop of the local SOCKS5-UDP port + its bindings' reply tasks
   A loop is "run", "blocked" (waiting for one particular peer), "wedged" (spinning on one input) or "exited".
   Per-flow work runs in spawned tasks; a task may fail in any way without touching its loop.

   Environment = the fault catalogue (Fault(f)); every fault is a per-flow event.  The reaction of each loop is written
   as the code does it; each place where the code used to let one flow's failure reach the loop is a named deviation:
     InlineTls        TLS handshake awaited in the accept loop            (silent peer => sT blocked while it stays)
     ExitOnAcceptErr  `while let Ok(..) = accept()`                        (descriptor exhaustion => sT / cT exited)
     AssocEnds        association task breaks on a refused / unresolvable / unsendable datagram
     PropagateSend    `try_send(..).await?` to an association whose task ended   (=> sU exited; needs AssocEnds)
     PropagateSendTo  `send_to(..).await?` of a reply too large for one datagram  (=> sU exited)
     StuckLocal       refused local datagram left in UdpFramed's buffer    (=> cU wedged)
     PropagateBind    `new_out(..).await?` / `sink.send(..).await?`        (=> cU exited)
     ReplyTaskEnds    reply task breaks on a refused reply                 (replies of that binding stop)
     EncoderPanics    an encoder that panics on one legal datagram (an empty one, whose padding does not fit the space
                      reserved for it): the panic unwinds the task that holds the datagram loop AND the TCP listener
     BoundedHandshakes a fixed number of handshakes in flight, the accept loop waits for a free slot
                                                                          (a crowd of silent peers => sT blocked)
   With Dev = {} every loop stays "run" for ever: CanariesSucceed.  TLC enumerates every fault sequence up to MaxLen
   and exports it (REPLAY); Engine B injects it into real processes and then uses the service again.                 *)
EXTENDS Naturals, Sequences, FiniteSets, TLC, Json

CONSTANTS Faults,      \* fault names applicable to the configuration family
          HasUdpLoop,  \* TRUE for Shadowsocks-over-UDP configurations (the server has a datagram loop)
          HasUdp,      \* TRUE when the client's SOCKS5-UDP port is configured
          MaxLen, Dev

VARIABLES sT, sU, cT, cU,
          held,        \* hostile connections that are still open (silent peers)
          assocDead,   \* the well-behaved user's association task has ended while its table entry lives on
          replyDead,   \* the well-behaved user's binding has lost its reply task
          script, done

vars == <<sT, sU, cT, cU, held, assocDead, replyDead, script, done>>

\* SilentCrowdServer / SilentCrowdClient: a hundred peers connect and say nothing (or half a TLS record) and stay
AllFaults == {"SilentCrowdServer", "SilentCrowdClient", "TcpSilentServer", "TcpSilentClient", "TlsGarbage", "WsGarbage", "ResetAtServer", "HalfLocalHandshake",
              "UnresolvableTcp", "RefusedTcp", "TargetResets", "AppResets",
              "GarbageDatagram", "ReplayedDatagram", "UnresolvableUdp", "MalformedLocalShort", "MalformedLocalFrag",
              "MalformedLocalType", "OversizedDatagram", "OversizedReply", "EmptyDatagram", "FdExhaustServer", "FdExhaustClient"}

ASSUME Faults \subseteq AllFaults

Init == /\ sT = "run" /\ sU = (IF HasUdpLoop THEN "run" ELSE "none") /\ cT = "run" /\ cU = (IF HasUdp THEN "run" ELSE "none")
        /\ held = {} /\ assocDead = FALSE /\ replyDead = FALSE /\ script = <<>> /\ done = FALSE

D(x) == x \in Dev

\* reaction of the four loops to one fault (a function of the fault and the deviations that are switched on)
React(f) ==
  /\ sT' = CASE f \in {"TcpSilentServer", "SilentCrowdServer"} /\ D("InlineTls") -> "blocked"
             [] f = "EmptyDatagram" /\ HasUdpLoop /\ D("EncoderPanics") -> "exited"
             [] f = "SilentCrowdServer" /\ D("BoundedHandshakes") -> "blocked"
             [] f = "FdExhaustServer" /\ D("ExitOnAcceptErr") -> "exited"
             [] OTHER -> sT
  /\ cT' = CASE f = "FdExhaustClient" /\ D("ExitOnAcceptErr") -> "exited"
             [] f = "SilentCrowdClient" /\ D("BoundedHandshakes") -> "blocked"
             [] OTHER -> cT
  /\ sU' = CASE sU = "none" -> "none"
             [] f = "OversizedReply" /\ D("PropagateSendTo") -> "exited"
             [] f = "EmptyDatagram" /\ D("EncoderPanics") -> "exited"
             \* a datagram of the SAME session after its task ended
             [] f \in {"ReplayedDatagram", "UnresolvableUdp"} /\ assocDead /\ D("PropagateSend") -> "exited"
             [] OTHER -> sU
  /\ assocDead' = (assocDead \/ (HasUdpLoop /\ f \in {"ReplayedDatagram", "UnresolvableUdp"} /\ D("AssocEnds")))
  /\ cU' = CASE cU = "none" -> "none"
             [] f \in {"MalformedLocalShort", "MalformedLocalFrag", "MalformedLocalType"} /\ D("StuckLocal") -> "wedged"
             [] f = "OversizedDatagram" /\ D("PropagateBind") -> "exited"
             [] OTHER -> cU
  /\ replyDead' = (replyDead \/ (HasUdp /\ f = "ReplayedDatagram" /\ D("ReplyTaskEnds")))
  /\ held' = IF f \in {"TcpSilentServer", "TcpSilentClient", "SilentCrowdServer", "SilentCrowdClient"} THEN held \cup {f} ELSE held

Fault(f) ==
  /\ ~done /\ Len(script) < MaxLen /\ f \in Faults
  /\ React(f)
  /\ script' = Append(script, f)
  /\ UNCHANGED done

Finish == /\ ~done /\ done' = TRUE /\ UNCHANGED <<sT, sU, cT, cU, held, assocDead, replyDead, script>>

Next == (\E f \in Faults : Fault(f)) \/ Finish
Spec == Init /\ [][Next]_vars

(* what the canaries need: a fresh TCP flow needs both accept loops; a fresh datagram exchange needs the client's loop and
   (Shadowsocks) the server's; the well-behaved user's EXISTING session needs its association and reply task too; and all
   of that while the silent peers are still connected.                                                                   *)
TcpCanaryOK  == sT = "run" /\ cT = "run"
UdpCanaryOK  == (cU \in {"run", "none"}) /\ (sU \in {"run", "none"})
SameSessionOK == ~assocDead /\ ~replyDead
CanariesSucceed == TcpCanaryOK /\ UdpCanaryOK /\ SameSessionOK

Export == done => PrintT("REPLAY " \o ToJson([script |-> script]))
=============================================================================
