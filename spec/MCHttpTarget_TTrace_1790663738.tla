---- MODULE MCHttpTarget_TTrace_1790663738 ----
EXTENDS Sequences, TLCExt, MCHttpTarget, Toolbox, Naturals, TLC

_expression ==
    LET MCHttpTarget_TEExpression == INSTANCE MCHttpTarget_TEExpression
    IN MCHttpTarget_TEExpression!expression
----

_trace ==
    LET MCHttpTarget_TETrace == INSTANCE MCHttpTarget_TETrace
    IN MCHttpTarget_TETrace!trace
----

_inv ==
    ~(
        TLCGet("level") = Len(_TETrace)
        /\
        t = ([method |-> "GET", scheme |-> "http://", host |-> "example.com", port |-> ":", path |-> "/", query |-> ""])
        /\
        verdict = ("http:wronghost")
    )
----

_init ==
    /\ verdict = _TETrace[1].verdict
    /\ t = _TETrace[1].t
----

_next ==
    /\ \E i,j \in DOMAIN _TETrace:
        /\ \/ /\ j = i + 1
              /\ i = TLCGet("level")
        /\ verdict  = _TETrace[i].verdict
        /\ verdict' = _TETrace[j].verdict
        /\ t  = _TETrace[i].t
        /\ t' = _TETrace[j].t

\* Uncomment the ASSUME below to write the states of the error trace
\* to the given file in Json format. Note that you can pass any tuple
\* to `JsonSerialize`. For example, a sub-sequence of _TETrace.
    \* ASSUME
    \*     LET J == INSTANCE Json
    \*         IN J!JsonSerialize("MCHttpTarget_TTrace_1790663738.json", _TETrace)

=============================================================================

 Note that you can extract this module `MCHttpTarget_TEExpression`
  to a dedicated file to reuse `expression` (the module in the 
  dedicated `MCHttpTarget_TEExpression.tla` file takes precedence 
  over the module `MCHttpTarget_TEExpression` below).

---- MODULE MCHttpTarget_TEExpression ----
EXTENDS Sequences, TLCExt, MCHttpTarget, Toolbox, Naturals, TLC

expression == 
    [
        \* To hide variables of the `MCHttpTarget` spec from the error trace,
        \* remove the variables below.  The trace will be written in the order
        \* of the fields of this record.
        verdict |-> verdict
        ,t |-> t
        
        \* Put additional constant-, state-, and action-level expressions here:
        \* ,_stateNumber |-> _TEPosition
        \* ,_verdictUnchanged |-> verdict = verdict'
        
        \* Format the `verdict` variable as Json value.
        \* ,_verdictJson |->
        \*     LET J == INSTANCE Json
        \*     IN J!ToJson(verdict)
        
        \* Lastly, you may build expressions over arbitrary sets of states by
        \* leveraging the _TETrace operator.  For example, this is how to
        \* count the number of times a spec variable changed up to the current
        \* state in the trace.
        \* ,_verdictModCount |->
        \*     LET F[s \in DOMAIN _TETrace] ==
        \*         IF s = 1 THEN 0
        \*         ELSE IF _TETrace[s].verdict # _TETrace[s-1].verdict
        \*             THEN 1 + F[s-1] ELSE F[s-1]
        \*     IN F[_TEPosition - 1]
    ]

=============================================================================



Parsing and semantic processing can take forever if the trace below is long.
 In this case, it is advised to uncomment the module below to deserialize the
 trace from a generated binary file.

\*
\*---- MODULE MCHttpTarget_TETrace ----
\*EXTENDS IOUtils, MCHttpTarget, TLC
\*
\*trace == IODeserialize("MCHttpTarget_TTrace_1790663738.bin", TRUE)
\*
\*=============================================================================
\*

---- MODULE MCHttpTarget_TETrace ----
EXTENDS MCHttpTarget, TLC

trace == 
    <<
    ([t |-> [method |-> "GET", scheme |-> "http://", host |-> "example.com", port |-> ":", path |-> "/", query |-> ""],verdict |-> "pending"]),
    ([t |-> [method |-> "GET", scheme |-> "http://", host |-> "example.com", port |-> ":", path |-> "/", query |-> ""],verdict |-> "http:wronghost"])
    >>
----


=============================================================================

---- CONFIG MCHttpTarget_TTrace_1790663738 ----
CONSTANTS
    Dev = { "FindFirstColon" }

INVARIANT
    _inv

CHECK_DEADLOCK
    \* CHECK_DEADLOCK off because of PROPERTY or INVARIANT above.
    FALSE

INIT
    _init

NEXT
    _next

CONSTANT
    _TETrace <- _trace

ALIAS
    _expression
=============================================================================
\* Generated on Tue Sep 29 06:35:39 UTC 2026