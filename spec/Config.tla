------------------------------- MODULE Config -------------------------------
(* C16: the README as a function.  A configuration is a tuple of NAMES
     side      which binary is configured                      "server" | "client"
     proto     protocol name                                   documented or not
     cipher    cipher name                                     documented (7 + the alias) or not
     mode      listening mode name ("absent" = the field is left out)
     key       credential form: an ordinary password (legacy ciphers, Trojan; a UUID for VMess) or, for the 2022 ciphers,
               a base64 key of exactly / not exactly the cipher's key length, a user key of the wrong length, ...
     link      transport sections present: tcp (none) | tls (ssl) | ws | wss (ssl + ws) | quic
   and Documented(cfg) is what the README promises for it:
     accept    the process starts and serves
     tcp / udp is a TCP listener / a UDP socket opened on the configured port   "yes" | "no" | "any" (not specified)
     probes    exchanges that must then succeed:
                 ref_tcp   an independent reference client, knowing only the cipher NAME and the PASSWORD STRING, gets an
                           echo through the server's TCP port (=> algorithm, key size and key derivation are the named ones)
                 ref_udp   the same with one datagram on the server's UDP port
                 flow      a real peer configured with the documented name for the same link relays a TCP echo
                 udp_flow  a real peer relays a datagram echo entered at the client's local UDP port
   Everything that is not documented - an unknown cipher / protocol / mode name, a Shadowsocks 2022 key that is not exactly
   the cipher's key length, a key that is not base64 - must end with accept = FALSE: an error, no listener left behind,
   never a panic, never a silent fallback.
   TLC enumerates every tuple (Export prints one REPLAY line per tuple with its promise); Engine B starts the REAL binary
   on each tuple and records what it observes; TraceConfig validates every record against Documented.                *)
EXTENDS Naturals, Sequences, FiniteSets, TLC, Json

Legacy   == {"aes-128-gcm", "aes-256-gcm", "chacha20-poly1305", "chacha20-ietf-poly1305"}
Aead2022 == {"2022-blake3-aes-128-gcm", "2022-blake3-aes-256-gcm", "2022-blake3-chacha8-poly1305", "2022-blake3-chacha20-poly1305"}
DocCiphers == Legacy \cup Aead2022
BadCiphers == {"aes-192-gcm", "AES-128-GCM", "2022-blake3-aes-128-ccm", "none", "rc4-md5"}
VMessCiphers == {"aes-128-gcm", "chacha20-poly1305"}
\* documented names, but in the Shadowsocks column of the README's cipher table only (a sample of them)
ShadowsocksOnly == {"aes-256-gcm", "2022-blake3-aes-128-gcm", "2022-blake3-chacha20-poly1305"}

DocProtocols == {"shadowsocks", "vmess", "trojan"}
BadProtocols == {"socks5", "Shadowsocks"}

ClientModes == {"absent", "tcp", "udp", "tcp_and_udp"}
ServerModes == {"absent", "tcp", "udp", "tcp_and_udp", "quic", "tcp_and_quic"}
BadModes == {"both", "TCP"}

Links == {"tcp", "tls", "ws", "wss", "quic"}

KeyBytes(c) == IF c \in {"aes-128-gcm", "2022-blake3-aes-128-gcm"} THEN 16 ELSE 32

\* credential forms: legacy ciphers take any password; 2022 ciphers a base64 key of exactly KeyBytes.
\* "userShort" / "userLong": the server key is right, a registered user's key (server) or the identity-key part of
\* "iPSK:uPSK" (client) has the wrong length.
KeyForms2022 == {"exact", "short1", "half", "long1", "double", "notbase64", "empty", "userShort", "userLong"}
KeyOk(c, k) == IF c \in Aead2022 THEN k = "exact" ELSE k = "password"

Sides == {"server", "client"}

VARIABLES cfg, phase
vars == <<cfg, phase>>

Tuples ==
  \* Shadowsocks, plain link: every cipher name (documented or not) x every mode name x credential form
  { [side |-> s, proto |-> "shadowsocks", cipher |-> c, mode |-> m, key |-> k, link |-> "tcp"] :
      s \in Sides, c \in DocCiphers \cup BadCiphers, m \in (ServerModes \ {"quic", "tcp_and_quic"}) \cup BadModes,
      k \in {"password"} \cup KeyForms2022 }
  \cup  \* Shadowsocks servers in the two QUIC modes carry a quic section
  { [side |-> "server", proto |-> "shadowsocks", cipher |-> c, mode |-> m, key |-> k, link |-> "quic"] :
      c \in DocCiphers, m \in {"quic", "tcp_and_quic"}, k \in {"password", "exact"} }
  \cup  \* Shadowsocks over the other links (the mode stays a TCP one)
  { [side |-> s, proto |-> "shadowsocks", cipher |-> c, mode |-> "absent", key |-> k, link |-> l] :
      s \in Sides, c \in {"aes-256-gcm", "2022-blake3-aes-128-gcm"}, k \in {"password", "exact"}, l \in Links \ {"tcp"} }
  \cup  \* VMess and Trojan (and names that are no protocol) on every link
  { [side |-> s, proto |-> p, cipher |-> c, mode |-> m, key |-> "password", link |-> l] :
      s \in Sides, p \in {"vmess", "trojan"} \cup BadProtocols, c \in VMessCiphers \cup BadCiphers \cup ShadowsocksOnly,
      m \in {"absent", "tcp", "udp", "tcp_and_udp"}, l \in Links }
  \cup  \* VMess: the credential is a UUID; a user id that is none
  { [side |-> s, proto |-> "vmess", cipher |-> "aes-128-gcm", mode |-> m, key |-> "notuuid", link |-> l] :
      s \in Sides, m \in {"absent", "tcp_and_udp"}, l \in {"tcp", "wss"} }

Relevant(t) ==
  /\ (t.proto = "shadowsocks" /\ t.cipher \in Aead2022) => t.key \in KeyForms2022
  /\ (t.proto = "shadowsocks" /\ t.cipher \notin Aead2022) => t.key = "password"
  /\ (t.side = "client") => t.mode \in ClientModes \cup BadModes
  \* to keep the product small: credential forms other than the right one only with the default and the combined mode
  /\ (t.key \notin {"exact", "password"}) => t.mode \in {"absent", "tcp_and_udp"}
  \* the protocol-name cases once per link is enough
  /\ (t.proto \in BadProtocols) => (t.cipher = "aes-128-gcm" /\ t.mode = "absent" /\ t.link \in {"tcp", "tls"})
  \* VMess / Trojan: the mode names matter on the client only; a server is started with the default and one other
  /\ (t.proto \in {"vmess", "trojan"} /\ t.side = "server") => t.mode \in {"absent", "tcp_and_udp"}
  /\ (t.proto = "trojan") => t.cipher \in {"aes-128-gcm", "aes-256-gcm"} \cup BadCiphers
  \* cipher names outside the VMess column with VMess / Trojan: default and combined mode, three links
  /\ (t.proto \in {"vmess", "trojan"} \cup BadProtocols /\ t.cipher \notin VMessCiphers)
        => (t.proto \in {"vmess", "trojan"} /\ t.mode \in {"absent", "tcp_and_udp"} /\ t.link \in {"tcp", "wss", "quic"})
  \* client mode "udp" alone is exercised on the plain and the QUIC link
  /\ (t.proto \in {"vmess", "trojan"} /\ t.side = "client" /\ t.mode = "udp") => t.link \in {"tcp", "tls", "quic"}

\* README transport table: which links carry datagrams for which protocol
UdpLink(p, l) == \/ p = "shadowsocks" /\ l = "tcp"     \* its own UDP port next to the TCP one
                 \/ p = "vmess"
                 \/ p = "trojan" /\ l \in {"tls", "wss", "quic"}

Documented(t) ==
  LET okNames == /\ t.proto \in DocProtocols
                 /\ t.cipher \in DocCiphers                         \* an unknown cipher name is refused whatever the protocol
                 \* InconsistentRefused: the cipher selects the VMess client's algorithm; a name from the Shadowsocks
                 \* column does not silently become AES-128-GCM.  (A VMess server takes the algorithm from each request and a
                 \* Trojan peer has none to select: there the field selects nothing and any documented name is accepted.)
                 /\ ((t.proto = "vmess" /\ t.side = "client") => t.cipher \in VMessCiphers)
                 /\ (t.side = "server" => t.mode \in ServerModes) /\ (t.side = "client" => t.mode \in ClientModes)
      okKey == IF t.proto = "shadowsocks" THEN KeyOk(t.cipher, t.key) ELSE t.key = "password"    \* VMess: a UUID
      acc == okNames /\ okKey
      m == t.mode
      No == [accept |-> FALSE, tcp |-> "no", udp |-> "no", probes |-> {}]
  IN IF ~acc THEN No
     ELSE IF t.side = "client"
       THEN LET tcpOn == m \in {"absent", "tcp", "tcp_and_udp"}
                udpOn == m \in {"udp", "tcp_and_udp"}
            IN [accept |-> TRUE, tcp |-> IF tcpOn THEN "yes" ELSE "no", udp |-> IF udpOn THEN "yes" ELSE "no",
                probes |-> (IF tcpOn THEN {"flow"} ELSE {}) \cup (IF udpOn /\ UdpLink(t.proto, t.link) THEN {"udp_flow"} ELSE {})]
     ELSE IF t.proto = "shadowsocks"
       THEN LET tcpOn == m \in {"absent", "tcp", "tcp_and_udp", "tcp_and_quic"}
                dgram == m \in {"udp", "tcp_and_udp"}
                quic  == m \in {"quic", "tcp_and_quic"}
            IN [accept |-> TRUE, tcp |-> IF tcpOn THEN "yes" ELSE "no", udp |-> IF dgram \/ quic THEN "yes" ELSE "no",
                probes |-> (IF tcpOn /\ t.link \in {"tcp", "quic"} THEN {"ref_tcp"} ELSE {})
                           \cup (IF dgram THEN {"ref_udp"} ELSE {})
                           \cup (IF quic \/ (tcpOn /\ t.link \notin {"tcp", "quic"}) THEN {"flow"} ELSE {})]
     ELSE \* vmess / trojan servers: TCP always (the mode names are a Shadowsocks matter); QUIC when a quic section is there
          [accept |-> TRUE, tcp |-> IF t.link = "quic" THEN "any" ELSE "yes", udp |-> IF t.link = "quic" THEN "yes" ELSE "no",
           probes |-> {"flow"} \cup (IF t.proto = "trojan" /\ t.link = "tcp" THEN {"ref_tcp"} ELSE {})]

Init == cfg \in {t \in Tuples : Relevant(t)} /\ phase = "chosen"
Next == phase = "chosen" /\ phase' = "done" /\ UNCHANGED cfg
Spec == Init /\ [][Next]_vars

Export == phase = "done" => PrintT("REPLAY " \o ToJson([cfg |-> cfg, want |-> Documented(cfg)]))

\* the table is sane: something that is not accepted opens nothing; tcp_and_udp opens both; tcp_and_quic opens TCP and QUIC;
\* a legacy cipher takes the same ordinary password on TCP and on UDP (both reference probes with the one password)
Sane == LET d == Documented(cfg) IN
        /\ (~d.accept => d.tcp = "no" /\ d.udp = "no" /\ d.probes = {})
        /\ (d.accept /\ cfg.mode = "tcp_and_udp" /\ (cfg.side = "client" \/ cfg.proto = "shadowsocks")) => (d.tcp = "yes" /\ d.udp = "yes")
        /\ (d.accept /\ cfg.side = "server" /\ cfg.proto = "shadowsocks" /\ cfg.mode = "tcp_and_quic") => (d.tcp = "yes" /\ d.udp = "yes" /\ {"ref_tcp", "flow"} \subseteq d.probes)
        /\ (d.accept /\ cfg.side = "server" /\ cfg.proto = "shadowsocks" /\ cfg.mode = "tcp_and_udp" /\ cfg.link = "tcp") => {"ref_tcp", "ref_udp"} \subseteq d.probes
        /\ (d.accept /\ cfg.side = "client" /\ cfg.mode = "udp") => (d.tcp = "no" /\ d.udp = "yes")

(* What an observation of the real binary must look like for cfg.  obs = [alive, tcp, udp, panic, ok (probes that
   succeeded), ran (probes that were run)]. *)
Conforms(t, obs) ==
  LET d == Documented(t) IN
  /\ ~obs.panic
  /\ IF d.accept
       THEN /\ obs.alive
            /\ (d.tcp = "yes" => obs.tcp) /\ (d.tcp = "no" => ~obs.tcp)
            /\ (d.udp = "yes" => obs.udp) /\ (d.udp = "no" => ~obs.udp)
            /\ d.probes \subseteq obs.ran
            /\ \A p \in d.probes : p \in obs.ok
       ELSE \* refused: nothing is left listening (the process may exit or idle with an error)
            /\ ~obs.tcp /\ ~obs.udp

(* The start-up code as a decision function, shaped like the code: serde names -> enums (one Mode enum shared by both
   binaries), mode predicates enable_tcp / enable_udp / enable_quic, key parsing with a fixed N-byte buffer, the
   per-protocol start-up.  Dev names what the code used to do (each is a fixed defect; TLC must see the difference). *)
CONSTANT Dev
ModeNames == {"tcp", "udp", "tcp_and_udp", "quic", "tcp_and_quic"}
EnableTcp(m)  == m \in {"absent", "tcp", "tcp_and_udp"} \/ (m = "tcp_and_quic" /\ "QuicNoTcp" \notin Dev)
EnableUdp(m)  == m \in {"udp", "tcp_and_udp"}
EnableQuic(m) == m \in {"quic", "tcp_and_quic"}
KeyParses(c, k) ==      \* Base64::decode into [u8; N]: refuses what is not base64 or does not fit
  IF c \notin Aead2022 THEN TRUE
  ELSE CASE k = "exact" -> TRUE
         [] k \in {"short1", "half", "userShort"} -> "ShortKeyPadded" \in Dev
         [] OTHER -> FALSE
Impl(t) ==
  LET parsed == /\ t.proto \in DocProtocols /\ t.cipher \in DocCiphers /\ (t.mode = "absent" \/ t.mode \in ModeNames)
      keyOk  == IF t.proto = "shadowsocks" THEN KeyParses(t.cipher, t.key)
                ELSE (t.key = "password" \/ "VMessIdCheckedLate" \in Dev)
      Dead   == [alive |-> FALSE, tcp |-> FALSE, udp |-> FALSE, panic |-> FALSE, ok |-> {}, ran |-> {}]
      all    == {"ref_tcp", "ref_udp", "flow", "udp_flow"}
  IN IF ~parsed THEN Dead
     ELSE IF t.side = "client"
       THEN IF ~EnableTcp(t.mode) /\ (~EnableUdp(t.mode) \/ "UdpModeExits" \in Dev) THEN Dead     \* main returns at once
            ELSE IF ~keyOk THEN Dead        \* "create client context failed": main returns, the sockets go with it
            ELSE IF t.proto = "vmess" /\ t.cipher \notin VMessCiphers /\ "VMessAnyCipher" \notin Dev THEN Dead
            ELSE [alive |-> TRUE, tcp |-> EnableTcp(t.mode), udp |-> EnableUdp(t.mode), panic |-> FALSE, ok |-> all, ran |-> all]
     ELSE IF t.proto = "shadowsocks"
       THEN IF ~keyOk THEN Dead
            ELSE [alive |-> TRUE, tcp |-> EnableTcp(t.mode), udp |-> EnableUdp(t.mode) \/ (EnableQuic(t.mode) /\ t.link = "quic"),
                  panic |-> FALSE, ok |-> all \ (IF EnableTcp(t.mode) THEN {} ELSE {"ref_tcp"}), ran |-> all]
     ELSE IF ~keyOk THEN Dead
     ELSE [alive |-> TRUE, tcp |-> TRUE, udp |-> t.link = "quic", panic |-> FALSE, ok |-> all, ran |-> all]

ImplConforms == Conforms(cfg, Impl(cfg))
=============================================================================
