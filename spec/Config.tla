------------------------------- MODULE Config -------------------------------
(* C16: the README as a function.  A configuration is a tuple of NAMES (side, protocol, cipher, mode, transport
   sections, credential form); Documented(cfg) says what the README promises for it:
     accept   the process starts and serves,
     tcp      a TCP listener is opened on the configured port,
     udp      a UDP socket is opened on the configured port (datagram relay, or QUIC),
     kind     what that UDP socket speaks: "dgram" | "quic" | "none"
   and everything that is not documented - an unknown cipher / protocol / mode name, a Shadowsocks 2022 key that is not
   exactly the cipher's key length, a key that is not base64 - must end with accept = FALSE (an error; no listener that
   serves; never a panic).  TLC enumerates every tuple below (Export prints one REPLAY line per tuple with the promise);
   Engine B starts the REAL binary on each tuple and compares what it observes (bound sockets in /proc/net, exit, log).
   The invariants check the table itself: totality, and that no two documented names collapse.                       *)
EXTENDS Naturals, Sequences, FiniteSets, TLC, Json

Legacy   == {"aes-128-gcm", "aes-256-gcm", "chacha20-poly1305", "chacha20-ietf-poly1305"}
Aead2022 == {"2022-blake3-aes-128-gcm", "2022-blake3-aes-256-gcm", "2022-blake3-chacha8-poly1305", "2022-blake3-chacha20-poly1305"}
DocCiphers == Legacy \cup Aead2022
BadCiphers == {"aes-192-gcm", "AES-128-GCM", "2022-blake3-aes-128-ccm", "none", "rc4-md5"}
VMessCiphers == {"aes-128-gcm", "chacha20-poly1305"}

DocProtocols == {"shadowsocks", "vmess", "trojan"}
BadProtocols == {"socks5", "Shadowsocks"}

ClientModes == {"absent", "tcp", "udp", "tcp_and_udp"}
ServerModes == {"absent", "tcp", "udp", "tcp_and_udp", "quic", "tcp_and_quic"}
BadModes == {"both", "TCP"}

KeyBytes(c) == IF c \in {"aes-128-gcm", "2022-blake3-aes-128-gcm"} THEN 16 ELSE 32

\* credential forms: legacy ciphers take any password; 2022 ciphers a base64 key of exactly KeyBytes
KeyForms2022 == {"exact", "short1", "half", "long1", "double", "notbase64", "empty"}
KeyOk(c, k) == IF c \in Aead2022 THEN k = "exact" ELSE k = "password"

Sides == {"server", "client"}

VARIABLES cfg, phase
vars == <<cfg, phase>>

Tuples ==
  \* Shadowsocks: every cipher name (documented or not) x every mode name x credential form
  { [side |-> s, proto |-> "shadowsocks", cipher |-> c, mode |-> m, key |-> k] :
      s \in Sides, c \in DocCiphers \cup BadCiphers, m \in ServerModes \cup BadModes,
      k \in {"password"} \cup KeyForms2022 }
  \cup
  { [side |-> s, proto |-> p, cipher |-> c, mode |-> m, key |-> "password"] :
      s \in Sides, p \in {"vmess", "trojan"} \cup BadProtocols, c \in VMessCiphers, m \in {"absent", "tcp", "tcp_and_udp"} }

Relevant(t) ==
  /\ (t.proto = "shadowsocks" /\ t.cipher \in Aead2022) => t.key \in KeyForms2022
  /\ (t.proto = "shadowsocks" /\ t.cipher \notin Aead2022) => t.key = "password"
  /\ (t.side = "client") => t.mode \in ClientModes \cup BadModes
  \* to keep the product small: credential forms other than the right one only with the default and the combined mode
  /\ (t.key \notin {"exact", "password"}) => t.mode \in {"absent", "tcp_and_udp"}

Documented(t) ==
  LET okNames == /\ t.proto \in DocProtocols
                 /\ (t.proto = "shadowsocks" => t.cipher \in DocCiphers)
                 /\ (t.side = "server" => t.mode \in ServerModes) /\ (t.side = "client" => t.mode \in ClientModes)
      okKey == t.proto # "shadowsocks" \/ KeyOk(t.cipher, t.key)
      acc == okNames /\ okKey
      m == t.mode
  IN IF ~acc THEN [accept |-> FALSE, tcp |-> FALSE, udp |-> FALSE, kind |-> "none"]
     ELSE IF t.side = "client"
       THEN [accept |-> TRUE, tcp |-> m \in {"absent", "tcp", "tcp_and_udp"}, udp |-> m \in {"udp", "tcp_and_udp"},
             kind |-> IF m \in {"udp", "tcp_and_udp"} THEN "dgram" ELSE "none"]
     ELSE IF t.proto = "shadowsocks"
       THEN [accept |-> TRUE, tcp |-> m \in {"absent", "tcp", "tcp_and_udp", "tcp_and_quic"},
             udp |-> m \in {"udp", "tcp_and_udp", "quic", "tcp_and_quic"},
             kind |-> IF m \in {"udp", "tcp_and_udp"} THEN "dgram" ELSE IF m \in {"quic", "tcp_and_quic"} THEN "quic" ELSE "none"]
     ELSE \* vmess / trojan servers: TCP always; the mode names are a Shadowsocks matter
          [accept |-> TRUE, tcp |-> TRUE, udp |-> FALSE, kind |-> "none"]

Init == cfg \in {t \in Tuples : Relevant(t)} /\ phase = "chosen"
Next == phase = "chosen" /\ phase' = "done" /\ UNCHANGED cfg
Spec == Init /\ [][Next]_vars

Export == phase = "done" => PrintT("REPLAY " \o ToJson([cfg |-> cfg, want |-> Documented(cfg)]))

\* the table is sane: something that is not accepted opens nothing; tcp_and_udp opens both; tcp_and_quic opens TCP and QUIC
Sane == LET d == Documented(cfg) IN
        /\ (~d.accept => ~d.tcp /\ ~d.udp)
        /\ (d.accept /\ cfg.mode = "tcp_and_udp" /\ (cfg.side = "client" \/ cfg.proto = "shadowsocks")) => (d.tcp /\ d.udp /\ d.kind = "dgram")
        /\ (d.accept /\ cfg.side = "server" /\ cfg.proto = "shadowsocks" /\ cfg.mode = "tcp_and_quic") => (d.tcp /\ d.udp /\ d.kind = "quic")
=============================================================================
