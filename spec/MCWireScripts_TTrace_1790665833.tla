---- MODULE MCWireScripts_TTrace_1790665833 ----
EXTENDS MCWireScripts, Sequences, TLCExt, Toolbox, Naturals, TLC

_expression ==
    LET MCWireScripts_TEExpression == INSTANCE MCWireScripts_TEExpression
    IN MCWireScripts_TEExpression!expression
----

_trace ==
    LET MCWireScripts_TETrace == INSTANCE MCWireScripts_TETrace
    IN MCWireScripts_TETrace!trace
----

_inv ==
    ~(
        TLCGet("level") = Len(_TETrace)
        /\
        verdict = ("over-limit")
        /\
        script = ([family |-> "ss-legacy", dir |-> "req", producer |-> "real", sizes |-> <<16384>>, mask |-> 0])
    )
----

_init ==
    /\ verdict = _TETrace[1].verdict
    /\ script = _TETrace[1].script
----

_next ==
    /\ \E i,j \in DOMAIN _TETrace:
        /\ \/ /\ j = i + 1
              /\ i = TLCGet("level")
        /\ verdict  = _TETrace[i].verdict
        /\ verdict' = _TETrace[j].verdict
        /\ script  = _TETrace[i].script
        /\ script' = _TETrace[j].script

\* Uncomment the ASSUME below to write the states of the error trace
\* to the given file in Json format. Note that you can pass any tuple
\* to `JsonSerialize`. For example, a sub-sequence of _TETrace.
    \* ASSUME
    \*     LET J == INSTANCE Json
    \*         IN J!JsonSerialize("MCWireScripts_TTrace_1790665833.json", _TETrace)

=============================================================================

 Note that you can extract this module `MCWireScripts_TEExpression`
  to a dedicated file to reuse `expression` (the module in the 
  dedicated `MCWireScripts_TEExpression.tla` file takes precedence 
  over the module `MCWireScripts_TEExpression` below).

---- MODULE MCWireScripts_TEExpression ----
EXTENDS MCWireScripts, Sequences, TLCExt, Toolbox, Naturals, TLC

expression == 
    [
        \* To hide variables of the `MCWireScripts` spec from the error trace,
        \* remove the variables below.  The trace will be written in the order
        \* of the fields of this record.
        verdict |-> verdict
        ,script |-> script
        
        \* Put additional constant-, state-, and action-level expressions here:
        \* ,_stateNumber |-> _TEPosition
        \* ,_verdictUnchanged |-> verdict = verdict'
        
        \* Format the `verdict` variable as Json value.
        \* ,_verdictJson |->
        \*     LET J == INSTANCE Json
        \*     IN J!ToJson(verdict)
        
        \* Lastly, you may build expressions over arbitrary sets of states by
        \* leveraging the _TETrace operator.  For example, this is how to
        \* count the number of times a spec variable changed up to the current
        \* state in the trace.
        \* ,_verdictModCount |->
        \*     LET F[s \in DOMAIN _TETrace] ==
        \*         IF s = 1 THEN 0
        \*         ELSE IF _TETrace[s].verdict # _TETrace[s-1].verdict
        \*             THEN 1 + F[s-1] ELSE F[s-1]
        \*     IN F[_TEPosition - 1]
    ]

=============================================================================



Parsing and semantic processing can take forever if the trace below is long.
 In this case, it is advised to uncomment the module below to deserialize the
 trace from a generated binary file.

\*
\*---- MODULE MCWireScripts_TETrace ----
\*EXTENDS MCWireScripts, IOUtils, TLC
\*
\*trace == IODeserialize("MCWireScripts_TTrace_1790665833.bin", TRUE)
\*
\*=============================================================================
\*

---- MODULE MCWireScripts_TETrace ----
EXTENDS MCWireScripts, TLC

trace == 
    <<
    ([verdict |-> "pending",script |-> [family |-> "ss-legacy", dir |-> "req", producer |-> "real", sizes |-> <<16384>>, mask |-> 0]]),
    ([verdict |-> "over-limit",script |-> [family |-> "ss-legacy", dir |-> "req", producer |-> "real", sizes |-> <<16384>>, mask |-> 0]])
    >>
----


=============================================================================

---- CONFIG MCWireScripts_TTrace_1790665833 ----
CONSTANTS
    Dev = { "BigChunk" }

INVARIANT
    _inv

CHECK_DEADLOCK
    \* CHECK_DEADLOCK off because of PROPERTY or INVARIANT above.
    FALSE

INIT
    _init

NEXT
    _next

CONSTANT
    _TETrace <- _trace

ALIAS
    _expression
=============================================================================
\* Generated on Tue Sep 29 07:10:34 UTC 2026