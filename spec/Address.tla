------------------------------- MODULE Address -------------------------------
(* C14 — a target address from the local handshake to the server's decoder.
   Both encodings carry a domain name behind a one-byte length:
       SOCKS5 style  type(1) len(1) name port(2)          VMess style  port(2) type(1) len(1) name
   so only names of 1..255 bytes can be represented.  The client must refuse anything else at its
   door (`Admit`), and for every admitted address  Decode(Encode(a) \o tail) = (a, tail).
   Bytes are symbolic: the name is <<1, 2, .., n>> (so truncation, shifting or re-interpretation of
   any byte shows), the port is the pair <<"p1","p2">>, the tail <<"t",1>>, <<"t",2>> ...
   Deviations: "NoDoorCheck" admits every name (the code's former behaviour), with which the
   encoders' `len as u8` silently re-interprets long names (256 -> empty name, the name's first
   bytes become the port, the rest payload) and an empty name is sent on.                       *)
EXTENDS Integers, Sequences, FiniteSets, TLC

CONSTANTS Styles, NameLens, TailLens, Dev

Name(n) == [i \in 1..n |-> i]
Port == << "p1", "p2" >>
TailOf(k) == [i \in 1..k |-> <<"t", i>>]

Kinds == {"domain", "v4", "v6"}
(* `shape` says what the bytes are made of; the encodings must not care, which is the point:
     domain  "ascii" | "utf8x2" / "utf8x3" (well-formed two- / three-byte characters: FEWER characters than bytes) |
             "latin1" (bytes that are no well-formed UTF-8; they can only enter through the SOCKS5 doors)
     v6      "generic" | "unspecified" (::) | "loopback" (::1) | "v4compat" (::a.b.c.d) | "v4mapped" (::ffff:a.b.c.d) |
             "linklocal" | "multicast"           v4   "generic" | "zero" | "broadcast" | "loopback"
   n is always the number of BYTES of the host field.                                                              *)
\* "dotted": an absolute name, its last byte is '.'; "dotdigits": digits and dots that are no IPv4 address; "upper": upper-case
\* letters - forms a well-meant normalisation would touch; the name travels as the bytes it was given
DomainShapes == {"ascii", "utf8x2", "utf8x3", "latin1", "dotted", "dotdigits", "upper"}
V6Shapes == {"generic", "unspecified", "loopback", "v4compat", "v4mapped", "linklocal", "multicast"}
V4Shapes == {"generic", "zero", "broadcast", "loopback"}
Addrs == {[kind |-> "domain", n |-> n, shape |-> sh] : n \in NameLens, sh \in DomainShapes}
         \cup {[kind |-> "v4", n |-> 4, shape |-> sh] : sh \in V4Shapes}
         \cup {[kind |-> "v6", n |-> 16, shape |-> sh] : sh \in V6Shapes}
\* a name of n bytes made of k-byte characters exists only when k divides n (the generator pads with one ASCII byte otherwise)

\* a name is text: bytes that are no well-formed UTF-8 are no name (the VMess-style receiver refuses them, so the door must)
Admit(a) == a.kind # "domain" \/ (a.n >= 1 /\ a.n <= 255 /\ a.shape # "latin1") \/ "NoDoorCheck" \in Dev

TypeByte(a) == <<"type", a.kind>>
LenByte(a) == <<"len", a.n % 256>>              \* what `len as u8` puts on the wire

Encode(style, a) ==
  LET body == IF a.kind = "domain" THEN <<LenByte(a)>> \o Name(a.n) ELSE Name(a.n)
  IN IF style = "socks5" THEN <<TypeByte(a)>> \o body \o Port
     ELSE Port \o <<TypeByte(a)>> \o body

\* decoding what is on the wire: returns [ok, kind, name, port, rest]
Decode(style, w) ==
  LET off == IF style = "socks5" THEN 0 ELSE 2
      kind == w[off + 1][2]
      hasLen == kind = "domain"
      n == IF hasLen THEN w[off + 2][2] ELSE (IF kind = "v4" THEN 4 ELSE 16)
      nameAt == off + (IF hasLen THEN 3 ELSE 2)
      need == nameAt - 1 + n + (IF style = "socks5" THEN 2 ELSE 0)
  IN IF Len(w) < need THEN [ok |-> FALSE, kind |-> kind, name |-> <<>>, port |-> <<>>, rest |-> <<>>]
     ELSE [ok |-> TRUE, kind |-> kind,
           name |-> SubSeq(w, nameAt, nameAt + n - 1),
           port |-> IF style = "socks5" THEN SubSeq(w, nameAt + n, nameAt + n + 1) ELSE SubSeq(w, 1, 2),
           rest |-> SubSeq(w, need + 1, Len(w))]

VARIABLES style, a, tail, outcome     \* outcome: "pending" | "refused" | "exact" | "altered"
Init == style \in Styles /\ a \in Addrs /\ tail \in TailLens /\ outcome = "pending"
Step == /\ outcome = "pending"
        /\ IF ~Admit(a) THEN outcome' = "refused"
           ELSE LET d == Decode(style, Encode(style, a) \o TailOf(tail))
                IN outcome' = IF d.ok /\ d.kind = a.kind /\ d.name = Name(a.n) /\ d.port = Port /\ d.rest = TailOf(tail)
                                THEN "exact" ELSE "altered"
        /\ UNCHANGED <<style, a, tail>>
Spec == Init /\ [][Step]_<<style, a, tail, outcome>>

ExactOrRefused == outcome # "altered"
RefusedOnlyIfUnrepresentable == outcome = "refused" => (a.kind = "domain" /\ (a.n = 0 \/ a.n > 255 \/ a.shape = "latin1"))
=============================================================================
