------------------------------ MODULE TraceWire ------------------------------
(* impl -> spec for C12 and C03: the bytes the real encoders produced, opened by the reference opener
   and logged as   Session(proto, dir, fmt, limit) Fresh(what, id)* Unit(kind, key, nonce, plain)*
   `key` and the fresh values are small ids the recorder assigns to distinct byte strings (equal
   bytes => equal id), `nonce` is the counter that opened the unit, or -1 for unsealed units, or an
   id for random datagram nonces.
   Checked in every state: the ledger (no (key, nonce) pair twice in the whole trace), counters start
   at 0 and step by exactly one per sealed unit of their cipher, the order of unit kinds follows the
   protocol's grammar, payload units respect the sender limit, fresh values are pairwise distinct. *)
EXTENDS Integers, Sequences, FiniteSets, TLC, Json, IOUtils

Rec == ndJsonDeserialize(IOEnv.TRACE)

\* KeepLedger = FALSE is for one very long session (more chunks than the VMess counter has values): the ledger of
\* (key, nonce) pairs is then not kept as a set - uniqueness below the wrap follows from the counter rule, which is
\* checked for every unit - so that the state stays small.
CONSTANT KeepLedger
\* the VMess chunk counter is 16 bits wide and wraps to 0 (the protocol's own width: v2ray's uint16 count); every other
\* counter of these protocols is wider than any run
Modulus(fmt) == IF fmt = "vmess-stream" THEN 65536 ELSE 2147483647

VARIABLES used,      \* ledger of <<key, nonce>>
          fresh,     \* fresh values seen, per kind: set of <<what, id>>
          ctr,       \* function key -> next expected counter, for the keys of the current session
          prev,      \* kind of the previous unit in this session ("" at session start)
          sess,      \* the current Session record
          l

tvars == <<used, fresh, ctr, prev, sess, l>>

TraceInit == used = {} /\ fresh = {} /\ ctr = <<>> /\ prev = "" /\ sess = Rec[1] /\ l = 1

\* grammar: which unit kind may follow which (per format)
Follows(fmt, a, b) ==
  CASE fmt = "ss-stream"   -> \/ (a = "" /\ b \in {"fixed", "len"})
                              \/ (a = "fixed" /\ b = "var") \/ (a \in {"var", "pay"} /\ b = "len") \/ (a = "len" /\ b = "pay")
    [] fmt = "vmess-stream" -> \/ (a = "" /\ b = "hdrlen") \/ (a = "hdrlen" /\ b = "hdr")
                               \/ (a \in {"hdr", "pay"} /\ b \in {"size", "pay"}) \/ (a = "size" /\ b = "pay")
    [] fmt = "datagram"    -> a \in {"", "dgram"} /\ b = "dgram"
    [] OTHER -> FALSE

Session ==
  /\ l <= Len(Rec) /\ Rec[l].ev = "Session"
  /\ sess' = Rec[l] /\ ctr' = <<>> /\ prev' = ""
  /\ UNCHANGED <<used, fresh>> /\ l' = l + 1

Fresh ==
  /\ l <= Len(Rec) /\ Rec[l].ev = "Fresh"
  /\ <<Rec[l].what, Rec[l].id>> \notin fresh              \* FreshPerSession
  /\ fresh' = fresh \cup {<<Rec[l].what, Rec[l].id>>}
  /\ UNCHANGED <<used, ctr, prev, sess>> /\ l' = l + 1

Unit ==
  /\ l <= Len(Rec) /\ Rec[l].ev = "Unit"
  /\ LET u == Rec[l]
         k == u.key
         steps == IF k \in DOMAIN ctr THEN ctr[k] ELSE 0
         expect == steps % Modulus(sess.fmt)
     IN /\ Follows(sess.fmt, prev, u.kind)
        /\ u.plain <= sess.limit \/ u.kind \notin {"pay", "var"}       \* sender limit
        /\ IF u.counted
             THEN /\ u.nonce = expect                                  \* CountersAdvance: 0, 1, 2, ...
                  /\ ctr' = [x \in (DOMAIN ctr) \cup {k} |-> IF x = k THEN steps + 1 ELSE ctr[x]]
             ELSE UNCHANGED ctr
        /\ IF KeepLedger
             THEN /\ (<<k, u.nonce>> \notin used \/ (u.counted /\ steps >= Modulus(sess.fmt)))   \* NoReuse (a wrapped counter is the protocol's)
                  /\ used' = used \cup {<<k, u.nonce>>}
             ELSE UNCHANGED used
        /\ prev' = u.kind
  /\ UNCHANGED <<fresh, sess>> /\ l' = l + 1

\* SentFresh (Wire): a message that carries a timestamp is stamped when it is sent, however long its session object
\* had existed before (one second of slack for a second boundary between the write and the reading of the clock)
Stamp ==
  /\ l <= Len(Rec) /\ Rec[l].ev = "Stamp"
  \* VMess blurs the time in its authentication token by up to 30 s on purpose (as v2ray does); that is the protocol's
  /\ LET slack == IF Rec[l].what = "vmess-auth" THEN 31 ELSE 1 IN Rec[l].dts \in (0 - slack)..slack
  /\ UNCHANGED <<used, fresh, ctr, prev, sess>> /\ l' = l + 1

TraceNext == Session \/ Fresh \/ Unit \/ Stamp
TraceSpec == TraceInit /\ [][TraceNext]_tvars

TraceAccepted ==
  LET d == TLCGet("stats").diameter IN
  IF d - 1 = Len(Rec) THEN PrintT(<<"TRACE-ACCEPTED", d - 1>>)
  ELSE PrintT(<<"TRACE-REJECTED", d - 1, "next unmatched event", Rec[d]>>)
=============================================================================
