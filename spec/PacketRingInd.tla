--------------------------- MODULE PacketRingInd ---------------------------
(* C11, unbounded histories: the ring design (PacketRing) and the set model (PacketWindow) in lock step over the ids
   0..MaxId, with an INDUCTIVE invariant, checked by Apalache:
       Init => IndInv            IndInv /\ Next => IndInv'          IndInv => Agreement
   so the ring's verdict equals the set model's after ANY number of presentations (TLC checks histories up to a length).
   Scaled constants as in MCPacketRing_scaled (BB = 2, RB = 4, W = 6).                                                *)
EXTENDS Integers, FiniteSets

CONSTANTS
  \* @type: Int;
  BB,
  \* @type: Int;
  RB,
  \* @type: Int;
  MaxId,
  \* @type: Int;
  Limit,
  \* @type: Bool;
  EdgeGE      \* deviation (anti-vacuity): the window edge compared with >= instead of >

VARIABLES
  \* @type: Set(Int);
  seen,
  \* @type: Int;
  last,
  \* @type: Int -> Set(Int);
  ring,
  \* @type: Int;
  rlast,
  \* @type: Bool;
  agree

W == (RB - 1) * BB
Blk(id) == id \div BB
Min(a, b) == IF a < b THEN a ELSE b
IdsAll == 0..MaxId
Blocks == 0..(RB - 1)
Bits == 0..(BB - 1)

CInit == BB = 2 /\ RB = 4 /\ MaxId = 24 /\ Limit = 23 /\ EdgeGE = FALSE
CInitDev == BB = 2 /\ RB = 4 /\ MaxId = 24 /\ Limit = 23 /\ EdgeGE = TRUE
Stale(id) == IF EdgeGE THEN rlast - id >= W ELSE rlast - id > W

Accepts(id) == id < Limit /\ id \notin seen /\ (id > last \/ last - id <= W)

\* ring verdict for id (same text as PacketRing.RingStep)
Fwd(id) == id > rlast
Diff(id) == IF Fwd(id) THEN Min(Blk(id) - Blk(rlast), RB) ELSE 0
Cleared(id) == [b \in Blocks |-> IF Fwd(id) /\ (\E d \in 1..RB : d <= Diff(id) /\ (Blk(rlast) + d) % RB = b) THEN {} ELSE ring[b]]
RingOk(id) == IF id >= Limit THEN FALSE
              ELSE IF ~Fwd(id) /\ Stale(id) THEN FALSE
              ELSE (id % BB) \notin Cleared(id)[Blk(id) % RB]

Init == seen = {} /\ last = 0 /\ ring = [b \in Blocks |-> {}] /\ rlast = 0 /\ agree = TRUE

Step(id) ==
  /\ agree' = (RingOk(id) = Accepts(id))
  /\ IF Accepts(id) THEN seen' = seen \cup {id} /\ last' = (IF id > last THEN id ELSE last) ELSE UNCHANGED <<seen, last>>
  /\ IF id >= Limit \/ (~Fwd(id) /\ Stale(id))
       THEN UNCHANGED <<ring, rlast>>
       ELSE /\ ring' = [b \in Blocks |-> IF b = Blk(id) % RB THEN Cleared(id)[b] \cup {id % BB} ELSE Cleared(id)[b]]
            /\ rlast' = IF Fwd(id) THEN id ELSE rlast

Next == \E id \in IdsAll : Step(id)

TypeOK == /\ seen \subseteq IdsAll /\ last \in IdsAll /\ rlast \in IdsAll
          /\ ring \in [Blocks -> SUBSET Bits]
          /\ agree \in BOOLEAN

\* the ring holds exactly the accepted ids of the last RB blocks (blocks are cleared wholesale when the ring advances)
ExactRing == \A b \in Blocks : \A bit \in Bits :
               (bit \in ring[b]) <=> (\E i \in seen : i % BB = bit /\ Blk(i) % RB = b /\ Blk(last) - Blk(i) < RB)

IndInv == /\ TypeOK /\ rlast = last /\ (\A i \in seen : i <= last /\ i < Limit) /\ ExactRing
          /\ (seen = {} => last = 0) /\ (seen # {} => last \in seen)
Agreement == agree
\* an arbitrary state satisfying the invariant (start of the inductive step)
IndInit == /\ seen \in SUBSET IdsAll /\ last \in IdsAll /\ rlast \in IdsAll
           /\ ring \in [Blocks -> SUBSET Bits] /\ agree = TRUE
           /\ IndInv
IndAndAgree == IndInv /\ Agreement
=============================================================================
