-------------------------- MODULE MCLocalHandshake --------------------------
EXTENDS LocalHandshake, Json
MSocks5  == << [line |-> 3, len |-> 3], [line |-> 5, len |-> 5] >>
MConnect == << [line |-> 3, len |-> 6] >>
MHttp    == << [line |-> 3, len |-> 6] >>
MGarbage == << [line |-> 3, len |-> 3] >>
Done == st \in {"tunnel", "refused", "panicked"}
Export == Done => PrintT("REPLAY " \o ToJson([kind |-> Kind, wellformed |-> WellFormed, msgs |-> Msgs, hist |-> hist,
                                              expect |-> [st |-> st, replies |-> replies, leaked |-> leaked]]))
NoHist == <<m, arr, used, replies, st, leaked, closed>>
=============================================================================
