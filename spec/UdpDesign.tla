------------------------------ MODULE UdpDesign ------------------------------
(* C02, design level: the datagram path as the code builds it.

   client  transfer_udp: one select loop owns the binding table (LRU, capacity Cap).  key = the local sender's address
           (Shadowsocks, Trojan) or (sender, target) (VMess).  A new key creates a binding: a fresh outbound (its own
           UDP socket and Shadowsocks session, or its own stream to the server) plus a reply task that remembers the
           SENDER it was created for and hands every reply to the loop, which sends it to that sender.  At capacity
           the least recently used binding is dropped (its reply task is aborted, its outbound closed).
   server  Shadowsocks: one select loop owns the association table keyed by the client session id; an association has
           its own outbound socket (the `src` a target sees) and remembers the client address of the datagram that
           created it; replies read from that socket are labelled with the address they came FROM and sent there.
           VMess / Trojan: one flow per binding with its own outbound socket; Trojan frames carry the address,
           VMess frames do not (the client labels a reply with the address the binding was created for).

   The variables of UdpRelay are part of the state; TLC checks  UdpDesign => UdpRelay  (every step is a UdpRelay
   step or invisible), i.e. all of UdpRelay's guards: NoInvent, RightTarget, NoDup, OneOwnerPerSource, ReplyToOwner,
   Label.  Datagram networks may lose and reorder: in-flight sets, nondeterministic choice, Lose.

   Deviations (Dev): "KeyNoSender" = binding key without the sender, "ReplyToCurrent" = a reply goes to whoever sent
   last through the binding's key instead of the recorded sender (matters with KeyNoSender), "LabelRequested" =
   Shadowsocks/Trojan replies labelled with the requested target instead of the replying one, "SharedAssoc" = server
   associations keyed by target instead of session, "StaleTask" = the reply task of a dropped binding lives on and
   the binding's id is reused, "Twice" = the server forwards without consulting the packet window.               *)
EXTENDS Naturals, FiniteSets, Sequences, TLC

CONSTANTS Apps, Tgts, Family,   \* "ss" | "trojan" | "vmess"
          Cap, MaxSend, MaxReply, Dev

VARIABLES sent, atTgt, owner, replied, atApp, n,       \* UdpRelay
          bind,        \* key -> [bid, sender]
          lru,         \* sequence of keys, most recent last
          nextBid,
          tasks,       \* bids whose reply task is alive -> sender it remembers:  [bid -> app]
          upNet,       \* datagrams client -> server: [pid, bid]
          assoc,       \* server: bid (session / flow) -> src
          seen,        \* server: pids already forwarded (packet window, per association)
          downNet,     \* server -> client: [rid, bid, label]
          lastSender,  \* key -> app   (only read by deviation ReplyToCurrent)
          srcTgt       \* src -> the target its first datagram went to

absVars == <<sent, atTgt, owner, replied, atApp, n>>
desVars == <<bind, lru, nextBid, tasks, upNet, assoc, seen, downNet, lastSender, srcTgt>>
vars == <<absVars, desVars>>

UR == INSTANCE UdpRelay

NoKey == <<>>
AnyKey == "any"
Key(a, t) == IF "KeyNoSender" \in Dev THEN (IF Family = "vmess" THEN <<AnyKey, t>> ELSE <<AnyKey>>)
             ELSE IF Family = "vmess" THEN <<a, t>> ELSE <<a>>
AssocKey(bid, t) == IF "SharedAssoc" \in Dev THEN <<"tgt", t>> ELSE <<"bid", bid>>

Init ==
  /\ UR!Init
  /\ bind = <<>> /\ lru = <<>> /\ nextBid = 1 /\ tasks = <<>> /\ upNet = {} /\ assoc = <<>> /\ seen = {} /\ downNet = {}
  /\ lastSender = <<>> /\ srcTgt = <<>>

Ext(f, k, v) == [x \in DOMAIN f \cup {k} |-> IF x = k THEN v ELSE f[x]]
Without(f, k) == [x \in DOMAIN f \ {k} |-> f[x]]
Touch(s, k) == Append(SelectSeq(s, LAMBDA x : x # k), k)

\* local application a sends datagram pid to target t; the client loop looks the binding up / creates / evicts
ClientSend(a, t) ==
  /\ Cardinality(DOMAIN sent) < MaxSend
  /\ LET pid == Cardinality(DOMAIN sent) + 1
         k == Key(a, t)
     IN /\ UR!AppSend(a, t, pid, 1, TRUE)
        /\ lastSender' = Ext(lastSender, k, a)
        /\ IF k \in DOMAIN bind
             THEN /\ upNet' = upNet \cup {[pid |-> pid, bid |-> bind[k].bid]}
                  /\ lru' = Touch(lru, k)
                  /\ UNCHANGED <<bind, nextBid, tasks>>
             ELSE LET victim == IF Len(lru) >= Cap THEN lru[1] ELSE NoKey
                      bind1 == IF victim # NoKey THEN Without(bind, victim) ELSE bind
                      tasks1 == IF victim # NoKey /\ "StaleTask" \notin Dev THEN Without(tasks, bind[victim].bid) ELSE tasks
                      bid == IF "StaleTask" \in Dev /\ victim # NoKey THEN bind[victim].bid ELSE nextBid
                  IN /\ bind' = Ext(bind1, k, [bid |-> bid, sender |-> a])
                     /\ tasks' = IF bid \in DOMAIN tasks1 THEN tasks1 ELSE Ext(tasks1, bid, a)
                     /\ lru' = Append(IF victim # NoKey THEN Tail(lru) ELSE lru, k)
                     /\ nextBid' = nextBid + 1
                     /\ upNet' = upNet \cup {[pid |-> pid, bid |-> bid]}
  /\ UNCHANGED <<assoc, seen, downNet, srcTgt>>

\* the server receives a datagram of session / flow bid, finds or creates the association and forwards it
ServerForward(m) ==
  /\ m \in upNet
  /\ LET t == sent[m.pid].tgt
         ak == AssocKey(m.bid, t)
         src == IF ak \in DOMAIN assoc THEN assoc[ak] ELSE Cardinality(DOMAIN assoc) + 1
     IN /\ assoc' = Ext(assoc, ak, src)
        /\ srcTgt' = IF src \in DOMAIN srcTgt THEN srcTgt ELSE Ext(srcTgt, src, t)
        /\ IF m.pid \in seen /\ "Twice" \notin Dev
             THEN UNCHANGED absVars /\ UNCHANGED seen       \* refused by the packet window: dropped, nothing else changes
             ELSE \* what the server does is written down as it is; that it is a UdpRelay!ToTarget step is what RefinesAbs checks
                  /\ atTgt' = Ext(atTgt, m.pid, [tgt |-> t, src |-> src])
                  /\ owner' = Ext(owner, src, sent[m.pid].app)
                  /\ n' = n + 1
                  /\ UNCHANGED <<sent, replied, atApp>>
                  /\ seen' = seen \cup {m.pid}
  /\ upNet' \in {upNet, upNet \ {m}}            \* the network may deliver a datagram more than once: a copy may stay in flight
  /\ UNCHANGED <<bind, lru, nextBid, tasks, downNet, lastSender>>

Lose(m) == /\ m \in upNet /\ upNet' = upNet \ {m}
           /\ UNCHANGED <<absVars, bind, lru, nextBid, tasks, assoc, seen, downNet, lastSender, srcTgt>>

\* a target (for Shadowsocks / Trojan: any target, also one that was never addressed) answers to a source address
TgtReply(t, src) ==
  /\ Cardinality(DOMAIN replied) < MaxReply
  /\ src \in {assoc[k] : k \in DOMAIN assoc}
  /\ Family = "vmess" => (src \in DOMAIN srcTgt /\ srcTgt[src] = t)    \* VMess frames carry no address: only the addressed target
  /\ LET rid == Cardinality(DOMAIN replied) + 1 IN
     /\ UR!TgtReply(t, rid, src, 1, TRUE)
     /\ downNet' = downNet \cup {[rid |-> rid, src |-> src, from |-> t]}
  /\ UNCHANGED <<bind, lru, nextBid, tasks, upNet, assoc, seen, lastSender, srcTgt>>

\* the server reads the reply from the association's socket, labels it, sends it to the association's client address;
\* the binding's reply task (if still alive) hands it to the loop, which sends it to the sender the task remembers
ClientDeliver(d) ==
  /\ d \in downNet
  /\ downNet' = downNet \ {d}
  /\ LET aks == {k \in DOMAIN assoc : assoc[k] = d.src}
         ak == CHOOSE k \in aks : TRUE
     IN IF ak[1] # "bid" \/ ak[2] \notin DOMAIN tasks
          THEN UNCHANGED absVars                              \* nobody listens any more: dropped
          ELSE LET bid == ak[2]
                   keys == {k \in DOMAIN bind : bind[k].bid = bid}
                   reqT == IF keys # {} /\ Family = "vmess" THEN (CHOOSE k \in keys : TRUE)[2] ELSE d.from
                   label == IF Family = "vmess" THEN reqT
                            ELSE IF "LabelRequested" \in Dev /\ d.src \in DOMAIN srcTgt THEN srcTgt[d.src] ELSE d.from
                   to == IF "ReplyToCurrent" \in Dev /\ keys # {} THEN lastSender[CHOOSE k \in keys : TRUE] ELSE tasks[bid]
               IN /\ atApp' = Ext(atApp, d.rid, [app |-> to, label |-> label])
                  /\ n' = n + 1
                  /\ UNCHANGED <<sent, atTgt, owner, replied>>
  /\ UNCHANGED <<bind, lru, nextBid, tasks, upNet, assoc, seen, lastSender, srcTgt>>

LoseDown(d) == /\ d \in downNet /\ downNet' = downNet \ {d}
               /\ UNCHANGED <<absVars, bind, lru, nextBid, tasks, upNet, assoc, seen, lastSender, srcTgt>>

Next == \/ \E a \in Apps, t \in Tgts : ClientSend(a, t)
        \/ \E m \in upNet : ServerForward(m) \/ Lose(m)
        \/ \E t \in Tgts, s \in 1..(MaxSend + 1) : TgtReply(t, s)
        \/ \E d \in downNet : ClientDeliver(d) \/ LoseDown(d)

Spec == Init /\ [][Next]_vars

\* refinement: every step is a UdpRelay step or leaves UdpRelay's variables unchanged
AbsNext == \/ \E a \in Apps, t \in Tgts, p \in 1..MaxSend : UR!AppSend(a, t, p, 1, TRUE)
           \/ \E t \in Tgts, p \in 1..MaxSend, s \in 1..(MaxSend + 1) : UR!ToTarget(t, p, 1, TRUE, s)
           \/ \E t \in Tgts, r \in 1..MaxReply, s \in 1..(MaxSend + 1) : UR!TgtReply(t, r, s, 1, TRUE)
           \/ \E a \in Apps, t \in Tgts, r \in 1..MaxReply : UR!ToApp(a, t, r, 1, TRUE)
RefinesAbs == [][AbsNext]_absVars
=============================================================================
