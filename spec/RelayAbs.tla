------------------------------ MODULE RelayAbs ------------------------------
(* C01 / C15, abstract level: what ONE relayed TCP flow looks like from outside the two processes -
   at the local application's socket and at the target's listener.  Bytes are positions: a stream is
   the length it has reached, so "exactly once, in order, unmodified" is   got <= sent   plus the
   per-span content check the observer makes against the position-addressed reference data (`ok`).

   Environment actions (the script): Open, AppWrite, TgtWrite, AppClose(how), TgtClose(how), Fault.
   System actions (what the relay may do): Dial, DeliverUp, DeliverDown, AppEnd(how), TgtEnd(how).
   Bookkeeping of the observer: Synced(ok), Quiesce(waitedApp, waitedTgt).

   Every guard below is part of the property; a recorded execution that needs a step whose guard is
   false is not a behaviour of this specification (TraceRelay reports it).                          *)
EXTENDS Naturals, Sequences

VARIABLES
  phase,      \* "idle" | "open" | "refused"
  want,       \* listener the application asked for (0 = none); listeners are numbered by the harness
  reach,      \* "ok" | "refused" | "unresolvable" : can the requested address be dialled at all
  dials,      \* sequence of listeners at which a connection arrived for this flow
  sentUp, gotUp, sentDown, gotDown,
  appClosed, tgtClosed,     \* "no" | "fin" | "close" | "rst"
  cleanApp, cleanTgt,       \* the closing side closed in an orderly way with nothing unread (see Close)
  appSaw, tgtSaw,           \* "no" | "eof" | "rst"
  fault,                    \* a link / process fault was injected: completeness is no longer owed
  lapsed                    \* after one side had closed, the outer sides stayed silent for longer than the close grace

vars == <<phase, want, reach, dials, sentUp, gotUp, sentDown, gotDown, appClosed, tgtClosed, cleanApp, cleanTgt,
          appSaw, tgtSaw, fault, lapsed>>

Hows == {"fin", "close", "rst"}

Init ==
  /\ phase = "idle" /\ want = 0 /\ reach = "ok" /\ dials = <<>>
  /\ sentUp = 0 /\ gotUp = 0 /\ sentDown = 0 /\ gotDown = 0
  /\ appClosed = "no" /\ tgtClosed = "no" /\ cleanApp = FALSE /\ cleanTgt = FALSE
  /\ appSaw = "no" /\ tgtSaw = "no" /\ fault = FALSE /\ lapsed = FALSE

Dialed == dials # <<>>

-----------------------------------------------------------------------------
(* environment *)

Open(w, r) ==
  /\ phase = "idle" /\ phase' = "open" /\ want' = w /\ reach' = r
  /\ UNCHANGED <<dials, sentUp, gotUp, sentDown, gotDown, appClosed, tgtClosed, cleanApp, cleanTgt, appSaw, tgtSaw, fault, lapsed>>

Refused ==            \* the local handshake itself was refused: nothing may follow
  /\ phase = "idle" /\ phase' = "refused"
  /\ UNCHANGED <<want, reach, dials, sentUp, gotUp, sentDown, gotDown, appClosed, tgtClosed, cleanApp, cleanTgt, appSaw, tgtSaw, fault, lapsed>>

AppWrite(n) ==
  /\ phase = "open" /\ appClosed = "no"
  /\ sentUp' = sentUp + n
  /\ cleanTgt' = (cleanTgt /\ tgtClosed \notin {"close", "rst"})      \* as in TgtWrite
  /\ UNCHANGED <<phase, want, reach, dials, gotUp, sentDown, gotDown, appClosed, tgtClosed, cleanApp, appSaw, tgtSaw, fault, lapsed>>

TgtWrite(n) ==
  /\ Dialed /\ tgtClosed = "no"
  /\ sentDown' = sentDown + n
  \* a side that did close() (not a half-close) while the peer still sends is not an orderly closer any more:
  \* its kernel answers the late data with a reset
  /\ cleanApp' = (cleanApp /\ appClosed # "close")
  /\ UNCHANGED <<phase, want, reach, dials, sentUp, gotUp, gotDown, appClosed, tgtClosed, cleanTgt, appSaw, tgtSaw, fault, lapsed>>

(* An orderly close: a half-close, or a close() with everything the peer sent already read.  close() with
   unread input, and an abortive close, make the kernel send a reset; nothing is owed after those.     *)
AppClose(how) ==
  /\ phase = "open" /\ appClosed = "no" /\ how \in Hows
  /\ appClosed' = how
  /\ cleanApp' = (how = "fin" \/ (how = "close" /\ gotDown = sentDown))
  /\ UNCHANGED <<phase, want, reach, dials, sentUp, gotUp, sentDown, gotDown, tgtClosed, cleanTgt, appSaw, tgtSaw, fault, lapsed>>

(* `acked` (target side only): the observer knows that everything the target had written was acknowledged by the server's
   kernel when the target reset its connection (nothing left in its send queue).  What the relay has RECEIVED it delivers:
   a server turns a reset from its target into an orderly end of that direction, so after such a reset the application is
   owed the complete answer just as after a close.  (A reset by the application is different: the client's pumps end with
   an error and the flow is dropped at once - nothing is owed.)  Without that knowledge a reset owes nothing.          *)
TgtCloseA(how, acked) ==
  /\ Dialed /\ tgtClosed = "no" /\ how \in Hows
  /\ tgtClosed' = how
  /\ cleanTgt' = (how = "fin" \/ (how = "close" /\ gotUp = sentUp) \/ (how = "rst" /\ acked /\ gotUp = sentUp))
  /\ UNCHANGED <<phase, want, reach, dials, sentUp, gotUp, sentDown, gotDown, appClosed, cleanApp, appSaw, tgtSaw, fault, lapsed>>
TgtClose(how) == TgtCloseA(how, FALSE)

Fault ==
  /\ phase = "open" /\ ~fault
  /\ fault' = TRUE
  /\ UNCHANGED <<phase, want, reach, dials, sentUp, gotUp, sentDown, gotDown, appClosed, tgtClosed, cleanApp, cleanTgt, appSaw, tgtSaw, lapsed>>

-----------------------------------------------------------------------------
(* system *)

\* DialedExactly: the server dials the requested address, once, and only an address that can be dialled
Dial(l) ==
  /\ phase = "open" /\ dials = <<>> /\ l = want /\ reach = "ok"
  /\ dials' = <<l>>
  /\ UNCHANGED <<phase, want, reach, sentUp, gotUp, sentDown, gotDown, appClosed, tgtClosed, cleanApp, cleanTgt, appSaw, tgtSaw, fault, lapsed>>

\* PrefixUp: what the target reads is the next n bytes of what the application wrote
DeliverUp(n, ok) ==
  /\ Dialed /\ ok /\ n > 0 /\ gotUp + n <= sentUp /\ tgtSaw = "no"
  /\ gotUp' = gotUp + n
  /\ UNCHANGED <<phase, want, reach, dials, sentUp, sentDown, gotDown, appClosed, tgtClosed, cleanApp, cleanTgt, appSaw, tgtSaw, fault, lapsed>>

DeliverDown(n, ok) ==
  /\ phase = "open" /\ ok /\ n > 0 /\ gotDown + n <= sentDown /\ appSaw = "no"
  /\ gotDown' = gotDown + n
  /\ UNCHANGED <<phase, want, reach, dials, sentUp, gotUp, sentDown, appClosed, tgtClosed, cleanApp, cleanTgt, appSaw, tgtSaw, fault, lapsed>>

(* The application observes the end of the stream.
   - something must have ended the flow: the target closed, the application closed, the address cannot be
     dialled, or a fault was injected (NoSpuriousEnd);
   - after an orderly close of the target, with the application still open, the application has the COMPLETE
     answer before the end (CompleteDown) and the end is an end-of-stream unless the application itself still
     had bytes under way to the now closed target (those are answered by a reset).                      *)
\* StillReads: which closes of a side leave it able to receive.  A half-close ("fin") does: the side has only
\* finished SENDING, the answer to what it sent is still owed to it in full (HalfCloseComplete) - unless the outer
\* sides then stayed silent for longer than the close grace (lapsed), after which the relay may give the flow up.
AppEndOK(how, stillReads) ==
  /\ phase = "open" /\ appSaw = "no" /\ how \in {"eof", "rst"}
  \* NoSpuriousEnd: something ended the flow.  The application's own half-close does not end the direction towards it.
  /\ \/ tgtClosed # "no" \/ reach # "ok" \/ fault
     \/ appClosed \in ({"fin", "close", "rst"} \ stillReads)
     \/ (appClosed = "fin" /\ (lapsed \/ ~Dialed))
  /\ (cleanTgt /\ appClosed \in stillReads /\ ~fault /\ ~(lapsed /\ appClosed # "no"))
         => /\ gotDown = sentDown
            /\ (how = "eof" \/ sentUp > gotUp)
  /\ appSaw' = how

AppEnd(how) ==
  /\ AppEndOK(how, {"no", "fin"})
  /\ UNCHANGED <<phase, want, reach, dials, sentUp, gotUp, sentDown, gotDown, appClosed, tgtClosed, cleanApp, cleanTgt, tgtSaw, fault, lapsed>>

TgtEndOK(how, stillReads) ==
  /\ Dialed /\ tgtSaw = "no" /\ how \in {"eof", "rst"}
  /\ \/ appClosed # "no" \/ fault
     \/ tgtClosed \in ({"fin", "close", "rst"} \ stillReads)
     \/ (tgtClosed = "fin" /\ lapsed)
  /\ (cleanApp /\ tgtClosed \in stillReads /\ ~fault /\ ~(lapsed /\ tgtClosed # "no"))
         => /\ gotUp = sentUp
            /\ (how = "eof" \/ sentDown > gotDown)
  /\ tgtSaw' = how

TgtEnd(how) ==
  /\ TgtEndOK(how, {"no", "fin"})
  /\ UNCHANGED <<phase, want, reach, dials, sentUp, gotUp, sentDown, gotDown, appClosed, tgtClosed, cleanApp, cleanTgt, appSaw, fault, lapsed>>

(* Named deviation "NoHalfClose" (a link that cannot carry a half-close, see TcpRelay Link = "ws"): completeness is
   honoured only towards a side that has not closed at all.  Not part of Next of the ideal specification; TraceRelay
   offers these two steps only for deviations listed as open findings and reports their use.                     *)
AppEndNoHalf(how) ==
  /\ appClosed = "fin" /\ ~ENABLED AppEnd(how)
  /\ AppEndOK(how, {"no"})
  /\ UNCHANGED <<phase, want, reach, dials, sentUp, gotUp, sentDown, gotDown, appClosed, tgtClosed, cleanApp, cleanTgt, tgtSaw, fault, lapsed>>
TgtEndNoHalf(how) ==
  /\ tgtClosed = "fin" /\ ~ENABLED TgtEnd(how)
  /\ TgtEndOK(how, {"no"})
  /\ UNCHANGED <<phase, want, reach, dials, sentUp, gotUp, sentDown, gotDown, appClosed, tgtClosed, cleanApp, cleanTgt, appSaw, fault, lapsed>>

\* environment / time: one side has closed and the outer sides then stayed silent for longer than the close grace.
\* (The observer claims a lapse only for silence that is the outer parties' own: the side opposite to the closer had
\* already observed that end when the silent period began.  Silence while the end has not been passed on yet is the
\* relay's doing and excuses nothing.)
Lapse ==
  /\ phase = "open" /\ (appClosed # "no" \/ tgtClosed # "no")
  /\ lapsed' = TRUE
  /\ UNCHANGED <<phase, want, reach, dials, sentUp, gotUp, sentDown, gotDown, appClosed, tgtClosed, cleanApp, cleanTgt, appSaw, tgtSaw, fault>>

-----------------------------------------------------------------------------
(* observer *)

\* The observer waited (bounded, generously) until everything written had arrived.  While both sides are open
\* and no fault was injected, it must have (NoStall).
Synced(ok) ==
  /\ phase = "open"
  /\ (appClosed = "no" /\ tgtClosed = "no" /\ ~fault /\ Dialed) => ok
  /\ UNCHANGED vars

\* The observer waited for a dial after the application had written; without one the flow is refused service.
NoDial ==
  /\ phase = "open" /\ ~Dialed
  /\ reach # "ok" \/ fault \/ sentUp = 0 \/ appClosed # "no"
  /\ UNCHANGED vars

(* End of the script; waitedApp / waitedTgt say whether the observer waited (bounded) for that side's end.
   PromptEnd: once one side has closed, the other side observes an end.                              *)
Quiesce(waitedApp, waitedTgt) ==
  /\ phase \in {"open", "refused"}
  /\ (waitedApp /\ tgtClosed # "no") => appSaw # "no"
  /\ (waitedApp /\ reach # "ok" /\ sentUp > 0) => appSaw # "no"
  /\ (waitedTgt /\ Dialed /\ appClosed # "no") => tgtSaw # "no"
  \* C15: the link between client and server closed or failed - both outer sides observe an end
  /\ (waitedApp /\ fault) => appSaw # "no"
  /\ (waitedTgt /\ Dialed /\ fault) => tgtSaw # "no"
  /\ UNCHANGED vars

=============================================================================
