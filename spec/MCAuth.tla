------------------------------- MODULE MCAuth -------------------------------
EXTENDS Auth, Json, Sequences
Export == emitted # "pending" =>
  PrintT("REPLAY " \o ToJson([cfg |-> msg.cfg, sk |-> msg.sk, uk |-> msg.uk, form |-> msg.form, claim |-> msg.claim, prior |-> msg.prior, at |-> msg.at,
                              expect |-> [emit |-> emitted = "yes", user |-> authUser, reply |-> replyKey]]))
=============================================================================
