---------------------------- MODULE HandshakeMsg ----------------------------
(* C10 — the remaining acceptance rules, each a decision on one received message:
     "ss-resp"     client, Shadowsocks-2022 TCP response: type = 1, fresh, echoes the client's own request salt
     "ss-udp-c2s"  server, Shadowsocks-2022 datagram: type = 0, fresh
     "ss-udp-s2c"  client, Shadowsocks-2022 datagram: type = 1, fresh
     "vmess-auth"  server, VMess auth-id: known user, checksum intact, |t - now| <= 120
     "vmess-resp"  client, VMess response header: opens under the request-derived keys and carries
                   the response authentication byte chosen by the client
   A receiver handles messages one at a time; `delivered` counts what reached the application.
   `ext` names a timestamp at an extreme of what the field can carry instead of `now + dts`:
     "lo"   the lowest value the field can hold,   "hi"  the highest,
     "wrap" the value whose difference with the receiver's clock is the lowest number a signed 64-bit
            subtraction can produce (its absolute value does not exist in that arithmetic).
   None of them is within any window.
   Deviations (anti-vacuity): "NoEcho" "NoRespType" "NoRespFresh" "NoUdpType" "NoUdpFresh"
   "WideVMess" "NoRespByte" "WrapAbs" (the absolute difference is taken in wrapping arithmetic: the
   "wrap" timestamp comes out as a negative 'distance' and passes the window test).            *)
EXTENDS Integers, FiniteSets, Sequences, TLC

CONSTANTS Win, VWin, Kinds, DT, VDT, Dev

Abs(x) == IF x < 0 THEN -x ELSE x

Exts == {"no", "lo", "hi", "wrap"}
\* an extreme timestamp replaces now + dts: only dts = 0 is paired with it
ExtOK(m) == m.ext = "no" \/ m.dts = 0
Messages ==
  {m \in
    [kind : {"ss-resp"} \cap Kinds, dts : DT, ext : Exts, typ : {0, 1, 2}, echo : {"own", "other"}, auth : {"ok"}]
    \cup [kind : {"ss-udp-c2s", "ss-udp-s2c"} \cap Kinds, dts : DT, ext : Exts, typ : {0, 1, 2}, echo : {"own"}, auth : {"ok"}]
    \cup [kind : {"vmess-auth"} \cap Kinds, dts : VDT, ext : Exts, typ : {0}, echo : {"own"}, auth : {"ok", "badcrc", "unknownuser"}]
    \cup [kind : {"vmess-resp"} \cap Kinds, dts : {0}, ext : {"no"}, typ : {0}, echo : {"own", "other"}, auth : {"ok", "otherkeys"}]
   : ExtOK(m)}

\* what the receiver's window test answers
Within(m, w) == \/ m.ext = "no" /\ Abs(m.dts) <= w
                \/ m.ext = "wrap" /\ "WrapAbs" \in Dev
\* what is true
Fresh(m, w) == m.ext = "no" /\ Abs(m.dts) <= w

Accepts(m) ==
  CASE m.kind = "ss-resp" ->
         /\ (m.typ = 1 \/ "NoRespType" \in Dev)
         /\ (Within(m, Win) \/ "NoRespFresh" \in Dev)
         /\ (m.echo = "own" \/ "NoEcho" \in Dev)
    [] m.kind = "ss-udp-c2s" ->
         /\ (m.typ = 0 \/ "NoUdpType" \in Dev)
         /\ (Within(m, Win) \/ "NoUdpFresh" \in Dev)
    [] m.kind = "ss-udp-s2c" ->
         /\ (m.typ = 1 \/ "NoUdpType" \in Dev)
         /\ (Within(m, Win) \/ "NoUdpFresh" \in Dev)
    [] m.kind = "vmess-auth" ->
         /\ m.auth = "ok"
         /\ (Within(m, VWin) \/ ("WideVMess" \in Dev /\ Within(m, VWin + 1)))
    [] m.kind = "vmess-resp" ->
         /\ m.auth = "ok"
         /\ (m.echo = "own" \/ "NoRespByte" \in Dev)

VARIABLES msg, state     \* state: "waiting" | "delivered" | "refused"

mvars == <<msg, state>>
MInit == msg \in Messages /\ state = "waiting"
Receive == /\ state = "waiting"
           /\ state' = IF Accepts(msg) THEN "delivered" ELSE "refused"
           /\ UNCHANGED msg
MSpec == MInit /\ [][Receive]_mvars

\* ---- the property ----
Legit(m) ==
  CASE m.kind = "ss-resp"    -> m.typ = 1 /\ Fresh(m, Win) /\ m.echo = "own"
    [] m.kind = "ss-udp-c2s" -> m.typ = 0 /\ Fresh(m, Win)
    [] m.kind = "ss-udp-s2c" -> m.typ = 1 /\ Fresh(m, Win)
    [] m.kind = "vmess-auth" -> m.auth = "ok" /\ Fresh(m, VWin)
    [] m.kind = "vmess-resp" -> m.auth = "ok" /\ m.echo = "own"
OnlyLegitDelivered == state = "delivered" => Legit(msg)
LegitNotRefused    == state = "refused" => ~Legit(msg)
=============================================================================
