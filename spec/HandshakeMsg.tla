---------------------------- MODULE HandshakeMsg ----------------------------
(* C10 — the remaining acceptance rules, each a decision on one received message:
     "ss-resp"     client, Shadowsocks-2022 TCP response: type = 1, fresh, echoes the client's own request salt
     "ss-udp-c2s"  server, Shadowsocks-2022 datagram: type = 0, fresh
     "ss-udp-s2c"  client, Shadowsocks-2022 datagram: type = 1, fresh
     "vmess-auth"  server, VMess auth-id: known user, checksum intact, |t - now| <= 120
     "vmess-resp"  client, VMess response header: opens under the request-derived keys and carries
                   the response authentication byte chosen by the client
   A receiver handles messages one at a time; `delivered` counts what reached the application.
   Deviations (anti-vacuity): "NoEcho" "NoRespType" "NoRespFresh" "NoUdpType" "NoUdpFresh"
   "WideVMess" "NoRespByte".                                                                    *)
EXTENDS Integers, FiniteSets, Sequences, TLC

CONSTANTS Win, VWin, Kinds, DT, VDT, Dev

Abs(x) == IF x < 0 THEN -x ELSE x

Messages ==
  [kind : {"ss-resp"} \cap Kinds, dts : DT, typ : {0, 1, 2}, echo : {"own", "other"}, auth : {"ok"}]
  \cup [kind : {"ss-udp-c2s", "ss-udp-s2c"} \cap Kinds, dts : DT, typ : {0, 1, 2}, echo : {"own"}, auth : {"ok"}]
  \cup [kind : {"vmess-auth"} \cap Kinds, dts : VDT, typ : {0}, echo : {"own"}, auth : {"ok", "badcrc", "unknownuser"}]
  \cup [kind : {"vmess-resp"} \cap Kinds, dts : {0}, typ : {0}, echo : {"own", "other"}, auth : {"ok", "otherkeys"}]

Accepts(m) ==
  CASE m.kind = "ss-resp" ->
         /\ (m.typ = 1 \/ "NoRespType" \in Dev)
         /\ (Abs(m.dts) <= Win \/ "NoRespFresh" \in Dev)
         /\ (m.echo = "own" \/ "NoEcho" \in Dev)
    [] m.kind = "ss-udp-c2s" ->
         /\ (m.typ = 0 \/ "NoUdpType" \in Dev)
         /\ (Abs(m.dts) <= Win \/ "NoUdpFresh" \in Dev)
    [] m.kind = "ss-udp-s2c" ->
         /\ (m.typ = 1 \/ "NoUdpType" \in Dev)
         /\ (Abs(m.dts) <= Win \/ "NoUdpFresh" \in Dev)
    [] m.kind = "vmess-auth" ->
         /\ m.auth = "ok"
         /\ (Abs(m.dts) <= VWin \/ ("WideVMess" \in Dev /\ Abs(m.dts) <= VWin + 1))
    [] m.kind = "vmess-resp" ->
         /\ m.auth = "ok"
         /\ (m.echo = "own" \/ "NoRespByte" \in Dev)

VARIABLES msg, state     \* state: "waiting" | "delivered" | "refused"

mvars == <<msg, state>>
MInit == msg \in Messages /\ state = "waiting"
Receive == /\ state = "waiting"
           /\ state' = IF Accepts(msg) THEN "delivered" ELSE "refused"
           /\ UNCHANGED msg
MSpec == MInit /\ [][Receive]_mvars

\* ---- the property ----
Legit(m) ==
  CASE m.kind = "ss-resp"    -> m.typ = 1 /\ Abs(m.dts) <= Win /\ m.echo = "own"
    [] m.kind = "ss-udp-c2s" -> m.typ = 0 /\ Abs(m.dts) <= Win
    [] m.kind = "ss-udp-s2c" -> m.typ = 1 /\ Abs(m.dts) <= Win
    [] m.kind = "vmess-auth" -> m.auth = "ok" /\ Abs(m.dts) <= VWin
    [] m.kind = "vmess-resp" -> m.auth = "ok" /\ m.echo = "own"
OnlyLegitDelivered == state = "delivered" => Legit(msg)
LegitNotRefused    == state = "refused" => ~Legit(msg)
=============================================================================
