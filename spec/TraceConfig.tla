---------------------------- MODULE TraceConfig ----------------------------
(* impl -> spec for C16: one record per configuration on which Engine B started a REAL binary:
     Obs(cfg, obs)   cfg = the tuple of names the configuration file was written from,
                     obs = what was seen: is the process alive after start-up, is a TCP listener / a UDP socket bound on
                     the configured port (/proc/net), did it panic, which probes were run and which succeeded.
   A record is accepted iff the tuple is one the specification knows and obs is what Documented(cfg) promises
   (Conforms).  The first record that is not stops the validation; the driver reports it.                          *)
EXTENDS Config, IOUtils, SequencesExt

Rec == ndJsonDeserialize(IOEnv.TRACE)

VARIABLE l
tvars == <<vars, l>>

TraceInit == l = 1 /\ phase = "trace" /\ cfg = [side |-> "none"]

ObsOf(r) == [alive |-> r.alive, tcp |-> r.tcp, udp |-> r.udp, panic |-> r.panic, ok |-> ToSet(r.ok), ran |-> ToSet(r.ran)]

TObs == /\ l <= Len(Rec) /\ Rec[l].ev = "Obs"
        /\ Rec[l].cfg \in Tuples /\ Relevant(Rec[l].cfg)
        /\ Conforms(Rec[l].cfg, ObsOf(Rec[l].obs))
        /\ cfg' = Rec[l].cfg /\ l' = l + 1 /\ UNCHANGED phase
TNote == l <= Len(Rec) /\ Rec[l].ev = "Note" /\ l' = l + 1 /\ UNCHANGED vars

TraceNext == TObs \/ TNote
TraceSpec == TraceInit /\ [][TraceNext]_tvars

TraceAccepted ==
  LET d == TLCGet("stats").diameter IN
  IF d - 1 = Len(Rec) THEN PrintT(<<"TRACE-ACCEPTED", d - 1>>)
  ELSE PrintT(<<"TRACE-REJECTED", d - 1, "next unmatched event", Rec[d]>>)
=============================================================================
