----------------------------- MODULE Handshake -----------------------------
(* C10 — acceptance of Shadowsocks-2022 requests at the server, in the shape of the code
   (codec/shadowsocks/tcp.rs init_aead_2022_payload_decoder + Context::check_nonce/set_nonce):

     check_nonce(salt)  ->  open fixed header  ->  type byte  ->  timestamp  ->  set_nonce(salt)

   One request (salt, timestamp ts, type typ) is presented on several connections `Conns`
   (copies: replays, sequential or concurrent) while the clock advances.

   The salt cache is lru_time_cache: an entry lives while  now - lastTouch <= Ttl  and a lookup
   *touches* it.  The protecting mutex is modelled explicitly because the code used try_lock.

   Named deviations (CONSTANT Dev); with Dev = {} this is the design the property demands:
     "ShortTtl"     cache TTL = Win instead of 2*Win            (D20: acceptance span is 2*Win)
     "NonAtomicSet" set_nonce inserts without re-checking       (D19: check and set not atomic)
     "TryLock"      a busy lock means "not found" / "skip insert" (D19)
     "NoType" "NoFresh"  the type / timestamp checks are missing (anti-vacuity only)            *)
EXTENDS Integers, FiniteSets, Sequences, TLC

CONSTANTS Win,      \* freshness window (30 s), scaled
          Conns,    \* connections carrying a copy of the request
          MaxNow,   \* the clock runs 0..MaxNow
          DTS,      \* possible values of ts - now at time 0
          Types,    \* type bytes the request may carry (0 = client request)
          Dev,
          Sequential \* TRUE: a connection starts only after the previous ones finished

VARIABLES now,      \* server clock
          ts, typ,  \* the request
          cache,    \* last-touch time of the salt's cache entry, -1 = absent
          lock,     \* 0 = free, else the connection holding the cache mutex
          pc,       \* per connection: "idle" "checkLocked" "checked" "opened" "setLocked" "accepted" "rejected"
          found,    \* per connection: result of its check_nonce
          accAt,    \* per connection: time of acceptance (-1 = not accepted)
          chkAt,    \* per connection: server time at which its timestamp was validated (-1 = not yet)
          sched     \* history: sequence of <<conn, action, now>> (scenario export)

vars == <<now, ts, typ, cache, lock, pc, found, accAt, chkAt, sched>>

Ttl == IF "ShortTtl" \in Dev THEN Win ELSE 2 * Win

Abs(x) == IF x < 0 THEN -x ELSE x
Fresh == Abs(ts - now) <= Win
Live  == cache >= 0 /\ now - cache <= Ttl

Done(c) == pc[c] \in {"accepted", "rejected"}
MayStart(c) == ~Sequential \/ \A d \in Conns : (d < c => Done(d)) /\ (d > c => pc[d] = "idle")
Note(c, a) == sched' = Append(sched, <<c, a, now>>)

Init ==
  /\ now = 0 /\ cache = -1 /\ lock = 0
  /\ ts \in DTS /\ typ \in Types
  /\ pc = [c \in Conns |-> "idle"]
  /\ found = [c \in Conns |-> FALSE]
  /\ accAt = [c \in Conns |-> -1]
  /\ chkAt = [c \in Conns |-> -1]
  /\ sched = <<>>

\* Assumption (stated in DESIGN 5.10): a connection's handshake processing (microseconds) is
\* instantaneous relative to the clock (seconds), so time advances only between processing steps
\* of different connections' handshakes, never in the middle of one.
InFlight(c) == pc[c] \in {"checkLocked", "checked", "opened", "setLocked"}
Tick == /\ now < MaxNow /\ now' = now + 1
        /\ \A c \in Conns : ~InFlight(c)
        /\ sched' = Append(sched, <<0, "Tick", now>>)
        /\ UNCHANGED <<ts, typ, cache, lock, pc, found, accAt, chkAt>>

(* check_nonce: try_lock *)
CheckAcquire(c) ==
  /\ pc[c] = "idle" /\ MayStart(c)
  /\ IF lock = 0
       THEN /\ lock' = c /\ pc' = [pc EXCEPT ![c] = "checkLocked"] /\ UNCHANGED found /\ Note(c, "CheckAcquire")
       ELSE /\ "TryLock" \in Dev          \* a blocking lock would simply wait (action disabled)
            /\ found' = [found EXCEPT ![c] = FALSE]
            /\ pc' = [pc EXCEPT ![c] = "checked"] /\ UNCHANGED lock /\ Note(c, "CheckBusy")
  /\ UNCHANGED <<now, ts, typ, cache, accAt, chkAt>>

(* ... set.get(salt): reads and touches; unlock *)
CheckBody(c) ==
  /\ pc[c] = "checkLocked"
  /\ found' = [found EXCEPT ![c] = Live]
  /\ cache' = IF Live THEN now ELSE cache
  /\ lock' = 0
  /\ pc' = [pc EXCEPT ![c] = "checked"]
  /\ Note(c, "CheckBody")
  /\ UNCHANGED <<now, ts, typ, accAt, chkAt>>

(* AEAD-open the fixed header, compare the type byte, validate the timestamp *)
Open(c) ==
  /\ pc[c] = "checked"
  /\ LET bad == \/ found[c]
                \/ (typ # 0 /\ "NoType" \notin Dev)
                \/ (~Fresh /\ "NoFresh" \notin Dev)
     IN pc' = [pc EXCEPT ![c] = IF bad THEN "rejected" ELSE "opened"]
  /\ chkAt' = [chkAt EXCEPT ![c] = now]
  /\ Note(c, "Open")
  /\ UNCHANGED <<now, ts, typ, cache, lock, found, accAt>>

(* set_nonce: lock *)
SetAcquire(c) ==
  /\ pc[c] = "opened"
  /\ IF lock = 0
       THEN /\ lock' = c /\ pc' = [pc EXCEPT ![c] = "setLocked"] /\ UNCHANGED accAt /\ Note(c, "SetAcquire")
       ELSE /\ "TryLock" \in Dev          \* insert silently skipped, request accepted anyway
            /\ pc' = [pc EXCEPT ![c] = "accepted"] /\ accAt' = [accAt EXCEPT ![c] = now]
            /\ UNCHANGED lock /\ Note(c, "SetBusy")
  /\ UNCHANGED <<now, ts, typ, cache, found, chkAt>>

(* ... insert; in the demanded design this is insert-if-absent, otherwise the request is refused *)
SetBody(c) ==
  /\ pc[c] = "setLocked"
  /\ IF Live /\ "NonAtomicSet" \notin Dev
       THEN /\ pc' = [pc EXCEPT ![c] = "rejected"] /\ cache' = now /\ UNCHANGED accAt
       ELSE /\ pc' = [pc EXCEPT ![c] = "accepted"] /\ cache' = now /\ accAt' = [accAt EXCEPT ![c] = now]
  /\ lock' = 0
  /\ Note(c, "SetBody")
  /\ UNCHANGED <<now, ts, typ, found, chkAt>>

Step(c) == CheckAcquire(c) \/ CheckBody(c) \/ Open(c) \/ SetAcquire(c) \/ SetBody(c)
Next == Tick \/ \E c \in Conns : Step(c)

Spec == Init /\ [][Next]_vars

\* ---------------------------------------------------------------------------------------------
Accepted == {c \in Conns : pc[c] = "accepted"}

\* the timestamp was within the window when the server validated it (time may pass afterwards,
\* between validation and the cache insert; that gap is the server's own processing time)
OnlyFresh  == \A c \in Accepted : Abs(ts - chkAt[c]) <= Win
TypeOk     == Accepted # {} => typ = 0
\* a salt is never accepted twice (every acceptance happens at a moment its timestamp is fresh,
\* by OnlyFresh, so "twice while fresh" is just "twice")
AtMostOnce == Cardinality(Accepted) <= 1
LockSane == lock \in Conns \cup {0}
=============================================================================
