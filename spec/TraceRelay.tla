----------------------------- MODULE TraceRelay -----------------------------
(* impl -> spec for C01 / C15 (and the per-flow independence part of C09): the events Engine B observed at
   the application's socket and the target's listener of REAL client and server processes, one flow after
   the other (Reset starts the next flow), must be a behaviour of RelayAbs.  Every event carries its
   arguments, so validation is linear; a line whose RelayAbs guard is false stops the match and is printed.

   Process level events in the same file: Idle(c, s) = socket counts of client and server before a batch,
   Settled(c, s) = after every flow of the batch has ended and the harness closed its own sockets
   (poll-until-stable).  Released (C15): Settled = Idle.  Panic(n): lines with 'panicked at' in the logs. *)
EXTENDS RelayAbs, Integers, TLC, Json, IOUtils

Rec == ndJsonDeserialize(IOEnv.TRACE)

\* open findings this run may tolerate (from known_findings.json, never from the trace): the driver sets the environment
\* variable DEV_<name> for each; every use of a deviation step is printed as DEV-USED so that the driver reports it
Allowed(d) == ("DEV_" \o d) \in DOMAIN IOEnv

VARIABLES l, idle,
          wslink     \* the flow runs over a WebSocket link (ws / wss): from the Reset line, i.e. from the configuration
tvars == <<vars, l, idle, wslink>>

Ev(name) == l <= Len(Rec) /\ Rec[l].ev = name /\ l' = l + 1

TraceInit == Init /\ l = 1 /\ idle = <<0, 0>> /\ wslink = FALSE

TReset == /\ Ev("Reset") /\ UNCHANGED idle
          /\ wslink' = ("ws" \in DOMAIN Rec[l] /\ Rec[l].ws)
          /\ lapsed' = FALSE
          /\ phase' = "idle" /\ want' = 0 /\ reach' = "ok" /\ dials' = <<>>
          /\ sentUp' = 0 /\ gotUp' = 0 /\ sentDown' = 0 /\ gotDown' = 0
          /\ appClosed' = "no" /\ tgtClosed' = "no" /\ cleanApp' = FALSE /\ cleanTgt' = FALSE
          /\ appSaw' = "no" /\ tgtSaw' = "no" /\ fault' = FALSE

TOpen      == Ev("Open")     /\ Open(Rec[l].want, Rec[l].reach) /\ UNCHANGED <<idle, wslink>>
TRefused   == Ev("Refused")  /\ Refused /\ UNCHANGED <<idle, wslink>>
TAppWrote  == Ev("AppWrote") /\ AppWrite(Rec[l].n) /\ UNCHANGED <<idle, wslink>>
TTgtWrote  == Ev("TgtWrote") /\ TgtWrite(Rec[l].n) /\ UNCHANGED <<idle, wslink>>
TAppClose  == Ev("AppClose") /\ AppClose(Rec[l].how) /\ UNCHANGED <<idle, wslink>>
TTgtClose  == Ev("TgtClose") /\ TgtCloseA(Rec[l].how, "acked" \in DOMAIN Rec[l] /\ Rec[l].acked) /\ UNCHANGED <<idle, wslink>>
TFault     == Ev("Fault")    /\ Fault /\ UNCHANGED <<idle, wslink>>
TDial      == Ev("Dial")     /\ Dial(Rec[l].lis) /\ UNCHANGED <<idle, wslink>>
TTgtGot    == Ev("TgtGot")   /\ DeliverUp(Rec[l].n, Rec[l].ok) /\ UNCHANGED <<idle, wslink>>
TAppGot    == Ev("AppGot")   /\ DeliverDown(Rec[l].n, Rec[l].ok) /\ UNCHANGED <<idle, wslink>>
TAppEnd    == Ev("AppEnd")   /\ AppEnd(Rec[l].how) /\ UNCHANGED <<idle, wslink>>
TTgtEnd    == Ev("TgtEnd")   /\ TgtEnd(Rec[l].how) /\ UNCHANGED <<idle, wslink>>
TSynced    == Ev("Synced")   /\ Synced(Rec[l].ok) /\ UNCHANGED <<idle, wslink>>
TNoDial    == Ev("NoDial")   /\ NoDial /\ UNCHANGED <<idle, wslink>>
TQuiesce   == Ev("Quiesce")  /\ Quiesce(Rec[l].wa, Rec[l].wt) /\ UNCHANGED <<idle, wslink>>

\* a write that failed or stalled: legitimate only once the flow is being torn down (some side closed / fault)
TWriteFailed == /\ l <= Len(Rec) /\ Rec[l].ev \in {"AppWriteFailed", "TgtWriteFailed", "AppWriteStalled", "TgtWriteStalled"}
                /\ l' = l + 1
                /\ appClosed # "no" \/ tgtClosed # "no" \/ fault \/ reach # "ok"
                /\ UNCHANGED <<vars, idle, wslink>>

TIdle    == Ev("Idle") /\ idle' = <<Rec[l].c, Rec[l].s>> /\ UNCHANGED <<vars, wslink>>
\* Released does not wait for the surviving outer side: every flow of the batch had one outer side closed for good while
\* the other one kept its connection open and silent; after the close grace (and a margin) both processes are back at
\* the idle baseline although the harness still holds those connections
THeld    == Ev("Held") /\ <<Rec[l].c, Rec[l].s>> = idle /\ UNCHANGED <<vars, idle, wslink>>
TLapse   == Ev("Lapse") /\ Lapse /\ UNCHANGED <<idle, wslink>>
\* deviation steps, offered only for open findings
TAppEndNoHalf == /\ Ev("AppEnd") /\ wslink /\ Allowed("WsCloseEndsBoth") /\ AppEndNoHalf(Rec[l].how)
                 /\ PrintT(<<"DEV-USED", "WsCloseEndsBoth", l>>) /\ UNCHANGED <<idle, wslink>>
TTgtEndNoHalf == /\ Ev("TgtEnd") /\ wslink /\ Allowed("WsCloseEndsBoth") /\ TgtEndNoHalf(Rec[l].how)
                 /\ PrintT(<<"DEV-USED", "WsCloseEndsBoth", l>>) /\ UNCHANGED <<idle, wslink>>
\* Released: after any history of flows the descriptors are back at the idle baseline
TSettled == Ev("Settled") /\ <<Rec[l].c, Rec[l].s>> = idle /\ UNCHANGED <<vars, idle, wslink>>
\* NoPanic: the logs of both processes contain no panic
TPanic   == Ev("Panic") /\ Rec[l].n = 0 /\ UNCHANGED <<vars, idle, wslink>>

TraceNext == \/ TReset \/ TOpen \/ TRefused \/ TAppWrote \/ TTgtWrote \/ TAppClose \/ TTgtClose \/ TFault \/ TDial
             \/ TTgtGot \/ TAppGot \/ TAppEnd \/ TTgtEnd \/ TSynced \/ TNoDial \/ TQuiesce \/ TWriteFailed
             \/ TIdle \/ TSettled \/ TPanic \/ THeld \/ TLapse \/ TAppEndNoHalf \/ TTgtEndNoHalf
TraceSpec == TraceInit /\ [][TraceNext]_tvars

\* state invariants, evaluated in every state of the recorded execution
PrefixUp    == gotUp <= sentUp
PrefixDown  == gotDown <= sentDown
DialedExactly == dials = <<>> \/ dials = <<want>>

TraceAccepted ==
  LET d == TLCGet("stats").diameter IN
  IF d - 1 = Len(Rec) THEN PrintT(<<"TRACE-ACCEPTED", d - 1>>)
  ELSE PrintT(<<"TRACE-REJECTED", d - 1, "next unmatched event", Rec[d]>>)
=============================================================================
