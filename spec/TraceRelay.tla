----------------------------- MODULE TraceRelay -----------------------------
(* impl -> spec for C01 / C15 (and the per-flow independence part of C09): the events Engine B observed at
   the application's socket and the target's listener of REAL client and server processes, one flow after
   the other (Reset starts the next flow), must be a behaviour of RelayAbs.  Every event carries its
   arguments, so validation is linear; a line whose RelayAbs guard is false stops the match and is printed.

   Process level events in the same file: Idle(c, s) = socket counts of client and server before a batch,
   Settled(c, s) = after every flow of the batch has ended and the harness closed its own sockets
   (poll-until-stable).  Released (C15): Settled = Idle.  Panic(n): lines with 'panicked at' in the logs. *)
EXTENDS RelayAbs, Integers, TLC, Json, IOUtils

Rec == ndJsonDeserialize(IOEnv.TRACE)

VARIABLES l, idle
tvars == <<vars, l, idle>>

Ev(name) == l <= Len(Rec) /\ Rec[l].ev = name /\ l' = l + 1

TraceInit == Init /\ l = 1 /\ idle = <<0, 0>>

TReset == /\ Ev("Reset") /\ UNCHANGED idle
          /\ phase' = "idle" /\ want' = 0 /\ reach' = "ok" /\ dials' = <<>>
          /\ sentUp' = 0 /\ gotUp' = 0 /\ sentDown' = 0 /\ gotDown' = 0
          /\ appClosed' = "no" /\ tgtClosed' = "no" /\ cleanApp' = FALSE /\ cleanTgt' = FALSE
          /\ appSaw' = "no" /\ tgtSaw' = "no" /\ fault' = FALSE

TOpen      == Ev("Open")     /\ Open(Rec[l].want, Rec[l].reach) /\ UNCHANGED idle
TRefused   == Ev("Refused")  /\ Refused /\ UNCHANGED idle
TAppWrote  == Ev("AppWrote") /\ AppWrite(Rec[l].n) /\ UNCHANGED idle
TTgtWrote  == Ev("TgtWrote") /\ TgtWrite(Rec[l].n) /\ UNCHANGED idle
TAppClose  == Ev("AppClose") /\ AppClose(Rec[l].how) /\ UNCHANGED idle
TTgtClose  == Ev("TgtClose") /\ TgtClose(Rec[l].how) /\ UNCHANGED idle
TFault     == Ev("Fault")    /\ Fault /\ UNCHANGED idle
TDial      == Ev("Dial")     /\ Dial(Rec[l].lis) /\ UNCHANGED idle
TTgtGot    == Ev("TgtGot")   /\ DeliverUp(Rec[l].n, Rec[l].ok) /\ UNCHANGED idle
TAppGot    == Ev("AppGot")   /\ DeliverDown(Rec[l].n, Rec[l].ok) /\ UNCHANGED idle
TAppEnd    == Ev("AppEnd")   /\ AppEnd(Rec[l].how) /\ UNCHANGED idle
TTgtEnd    == Ev("TgtEnd")   /\ TgtEnd(Rec[l].how) /\ UNCHANGED idle
TSynced    == Ev("Synced")   /\ Synced(Rec[l].ok) /\ UNCHANGED idle
TNoDial    == Ev("NoDial")   /\ NoDial /\ UNCHANGED idle
TQuiesce   == Ev("Quiesce")  /\ Quiesce(Rec[l].wa, Rec[l].wt) /\ UNCHANGED idle

\* a write that failed or stalled: legitimate only once the flow is being torn down (some side closed / fault)
TWriteFailed == /\ l <= Len(Rec) /\ Rec[l].ev \in {"AppWriteFailed", "TgtWriteFailed", "AppWriteStalled", "TgtWriteStalled"}
                /\ l' = l + 1
                /\ appClosed # "no" \/ tgtClosed # "no" \/ fault \/ reach # "ok"
                /\ UNCHANGED <<vars, idle>>

TIdle    == Ev("Idle") /\ idle' = <<Rec[l].c, Rec[l].s>> /\ UNCHANGED vars
\* Released: after any history of flows the descriptors are back at the idle baseline
TSettled == Ev("Settled") /\ <<Rec[l].c, Rec[l].s>> = idle /\ UNCHANGED <<vars, idle>>
\* NoPanic: the logs of both processes contain no panic
TPanic   == Ev("Panic") /\ Rec[l].n = 0 /\ UNCHANGED <<vars, idle>>

TraceNext == \/ TReset \/ TOpen \/ TRefused \/ TAppWrote \/ TTgtWrote \/ TAppClose \/ TTgtClose \/ TFault \/ TDial
             \/ TTgtGot \/ TAppGot \/ TAppEnd \/ TTgtEnd \/ TSynced \/ TNoDial \/ TQuiesce \/ TWriteFailed
             \/ TIdle \/ TSettled \/ TPanic
TraceSpec == TraceInit /\ [][TraceNext]_tvars

\* state invariants, evaluated in every state of the recorded execution
PrefixUp    == gotUp <= sentUp
PrefixDown  == gotDown <= sentDown
DialedExactly == dials = <<>> \/ dials = <<want>>

TraceAccepted ==
  LET d == TLCGet("stats").diameter IN
  IF d - 1 = Len(Rec) THEN PrintT(<<"TRACE-ACCEPTED", d - 1>>)
  ELSE PrintT(<<"TRACE-REJECTED", d - 1, "next unmatched event", Rec[d]>>)
=============================================================================
