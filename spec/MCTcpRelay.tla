----------------------------- MODULE MCTcpRelay -----------------------------
EXTENDS TcpRelay
\* quiescence-free safety shortcuts for TLC: nothing beyond the refinement property
=============================================================================
