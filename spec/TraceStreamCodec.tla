-------------------------- MODULE TraceStreamCodec --------------------------
(* impl -> spec for C04/C05/C07 (how soon a decoder notices tampering is not logged: TLC infers it): runs of the real adapters (FramedRead / WebSocketFramed around the real
   decoders) recorded as  Reset(layout) (Deliver(k) Quiet(observed totals))*  and checked against the
   StreamCodec design with the *real* field lengths of each run: after every delivery the design is
   run to quiescence (its Decode action, as often as it is enabled) and must have released exactly
   what the real adapter released.  Every invariant of StreamCodec is evaluated in every state.    *)
EXTENDS Integers, Sequences, FiniteSets, TLC, Json, IOUtils

Rec == ndJsonDeserialize(IOEnv.TRACE)

VARIABLES lay, arrived, buf, nf, rawTaken, readable, plain, items, connect, lost, failed, panicked, eof, ended, firstRead, hist,
          l

Dev == {}
ShortBy == 0
Slack == 100000000

LayoutOf(r) == [fields |-> r.fields, hs |-> r.hs, datagram |-> r.datagram, exempt |-> r.exempt, adapter |-> r.adapter,
                enc |-> r.enc, badFrom |-> r.badFrom, stop0 |-> r.stop0]
InitLayouts == {LayoutOf(Rec[1])}
SC == INSTANCE StreamCodec

tvars == <<lay, arrived, buf, nf, rawTaken, readable, plain, items, connect, lost, failed, panicked, eof, ended, firstRead, hist, l>>

TraceInit == SC!Init /\ l = 2 /\ TLCSet(1, FALSE) /\ TLCSet(2, 0)

Reset ==
  /\ l <= Len(Rec) /\ Rec[l].ev = "Reset"
  /\ ~readable                                  \* the previous run was at rest
  /\ arrived' = 0 /\ buf' = 0 /\ nf' = 1 /\ rawTaken' = 0 /\ readable' = FALSE /\ plain' = 0 /\ items' = 0
  /\ connect' = FALSE /\ lost' = FALSE /\ failed' = FALSE /\ panicked' = FALSE /\ eof' = FALSE /\ ended' = FALSE
  /\ firstRead' = 0 /\ hist' = <<>>
  /\ lay' = LayoutOf(Rec[l]) /\ l' = l + 1

Deliver ==
  /\ l <= Len(Rec) /\ Rec[l].ev = "Deliver"
  /\ SC!Deliver(Rec[l].k)
  /\ l' = l + 1

Eof ==
  /\ l <= Len(Rec) /\ Rec[l].ev = "Eof"
  /\ SC!Eof
  /\ l' = l + 1

\* internal step of the design: one decode call (not logged by the implementation)
Decode == SC!Decode /\ UNCHANGED l

Quiet ==
  /\ l <= Len(Rec) /\ Rec[l].ev = "Quiet"
  /\ ~readable \/ SC!Dead
  /\ Rec[l].plain = plain /\ Rec[l].items = items /\ Rec[l].connect = connect
  /\ Rec[l].failed = failed /\ Rec[l].panicked = panicked /\ Rec[l].ended = ended
  /\ UNCHANGED <<lay, arrived, buf, nf, rawTaken, readable, plain, items, connect, lost, failed, panicked, eof, ended, firstRead, hist>>
  /\ l' = l + 1

TraceNext == Reset \/ Deliver \/ Eof \/ Decode \/ Quiet
TraceSpec == TraceInit /\ [][TraceNext]_tvars

NoStall == SC!NoStall
NeverAhead == SC!NeverAhead
NoErrorOnValid == SC!NoErrorOnValid
NoPanic == SC!NoPanic
TamperDetected == SC!TamperDetected
ErrFinal == SC!ErrFinal

\* Decode is an unlogged internal step, so acceptance is "the last line was consumed"
Consumed == l = Len(Rec) + 1 => TLCSet(1, TRUE)
TraceAccepted ==
  IF TLCGet(1) = TRUE THEN PrintT(<<"TRACE-ACCEPTED", Len(Rec) - 1>>)
  ELSE PrintT(<<"TRACE-REJECTED", TLCGet(2), "first unmatched line", Rec[TLCGet(2)]>>)
Progress == TLCSet(2, IF TLCGet(2) < l THEN l ELSE TLCGet(2))
=============================================================================
