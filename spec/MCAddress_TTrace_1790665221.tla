---- MODULE MCAddress_TTrace_1790665221 ----
EXTENDS Sequences, TLCExt, Toolbox, Naturals, TLC, MCAddress

_expression ==
    LET MCAddress_TEExpression == INSTANCE MCAddress_TEExpression
    IN MCAddress_TEExpression!expression
----

_trace ==
    LET MCAddress_TETrace == INSTANCE MCAddress_TETrace
    IN MCAddress_TETrace!trace
----

_inv ==
    ~(
        TLCGet("level") = Len(_TETrace)
        /\
        a = ([kind |-> "domain", n |-> 256])
        /\
        tail = (1)
        /\
        style = ("socks5")
        /\
        outcome = ("altered")
    )
----

_init ==
    /\ tail = _TETrace[1].tail
    /\ outcome = _TETrace[1].outcome
    /\ a = _TETrace[1].a
    /\ style = _TETrace[1].style
----

_next ==
    /\ \E i,j \in DOMAIN _TETrace:
        /\ \/ /\ j = i + 1
              /\ i = TLCGet("level")
        /\ tail  = _TETrace[i].tail
        /\ tail' = _TETrace[j].tail
        /\ outcome  = _TETrace[i].outcome
        /\ outcome' = _TETrace[j].outcome
        /\ a  = _TETrace[i].a
        /\ a' = _TETrace[j].a
        /\ style  = _TETrace[i].style
        /\ style' = _TETrace[j].style

\* Uncomment the ASSUME below to write the states of the error trace
\* to the given file in Json format. Note that you can pass any tuple
\* to `JsonSerialize`. For example, a sub-sequence of _TETrace.
    \* ASSUME
    \*     LET J == INSTANCE Json
    \*         IN J!JsonSerialize("MCAddress_TTrace_1790665221.json", _TETrace)

=============================================================================

 Note that you can extract this module `MCAddress_TEExpression`
  to a dedicated file to reuse `expression` (the module in the 
  dedicated `MCAddress_TEExpression.tla` file takes precedence 
  over the module `MCAddress_TEExpression` below).

---- MODULE MCAddress_TEExpression ----
EXTENDS Sequences, TLCExt, Toolbox, Naturals, TLC, MCAddress

expression == 
    [
        \* To hide variables of the `MCAddress` spec from the error trace,
        \* remove the variables below.  The trace will be written in the order
        \* of the fields of this record.
        tail |-> tail
        ,outcome |-> outcome
        ,a |-> a
        ,style |-> style
        
        \* Put additional constant-, state-, and action-level expressions here:
        \* ,_stateNumber |-> _TEPosition
        \* ,_tailUnchanged |-> tail = tail'
        
        \* Format the `tail` variable as Json value.
        \* ,_tailJson |->
        \*     LET J == INSTANCE Json
        \*     IN J!ToJson(tail)
        
        \* Lastly, you may build expressions over arbitrary sets of states by
        \* leveraging the _TETrace operator.  For example, this is how to
        \* count the number of times a spec variable changed up to the current
        \* state in the trace.
        \* ,_tailModCount |->
        \*     LET F[s \in DOMAIN _TETrace] ==
        \*         IF s = 1 THEN 0
        \*         ELSE IF _TETrace[s].tail # _TETrace[s-1].tail
        \*             THEN 1 + F[s-1] ELSE F[s-1]
        \*     IN F[_TEPosition - 1]
    ]

=============================================================================



Parsing and semantic processing can take forever if the trace below is long.
 In this case, it is advised to uncomment the module below to deserialize the
 trace from a generated binary file.

\*
\*---- MODULE MCAddress_TETrace ----
\*EXTENDS IOUtils, TLC, MCAddress
\*
\*trace == IODeserialize("MCAddress_TTrace_1790665221.bin", TRUE)
\*
\*=============================================================================
\*

---- MODULE MCAddress_TETrace ----
EXTENDS TLC, MCAddress

trace == 
    <<
    ([a |-> [kind |-> "domain", n |-> 256],tail |-> 1,style |-> "socks5",outcome |-> "pending"]),
    ([a |-> [kind |-> "domain", n |-> 256],tail |-> 1,style |-> "socks5",outcome |-> "altered"])
    >>
----


=============================================================================

---- CONFIG MCAddress_TTrace_1790665221 ----
CONSTANTS
    Styles = { "socks5" , "vmess" }
    NameLens = { 0 , 1 , 2 , 63 , 64 , 254 , 255 , 256 , 257 , 300 , 511 , 512 , 1024 }
    TailLens = { 0 , 1 , 5 }
    Dev = { "NoDoorCheck" }

INVARIANT
    _inv

CHECK_DEADLOCK
    \* CHECK_DEADLOCK off because of PROPERTY or INVARIANT above.
    FALSE

INIT
    _init

NEXT
    _next

CONSTANT
    _TETrace <- _trace

ALIAS
    _expression
=============================================================================
\* Generated on Tue Sep 29 07:00:22 UTC 2026