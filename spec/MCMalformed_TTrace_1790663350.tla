---- MODULE MCMalformed_TTrace_1790663350 ----
EXTENDS Sequences, TLCExt, Toolbox, Naturals, TLC, MCMalformed

_expression ==
    LET MCMalformed_TEExpression == INSTANCE MCMalformed_TEExpression
    IN MCMalformed_TEExpression!expression
----

_trace ==
    LET MCMalformed_TETrace == INSTANCE MCMalformed_TETrace
    IN MCMalformed_TETrace!trace
----

_inv ==
    ~(
        TLCGet("level") = Len(_TETrace)
        /\
        outcome = ("panic")
        /\
        case = ([dec |-> "ss-legacy-req", class |-> "DomainBeyond"])
    )
----

_init ==
    /\ outcome = _TETrace[1].outcome
    /\ case = _TETrace[1].case
----

_next ==
    /\ \E i,j \in DOMAIN _TETrace:
        /\ \/ /\ j = i + 1
              /\ i = TLCGet("level")
        /\ outcome  = _TETrace[i].outcome
        /\ outcome' = _TETrace[j].outcome
        /\ case  = _TETrace[i].case
        /\ case' = _TETrace[j].case

\* Uncomment the ASSUME below to write the states of the error trace
\* to the given file in Json format. Note that you can pass any tuple
\* to `JsonSerialize`. For example, a sub-sequence of _TETrace.
    \* ASSUME
    \*     LET J == INSTANCE Json
    \*         IN J!JsonSerialize("MCMalformed_TTrace_1790663350.json", _TETrace)

=============================================================================

 Note that you can extract this module `MCMalformed_TEExpression`
  to a dedicated file to reuse `expression` (the module in the 
  dedicated `MCMalformed_TEExpression.tla` file takes precedence 
  over the module `MCMalformed_TEExpression` below).

---- MODULE MCMalformed_TEExpression ----
EXTENDS Sequences, TLCExt, Toolbox, Naturals, TLC, MCMalformed

expression == 
    [
        \* To hide variables of the `MCMalformed` spec from the error trace,
        \* remove the variables below.  The trace will be written in the order
        \* of the fields of this record.
        outcome |-> outcome
        ,case |-> case
        
        \* Put additional constant-, state-, and action-level expressions here:
        \* ,_stateNumber |-> _TEPosition
        \* ,_outcomeUnchanged |-> outcome = outcome'
        
        \* Format the `outcome` variable as Json value.
        \* ,_outcomeJson |->
        \*     LET J == INSTANCE Json
        \*     IN J!ToJson(outcome)
        
        \* Lastly, you may build expressions over arbitrary sets of states by
        \* leveraging the _TETrace operator.  For example, this is how to
        \* count the number of times a spec variable changed up to the current
        \* state in the trace.
        \* ,_outcomeModCount |->
        \*     LET F[s \in DOMAIN _TETrace] ==
        \*         IF s = 1 THEN 0
        \*         ELSE IF _TETrace[s].outcome # _TETrace[s-1].outcome
        \*             THEN 1 + F[s-1] ELSE F[s-1]
        \*     IN F[_TEPosition - 1]
    ]

=============================================================================



Parsing and semantic processing can take forever if the trace below is long.
 In this case, it is advised to uncomment the module below to deserialize the
 trace from a generated binary file.

\*
\*---- MODULE MCMalformed_TETrace ----
\*EXTENDS IOUtils, TLC, MCMalformed
\*
\*trace == IODeserialize("MCMalformed_TTrace_1790663350.bin", TRUE)
\*
\*=============================================================================
\*

---- MODULE MCMalformed_TETrace ----
EXTENDS TLC, MCMalformed

trace == 
    <<
    ([outcome |-> "pending",case |-> [dec |-> "ss-legacy-req", class |-> "DomainBeyond"]]),
    ([outcome |-> "panic",case |-> [dec |-> "ss-legacy-req", class |-> "DomainBeyond"]])
    >>
----


=============================================================================

---- CONFIG MCMalformed_TTrace_1790663350 ----
CONSTANTS
    Dev = { "Unchecked" }

INVARIANT
    _inv

CHECK_DEADLOCK
    \* CHECK_DEADLOCK off because of PROPERTY or INVARIANT above.
    FALSE

INIT
    _init

NEXT
    _next

CONSTANT
    _TETrace <- _trace

ALIAS
    _expression
=============================================================================
\* Generated on Tue Sep 29 06:29:11 UTC 2026