------------------------- MODULE TraceSharedState -------------------------
(* impl -> spec for C09: events recorded INSIDE the real get_cipher by the cfg(octo_verif) Region marker while many OS
   threads (or the worker threads of a running server / client) encode and decode datagrams:
     enter(th, inside)   thread th is now inside the cache region; `inside` = threads inside, counted by an atomic
     exit(th, inside)    it has left
   ordered by the per-process sequence number taken under the trace mutex.  The recorded run must be a behaviour of
   SharedState with Dev = {} : enter is Acquire (enabled only while nobody is inside), exit is Body;Exit.  A second
   enter before the first one's exit is no behaviour of the specification: the trace is rejected at that event.
   `Reset` starts the trace of another process.                                                                     *)
EXTENDS SharedState, IOUtils

Rec == ndJsonDeserialize(IOEnv.TRACE)

VARIABLE l
tvars == <<vars, l>>
Ev(name) == l <= Len(Rec) /\ Rec[l].ev = name /\ l' = l + 1
Others == <<pc, op, cache, got, ins, corrupt, hist>>

TraceInit == Init /\ l = 1

TEnter == /\ Ev("enter")
          /\ LET t == Rec[l].th IN
               /\ t \notin inside
               /\ CanAcquire(t) /\ AcquireEff(t)
               /\ Rec[l].inside = Cardinality(inside')
          /\ UNCHANGED Others
TExit  == /\ Ev("exit")
          /\ LET t == Rec[l].th IN
               /\ t \in inside
               /\ ExitEff(t)
               /\ Rec[l].inside = Cardinality(inside')
          /\ UNCHANGED Others
TReset == Ev("Reset") /\ inside = {} /\ UNCHANGED vars

(* Process-level observations of the same concurrent runs (Engine B):
     Flow(id, alone, together)      the observable result of one flow (listener dialled, bytes delivered each way and
                                    whether every span passed its position check, how each side saw the end) when it ran
                                    alone and when it ran among all the others: Independent
     SameHandshake(copies, accepted) `copies` connections presented the very same Shadowsocks 2022 request at the same
                                    moment; accepted = connections the server then dialled the target for: exactly one
                                    (Handshake.tla: AcceptedAtMostOnce; the first one is a legitimate request)
     Panic(n), Alive(c, s)          logs and liveness of both processes after the run                                *)
Independent(a, b) == a = b
TFlow  == Ev("Flow") /\ Independent(Rec[l].alone, Rec[l].together) /\ UNCHANGED vars
TSame  == Ev("SameHandshake") /\ Rec[l].accepted = 1 /\ UNCHANGED vars
TPanic == Ev("Panic") /\ Rec[l].n = 0 /\ UNCHANGED vars
TAlive == Ev("Alive") /\ Rec[l].c /\ Rec[l].s /\ UNCHANGED vars
TNote  == Ev("Note") /\ UNCHANGED vars

TraceNext == TEnter \/ TExit \/ TReset \/ TFlow \/ TSame \/ TPanic \/ TAlive \/ TNote
TraceSpec == TraceInit /\ [][TraceNext]_tvars

TraceAccepted ==
  LET d == TLCGet("stats").diameter IN
  IF d - 1 = Len(Rec) THEN PrintT(<<"TRACE-ACCEPTED", d - 1>>)
  ELSE PrintT(<<"TRACE-REJECTED", d - 1, "next unmatched event", Rec[d]>>)
=============================================================================
