---- MODULE MCDatagramTamper_TTrace_1790662723 ----
EXTENDS Sequences, TLCExt, MCDatagramTamper, Toolbox, Naturals, TLC

_expression ==
    LET MCDatagramTamper_TEExpression == INSTANCE MCDatagramTamper_TEExpression
    IN MCDatagramTamper_TEExpression!expression
----

_trace ==
    LET MCDatagramTamper_TETrace == INSTANCE MCDatagramTamper_TETrace
    IN MCDatagramTamper_TETrace!trace
----

_inv ==
    ~(
        TLCGet("level") = Len(_TETrace)
        /\
        att = ([kind |-> "legacy", op |-> "flip", unit |-> 1])
        /\
        state = ("delivered")
    )
----

_init ==
    /\ state = _TETrace[1].state
    /\ att = _TETrace[1].att
----

_next ==
    /\ \E i,j \in DOMAIN _TETrace:
        /\ \/ /\ j = i + 1
              /\ i = TLCGet("level")
        /\ state  = _TETrace[i].state
        /\ state' = _TETrace[j].state
        /\ att  = _TETrace[i].att
        /\ att' = _TETrace[j].att

\* Uncomment the ASSUME below to write the states of the error trace
\* to the given file in Json format. Note that you can pass any tuple
\* to `JsonSerialize`. For example, a sub-sequence of _TETrace.
    \* ASSUME
    \*     LET J == INSTANCE Json
    \*         IN J!JsonSerialize("MCDatagramTamper_TTrace_1790662723.json", _TETrace)

=============================================================================

 Note that you can extract this module `MCDatagramTamper_TEExpression`
  to a dedicated file to reuse `expression` (the module in the 
  dedicated `MCDatagramTamper_TEExpression.tla` file takes precedence 
  over the module `MCDatagramTamper_TEExpression` below).

---- MODULE MCDatagramTamper_TEExpression ----
EXTENDS Sequences, TLCExt, MCDatagramTamper, Toolbox, Naturals, TLC

expression == 
    [
        \* To hide variables of the `MCDatagramTamper` spec from the error trace,
        \* remove the variables below.  The trace will be written in the order
        \* of the fields of this record.
        state |-> state
        ,att |-> att
        
        \* Put additional constant-, state-, and action-level expressions here:
        \* ,_stateNumber |-> _TEPosition
        \* ,_stateUnchanged |-> state = state'
        
        \* Format the `state` variable as Json value.
        \* ,_stateJson |->
        \*     LET J == INSTANCE Json
        \*     IN J!ToJson(state)
        
        \* Lastly, you may build expressions over arbitrary sets of states by
        \* leveraging the _TETrace operator.  For example, this is how to
        \* count the number of times a spec variable changed up to the current
        \* state in the trace.
        \* ,_stateModCount |->
        \*     LET F[s \in DOMAIN _TETrace] ==
        \*         IF s = 1 THEN 0
        \*         ELSE IF _TETrace[s].state # _TETrace[s-1].state
        \*             THEN 1 + F[s-1] ELSE F[s-1]
        \*     IN F[_TEPosition - 1]
    ]

=============================================================================



Parsing and semantic processing can take forever if the trace below is long.
 In this case, it is advised to uncomment the module below to deserialize the
 trace from a generated binary file.

\*
\*---- MODULE MCDatagramTamper_TETrace ----
\*EXTENDS IOUtils, MCDatagramTamper, TLC
\*
\*trace == IODeserialize("MCDatagramTamper_TTrace_1790662723.bin", TRUE)
\*
\*=============================================================================
\*

---- MODULE MCDatagramTamper_TETrace ----
EXTENDS MCDatagramTamper, TLC

trace == 
    <<
    ([att |-> [kind |-> "legacy", op |-> "flip", unit |-> 1],state |-> "sent"]),
    ([att |-> [kind |-> "legacy", op |-> "flip", unit |-> 1],state |-> "delivered"])
    >>
----


=============================================================================

---- CONFIG MCDatagramTamper_TTrace_1790662723 ----
CONSTANTS
    Kinds = { "legacy" , "2022-aes" , "2022-aes-eih" , "2022-cha" }
    Dev = { "NoTag" }

INVARIANT
    _inv

CHECK_DEADLOCK
    \* CHECK_DEADLOCK off because of PROPERTY or INVARIANT above.
    FALSE

INIT
    _init

NEXT
    _next

CONSTANT
    _TETrace <- _trace

ALIAS
    _expression
=============================================================================
\* Generated on Tue Sep 29 06:18:44 UTC 2026