----------------------------- MODULE HttpTarget -----------------------------
(* C13, grammar level: which (host, port) an HTTP request line names.
   request-target = absolute-URI  (scheme "://" authority path ["?" query])   for ordinary methods
                  = authority-form (host ":" port)                             for CONNECT
   authority = host [":" port];  host = reg-name | IPv4 | "[" IPv6 "]"
   The proxy must tunnel to exactly (host, port), port 80 when absent (plain HTTP), and refuse a
   target that has no usable authority (no scheme for ordinary methods, missing / non-numeric /
   out-of-range port).  ':' '/' '?' and "://" inside path and query must not confuse it.
   Deviation "FindFirstColon": the port is looked for at the first ':' of the target.           *)
EXTENDS Integers, Sequences, FiniteSets, TLC

CONSTANTS Dev

Methods == {"GET", "POST", "CONNECT"}
Schemes == {"http://", ""}
\* authorities that are no host of the grammar: brackets that do not balance, an empty bracket pair, nested brackets.
\* Malformed: refused ("lenient" in the export tells the replayer that the only other thing it must never see is a panic).
Hostile == {"[", "[::1", "::1]", "[]", "]", "[[::1]]", "[x"}
Hosts   == {"example.com", "10.1.2.3", "[::1]", "[2001:db8::1]", "a-b.c_d.example", ""} \cup Hostile
Ports   == {"", ":8080", ":80", ":080", ":+80", ":0", ":65535", ":65536", ":abc", ":"}
Paths   == {"", "/", "/a/b", "/a:b/c", "/x://y", "/p/"}
Queries == {"", "?a=b", "?u=http://o:9/p", "?a=b:c", "?q=1/2?3"}

PortValue(p) == CASE p = "" -> 80 [] p = ":8080" -> 8080 [] p = ":80" -> 80 [] p = ":080" -> 80 [] p = ":+80" -> 80 [] p = ":0" -> 0 [] p = ":65535" -> 65535 [] OTHER -> -1

Targets == [method : Methods, scheme : Schemes, host : Hosts, port : Ports, path : Paths, query : Queries]

\* CONNECT takes authority-form only.  For the other methods the catalogue holds absolute-URIs and
\* origin-form targets (path only: no host to tunnel to, must be refused); a scheme-less
\* "host:port/path" is not a request-target of RFC 9112 at all, and what a lenient proxy makes of it
\* is left open (not in the catalogue).
Sensible(t) == /\ (t.method = "CONNECT" => (t.scheme = "" /\ t.path = "" /\ t.query = "" /\ t.host # ""))
               /\ (t.method # "CONNECT" /\ t.scheme = "" => (t.host = "" /\ t.port = "" /\ t.path \notin {"", "/x://y"}))
               /\ (t.scheme # "" => t.host # "")

Uri(t) == t.scheme \o t.host \o t.port \o t.path \o t.query

Expected0(t) ==
  IF t.host \in Hostile /\ (t.method = "CONNECT" \/ t.scheme # "")
    THEN [ok |-> FALSE, host |-> t.host, port |-> 0, kind |-> "lenient"]
  ELSE IF t.method = "CONNECT"
    THEN IF t.port = "" \/ PortValue(t.port) < 0 THEN [ok |-> FALSE, host |-> "", port |-> 0, kind |-> "refuse"]
         ELSE [ok |-> TRUE, host |-> t.host, port |-> PortValue(t.port), kind |-> "https"]
    ELSE IF t.scheme = "" \/ PortValue(t.port) < 0 THEN [ok |-> FALSE, host |-> "", port |-> 0, kind |-> "refuse"]
         ELSE [ok |-> TRUE, host |-> t.host, port |-> PortValue(t.port), kind |-> "http"]

\* ":+80" is not a port of the grammar (port = *DIGIT) but names no other port than 80 either: tunnelling to 80 and
\* refusing are both within "exactly the requested target"; the kind then ends in "?".  ":080" is 80.
Signed(t) == t.port = ":+80"
Expected(t) == LET e == Expected0(t) IN IF e.ok /\ Signed(t) THEN [e EXCEPT !.kind = @ \o "?"] ELSE e

VARIABLES t, verdict
Init == t \in {x \in Targets : Sensible(x)} /\ verdict = "pending"
Parse == /\ verdict = "pending"
         /\ verdict' = IF "FindFirstColon" \in Dev /\ t.scheme # "" THEN "http:wronghost" ELSE Expected(t).kind
         /\ UNCHANGED t
Spec == Init /\ [][Parse]_<<t, verdict>>
TargetExact == verdict # "pending" => verdict = Expected(t).kind
=============================================================================
