---------------------------- MODULE StreamCodec ----------------------------
(* C04 / C05 / C07 — a receiver = transport adapter + decoder, in the shape of the code:

     adapter   tokio_util FramedRead (is_readable; decode -> Some: decode again, None: read more,
               Err: report once, then end; at end of stream decode_eof) and codec.rs
               WebSocketFramed (leftover ++ message; decode until None; Err: report, then end)
     decoder   the guard structure of every decoder in the tree: a wire stream is a sequence of
               *fields*; consecutive fields with the same `group` are awaited together and consumed
               atomically (e.g. salt+identity+fixed+variable header of Shadowsocks 2022, the four
               parts of the VMess request header, the Trojan request line, one datagram-in-stream),
               a `raw` field is consumed as its bytes arrive (Trojan / plain tails).

   The stream `lay` (field lengths, plaintext yield, groups, where an attacker tampered with it) is
   state, not a constant, so that one recorded trace can hold runs over many different streams.
   TLC runs scaled layouts exhaustively over every segmentation, every end-of-stream point and
   every tamper point; recorded executions are validated with the real lengths.

   Tampering (C05): `lay.badFrom = i > 0` says the bytes of field i were altered, or bytes were
   inserted / deleted / reordered / replayed / reflected at field i, so that under the ideal AEAD
   of DESIGN 2.3 no sealed unit from field i on opens any more: the group holding field i and every
   later group fail authentication when the decoder gets to them — at some moment between the decoder first
   looking at them (e.g. a sealed length or a header comes first) and their being complete; the
   moment is left open (parameter `e` of a decode call).

   Named deviations (Dev), each one a defect class found in the tree (DESIGN section 7); with
   Dev = {} this is the design the properties demand:
     "SaltNone"      the call that consumes group 0 returns None although more is buffered  (D2)
     "ConnectLost"   handshake consumed in a call that cannot yet emit the connect item: the
                     next data is emitted as a plain relay item and the flow is refused      (D11)
     "NoGuard"       a group is read without checking that it has arrived: panic             (D6 D9 D10)
     "ShortGuard"    the availability check forgets the last ShortBy bytes of the group      (D7 D8 D10 D26)
     "OnePerMessage" WebSocket adapter: one decode call per message, leftover waits          (D12)
     "GoOnAfterErr"  WebSocket adapter keeps decoding after a decode error                   (D12)
     "ReleaseFirst"  plaintext is handed out before the tag is checked (anti-vacuity)              *)
EXTENDS Integers, Sequences, FiniteSets, TLC

CONSTANTS InitLayouts,  \* set of [fields, hs, datagram, exempt, adapter, enc, badFrom, stop0]
          Slack,        \* a tampered stream may be this much longer than the original
          ShortBy,      \* bytes forgotten by a "ShortGuard" check
          Dev

VARIABLES lay,          \* the stream being received (never changes during a run)
          arrived,      \* bytes the transport has delivered
          buf,          \* bytes in the adapter's buffer (arrived but not consumed)
          nf,           \* next field to consume (1-based)
          rawTaken,     \* bytes already taken from the raw field at nf
          readable,     \* adapter will call decode before reading again
          plain,        \* plaintext bytes released so far
          items,        \* datagram items released so far
          connect,      \* connect item released?
          lost,         \* "ConnectLost" armed
          failed,       \* the adapter reported a decode error
          panicked,
          eof,          \* the transport reported end of stream
          ended,        \* the adapter reported end of stream
          firstRead,    \* size of the first delivery
          hist          \* sizes of the deliveries so far, 0 = end of stream (scenario export)

vars == <<lay, arrived, buf, nf, rawTaken, readable, plain, items, connect, lost, failed, panicked, eof, ended, firstRead, hist>>

Fields      == lay.fields     \* sequence of [len, plain, group, raw, dgram]
HsGroup     == lay.hs         \* group whose completion makes the connect item due; -1 = none
Datagram    == lay.datagram   \* TRUE: one item per "dgram" group, one group per decode call
ExemptFirst == lay.exempt     \* Shadowsocks 2022: bytes that must be in the first read (0 = no such rule)
Adapter     == lay.adapter    \* "framed" or "ws"
BadFrom     == lay.badFrom    \* first tampered field, 0 = none
\* lay.stop0: the call that consumes group 0 returns right after it (Shadowsocks 2022 header call)
NF == Len(Fields)
RECURSIVE SumLen(_, _)
SumLen(i, j) == IF i > j THEN 0 ELSE Fields[i].len + SumLen(i + 1, j)
RECURSIVE SumPlain(_, _)
SumPlain(i, j) == IF i > j THEN 0 ELSE Fields[i].plain + SumPlain(i + 1, j)
Total == SumLen(1, NF)

RECURSIVE GroupEnd(_)
GroupEnd(i) == IF i < NF /\ Fields[i + 1].group = Fields[i].group THEN GroupEnd(i + 1) ELSE i
GroupLen(i) == SumLen(i, GroupEnd(i))
GroupPlain(i) == SumPlain(i, GroupEnd(i))
Min(a, b) == IF a < b THEN a ELSE b
\* the group starting at field i holds or follows the tamper point (raw fields carry no integrity)
Bad(i) == BadFrom > 0 /\ GroupEnd(i) >= BadFrom /\ ~Fields[i].raw

(* ---- what is deliverable from the first `n` bytes (the abstract, user-level meaning) ---------- *)
RECURSIVE Deliv(_, _, _)
\* returns <<plain, items, connect>> ; i = next field, n = bytes left; stops at the tamper point
Deliv(i, n, acc) ==
  IF i > NF THEN acc
  ELSE IF Fields[i].raw
       THEN LET got == Min(n, Fields[i].len) IN
            IF got < Fields[i].len THEN <<acc[1] + got, acc[2], acc[3]>>
            ELSE Deliv(i + 1, n - got, <<acc[1] + got, acc[2], acc[3] \/ Fields[i].group = HsGroup>>)
       ELSE IF Bad(i) THEN acc
       ELSE IF n >= GroupLen(i)
            THEN Deliv(GroupEnd(i) + 1, n - GroupLen(i),
                       <<acc[1] + GroupPlain(i), acc[2] + (IF Fields[i].dgram THEN 1 ELSE 0),
                         acc[3] \/ Fields[i].group = HsGroup>>)
            ELSE acc
Deliverable(n) == Deliv(1, n, <<0, 0, FALSE>>)

(* ---- one call of the decoder ------------------------------------------------------------------ *)
\* state of a call in progress: [nf, buf, raw, plain, items, connect, lost, res]
Guard(i) == IF "ShortGuard" \in Dev /\ GroupLen(i) > ShortBy THEN GroupLen(i) - ShortBy ELSE GroupLen(i)

RECURSIVE Call(_)
Call(s) ==
  IF s.buf = 0 THEN s
  ELSE IF s.nf > NF
       \* BadFrom = NF + 1: bytes appended after the end of the stream; refused at some point
       THEN IF BadFrom = NF + 1 /\ s.early THEN [s EXCEPT !.res = "err"] ELSE s
  ELSE IF Fields[s.nf].raw
       THEN LET got == Min(s.buf, Fields[s.nf].len - s.raw)
                done == s.raw + got = Fields[s.nf].len
            IN Call([s EXCEPT !.buf = @ - got, !.plain = @ + got,
                              !.raw = IF done THEN 0 ELSE s.raw + got,
                              !.nf = IF done THEN s.nf + 1 ELSE s.nf,
                              !.connect = @ \/ (done /\ Fields[s.nf].group = HsGroup),
                              !.res = "some"])
       \* without integrity protection (Trojan: TLS is expected underneath) altered bytes may also parse
       ELSE IF Bad(s.nf) /\ "ReleaseFirst" \notin Dev /\ (lay.enc \/ ~s.accept)
            THEN IF s.early \/ s.buf >= GroupLen(s.nf) THEN [s EXCEPT !.res = "err"] ELSE s
       ELSE IF "NoGuard" \in Dev /\ s.buf < GroupLen(s.nf) THEN [s EXCEPT !.res = "panic"]
       ELSE IF s.buf < Guard(s.nf) THEN s                                  \* wait for the rest of the group
       ELSE IF s.buf < GroupLen(s.nf) THEN [s EXCEPT !.res = "panic"]      \* ShortGuard let it through
       ELSE
         LET i   == s.nf
             hs  == Fields[i].group = HsGroup
             yld == GroupPlain(i) > 0 \/ Fields[i].dgram \/ hs
             t   == [s EXCEPT !.nf = GroupEnd(i) + 1, !.buf = @ - GroupLen(i)]
         IN IF hs /\ s.lost
              THEN [t EXCEPT !.res = "err"]                                \* "expect a connect message"
            ELSE
              LET u == [t EXCEPT !.plain = @ + GroupPlain(i),
                                 !.items = @ + (IF Fields[i].dgram THEN 1 ELSE 0),
                                 !.connect = @ \/ hs,
                                 !.res = IF yld THEN "some" ELSE @]
              IN IF "SaltNone" \in Dev /\ i = 1 /\ ~yld THEN [u EXCEPT !.res = "none"]     \* returns right after the salt
                 ELSE IF Datagram /\ Fields[i].dgram THEN u                                 \* one datagram per call
                 ELSE IF lay.stop0 /\ i = 1 THEN u                                          \* 2022: header call returns
                 ELSE Call(u)

DecodeCall(e, a) ==
  LET s0 == [early |-> e, accept |-> a, nf |-> nf, buf |-> buf, raw |-> rawTaken, plain |-> plain, items |-> items,
             connect |-> connect, lost |-> lost, res |-> "none"]
  IN IF nf = 1 /\ ExemptFirst > 0 /\ buf < ExemptFirst
       THEN IF buf < Fields[1].len THEN s0 ELSE [s0 EXCEPT !.res = "err"]  \* 2022: header not in the first read
       ELSE LET r == Call(s0)
                \* "ConnectLost": the handshake group was consumed but the connect item is not out yet
                arm == "ConnectLost" \in Dev /\ HsGroup > 0 /\ r.nf > 1 /\ ~r.connect /\ r.res # "panic"
            IN IF r.res = "err"
                 \* the decoders collect a call's plaintext in a local buffer and drop it when the call fails
                 THEN [r EXCEPT !.plain = plain, !.items = items, !.connect = connect]
                 ELSE [r EXCEPT !.lost = @ \/ arm]

(* ---- adapter ----------------------------------------------------------------------------------- *)
Init ==
  /\ lay \in InitLayouts
  /\ arrived = 0 /\ buf = 0 /\ nf = 1 /\ rawTaken = 0 /\ readable = FALSE
  /\ plain = 0 /\ items = 0 /\ connect = FALSE /\ lost = FALSE
  /\ failed = FALSE /\ panicked = FALSE /\ eof = FALSE /\ ended = FALSE /\ firstRead = 0 /\ hist = <<>>

Dead == failed \/ panicked \/ ended

\* the transport delivers the next k bytes (a read, a TLS record, a QUIC read, a WebSocket message)
Deliver(k) ==
  /\ ~readable /\ ~Dead /\ ~eof /\ arrived + k <= Total + (IF BadFrom > 0 THEN Slack ELSE 0)
  /\ arrived' = arrived + k /\ buf' = buf + k /\ readable' = TRUE
  /\ firstRead' = IF arrived = 0 THEN k ELSE firstRead
  /\ hist' = Append(hist, k)
  /\ UNCHANGED <<lay, nf, rawTaken, plain, items, connect, lost, failed, panicked, eof, ended>>

\* the peer closes: FramedRead runs decode_eof (decode; leftover bytes are an error), the WebSocket
\* adapter just ends
Eof ==
  /\ ~readable /\ ~Dead /\ ~eof
  /\ eof' = TRUE /\ hist' = Append(hist, 0)
  /\ IF Adapter = "ws" THEN ended' = TRUE /\ readable' = FALSE ELSE readable' = TRUE /\ UNCHANGED ended
  /\ UNCHANGED <<lay, arrived, buf, nf, rawTaken, plain, items, connect, lost, failed, panicked, firstRead>>

Decode ==
  /\ readable /\ ~Dead
  /\ \E e \in BOOLEAN, a \in BOOLEAN, keep \in BOOLEAN :
     LET r == DecodeCall(e, a)
         goOn == Adapter = "ws" /\ "GoOnAfterErr" \in Dev
         \* the stream ended inside a frame.  Either the adapter finds the fragment in its buffer and reports "bytes
         \* remaining on stream", or the decoder had already taken the fragment (a length field, say) into its own state
         \* and the adapter sees an empty buffer and a clean end.  Both are fine: nothing of the fragment is released.
         partialAtEof == eof /\ r.res = "none" /\ r.buf > 0
     IN
       /\ (keep => partialAtEof)
       /\ nf' = r.nf /\ buf' = (IF partialAtEof /\ keep THEN 0 ELSE r.buf) /\ rawTaken' = r.raw /\ plain' = r.plain /\ items' = r.items
       /\ connect' = r.connect /\ lost' = r.lost
       /\ failed' = ((r.res = "err" /\ ~goOn) \/ (partialAtEof /\ ~keep))
       /\ panicked' = (r.res = "panic")
       /\ ended' = (eof /\ r.res = "none" /\ (r.buf = 0 \/ keep))
       /\ readable' = IF Adapter = "ws" /\ "OnePerMessage" \in Dev THEN FALSE ELSE r.res = "some"
  /\ UNCHANGED <<lay, arrived, eof, firstRead, hist>>

Next == Decode \/ Eof \/ \E k \in 1..(Total + Slack - arrived) : Deliver(k)
Spec == Init /\ [][Next]_vars

(* ---- the properties ---------------------------------------------------------------------------- *)
Exempt == ExemptFirst > 0 /\ firstRead < ExemptFirst
D == Deliverable(arrived)
\* C04: once the adapter waits for input, everything whose last byte has arrived has been released
Protected == lay.enc \/ BadFrom = 0     \* what the sender wrote is what the receiver must see
NoStall == (~readable /\ ~Dead /\ Protected) => (plain = D[1] /\ items = D[2] /\ connect = D[3])
\* C04/C05: never more than what the sender wrote up to the tamper point
NeverAhead == Protected => (plain <= D[1] /\ items <= D[2] /\ (connect => D[3]))
\* C04: a valid stream is never refused (2022 first-read rule and truncation by the peer excepted)
NoErrorOnValid == failed => (Exempt \/ BadFrom > 0 \/ eof)
\* C07
NoPanic == ~panicked
Complete == (arrived = Total /\ ~readable /\ ~Dead /\ BadFrom = 0) => plain = SumPlain(1, NF)
\* C05: nothing is released once an error has been reported (action property)
ErrFinal == [][failed => (plain' = plain /\ items' = items)]_vars
\* C05: a tampered stream is refused once the tampered unit has arrived completely
TamperDetected ==
  (BadFrom > 0 /\ BadFrom <= NF /\ lay.enc /\ ~readable /\ ~Dead /\ ~Exempt) => arrived < SumLen(1, GroupEnd(BadFrom))
=============================================================================
