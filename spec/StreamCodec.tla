---------------------------- MODULE StreamCodec ----------------------------
(* C04 / C07 (and the stream part of C05) — a receiver = transport adapter + decoder, in the shape
   of the code:

     adapter   tokio_util FramedRead (is_readable; decode -> Some: decode again, None: read more,
               Err: end) and codec.rs WebSocketFramed (leftover ++ message; decode; Some/None/Err)
     decoder   the guard structure of every decoder in the tree: a wire stream is a sequence of
               *fields*; consecutive fields with the same `group` are awaited together and consumed
               atomically (e.g. salt+identity+fixed+variable header of Shadowsocks 2022, the four
               parts of the VMess request header, the Trojan request line, one datagram-in-stream),
               a `raw` field is consumed as its bytes arrive (Trojan / plain tails).

   The layout (field lengths, plaintext yield, groups) is a parameter: TLC runs scaled layouts
   exhaustively over every segmentation; recorded executions are validated with the real layout.

   Named deviations (Dev), each one a defect class found in the tree (DESIGN section 7); with
   Dev = {} this is the design the property demands:
     "SaltNone"      the call that consumes group 0 returns None although more is buffered  (D2)
     "ConnectLost"   handshake consumed in a call that cannot yet emit the connect item: the
                     next data is emitted as a plain relay item and the flow is refused      (D11)
     "NoGuard"       a group is read without checking that it has arrived: panic             (D6 D9 D10)
     "ShortGuard"    the availability check forgets the last ShortBy bytes of the group      (D7 D8 D10 D26)
     "OnePerMessage" WebSocket adapter: one decode call per message, leftover waits          (D12)    *)
EXTENDS Integers, Sequences, FiniteSets, TLC

CONSTANTS InitLayout,   \* the stream to receive: [fields, hs, datagram, exempt, adapter] (see below)
          ShortBy,      \* bytes forgotten by a "ShortGuard" check
          Dev

VARIABLES lay,          \* the layout of the stream being received (never changes during a run; a
                        \* variable so that one recorded trace can hold runs over different streams)
          arrived,      \* bytes the transport has delivered
          buf,          \* bytes in the adapter's buffer (arrived but not consumed)
          nf,           \* next field to consume (1-based)
          rawTaken,     \* bytes already taken from the raw field at nf
          readable,     \* adapter will call decode before reading again
          plain,        \* plaintext bytes released so far
          items,        \* datagram items released so far
          connect,      \* connect item released?
          lost,         \* "ConnectLost" armed
          failed,       \* the adapter reported a decode error
          panicked,
          firstRead,    \* size of the first delivery
          hist          \* sizes of the deliveries so far (scenario export)

vars == <<lay, arrived, buf, nf, rawTaken, readable, plain, items, connect, lost, failed, panicked, firstRead, hist>>

Fields      == lay.fields     \* sequence of [len, plain, group, raw, dgram]
HsGroup     == lay.hs         \* group whose completion makes the connect item due; -1 = none
Datagram    == lay.datagram   \* TRUE: one item per "dgram" group, one group per decode call
ExemptFirst == lay.exempt     \* Shadowsocks 2022: bytes that must be in the first read (0 = no such rule)
Adapter     == lay.adapter    \* "framed" or "ws"
NF == Len(Fields)
RECURSIVE SumLen(_, _)
SumLen(i, j) == IF i > j THEN 0 ELSE Fields[i].len + SumLen(i + 1, j)
RECURSIVE SumPlain(_, _)
SumPlain(i, j) == IF i > j THEN 0 ELSE Fields[i].plain + SumPlain(i + 1, j)
Total == SumLen(1, NF)

RECURSIVE GroupEnd(_)
GroupEnd(i) == IF i < NF /\ Fields[i + 1].group = Fields[i].group THEN GroupEnd(i + 1) ELSE i
GroupLen(i) == SumLen(i, GroupEnd(i))
GroupPlain(i) == SumPlain(i, GroupEnd(i))
Min(a, b) == IF a < b THEN a ELSE b

(* ---- what is deliverable from the first `n` bytes (the abstract, user-level meaning) ---------- *)
RECURSIVE Deliv(_, _, _)
\* returns <<plain, items, connect>> ; i = next field, n = bytes left
Deliv(i, n, acc) ==
  IF i > NF THEN acc
  ELSE IF Fields[i].raw
       THEN LET got == Min(n, Fields[i].len) IN
            IF got < Fields[i].len THEN <<acc[1] + got, acc[2], acc[3]>>
            ELSE Deliv(i + 1, n - got, <<acc[1] + got, acc[2], acc[3] \/ Fields[i].group = HsGroup>>)
       ELSE IF n >= GroupLen(i)
            THEN Deliv(GroupEnd(i) + 1, n - GroupLen(i),
                       <<acc[1] + GroupPlain(i), acc[2] + (IF Fields[i].dgram THEN 1 ELSE 0),
                         acc[3] \/ Fields[i].group = HsGroup>>)
            ELSE acc
Deliverable(n) == Deliv(1, n, <<0, 0, FALSE>>)

(* ---- one call of the decoder ------------------------------------------------------------------ *)
\* state of a call in progress: [nf, buf, raw, plain, items, connect, lost, res]
Guard(i) == IF "ShortGuard" \in Dev /\ GroupLen(i) > ShortBy THEN GroupLen(i) - ShortBy ELSE GroupLen(i)

RECURSIVE Call(_)
Call(s) ==
  IF s.nf > NF \/ s.buf = 0 THEN s
  ELSE IF Fields[s.nf].raw
       THEN LET got == Min(s.buf, Fields[s.nf].len - s.raw)
                done == s.raw + got = Fields[s.nf].len
            IN Call([s EXCEPT !.buf = @ - got, !.plain = @ + got,
                              !.raw = IF done THEN 0 ELSE s.raw + got,
                              !.nf = IF done THEN s.nf + 1 ELSE s.nf,
                              !.connect = @ \/ (done /\ Fields[s.nf].group = HsGroup),
                              !.res = "some"])
       ELSE IF "NoGuard" \in Dev /\ s.buf < GroupLen(s.nf) THEN [s EXCEPT !.res = "panic"]
       ELSE IF s.buf < Guard(s.nf) THEN s                                  \* wait for the rest of the group
       ELSE IF s.buf < GroupLen(s.nf) THEN [s EXCEPT !.res = "panic"]      \* ShortGuard let it through
       ELSE
         LET i   == s.nf
             hs  == Fields[i].group = HsGroup
             yld == GroupPlain(i) > 0 \/ Fields[i].dgram \/ hs
             t   == [s EXCEPT !.nf = GroupEnd(i) + 1, !.buf = @ - GroupLen(i)]
         IN IF hs /\ s.lost
              THEN [t EXCEPT !.res = "err"]                                \* "expect a connect message"
            ELSE
              LET u == [t EXCEPT !.plain = @ + GroupPlain(i),
                                 !.items = @ + (IF Fields[i].dgram THEN 1 ELSE 0),
                                 !.connect = @ \/ hs,
                                 !.res = IF yld THEN "some" ELSE @]
              IN IF "SaltNone" \in Dev /\ i = 1 /\ ~yld THEN [u EXCEPT !.res = "none"]     \* returns right after the salt
                 ELSE IF Datagram /\ Fields[i].dgram THEN u                                 \* one datagram per call
                 ELSE Call(u)

DecodeCall ==
  LET s0 == [nf |-> nf, buf |-> buf, raw |-> rawTaken, plain |-> plain, items |-> items,
             connect |-> connect, lost |-> lost, res |-> "none"]
  IN IF nf = 1 /\ ExemptFirst > 0 /\ buf < ExemptFirst
       THEN IF buf < Fields[1].len THEN s0 ELSE [s0 EXCEPT !.res = "err"]  \* 2022: header not in the first read
       ELSE LET r == Call(s0)
                \* "ConnectLost": the handshake group was consumed but the connect item is not out yet
                arm == "ConnectLost" \in Dev /\ HsGroup > 0 /\ r.nf > 1 /\ ~r.connect /\ r.res # "panic"
            IN [r EXCEPT !.lost = @ \/ arm]

(* ---- adapter ----------------------------------------------------------------------------------- *)
Init ==
  /\ lay = InitLayout
  /\ arrived = 0 /\ buf = 0 /\ nf = 1 /\ rawTaken = 0 /\ readable = FALSE
  /\ plain = 0 /\ items = 0 /\ connect = FALSE /\ lost = FALSE
  /\ failed = FALSE /\ panicked = FALSE /\ firstRead = 0 /\ hist = <<>>

Dead == failed \/ panicked

\* the transport delivers the next k bytes (a read, a TLS record, a QUIC read, a WebSocket message)
Deliver(k) ==
  /\ ~readable /\ ~Dead /\ arrived + k <= Total
  /\ arrived' = arrived + k /\ buf' = buf + k /\ readable' = TRUE
  /\ firstRead' = IF arrived = 0 THEN k ELSE firstRead
  /\ hist' = Append(hist, k)
  /\ UNCHANGED <<lay, nf, rawTaken, plain, items, connect, lost, failed, panicked>>

Decode ==
  /\ readable /\ ~Dead
  /\ LET r == DecodeCall IN
       /\ nf' = r.nf /\ buf' = r.buf /\ rawTaken' = r.raw /\ plain' = r.plain /\ items' = r.items
       /\ connect' = r.connect /\ lost' = r.lost
       /\ failed' = (r.res = "err") /\ panicked' = (r.res = "panic")
       /\ readable' = IF Adapter = "ws" /\ "OnePerMessage" \in Dev THEN FALSE ELSE r.res = "some"
  /\ UNCHANGED <<lay, arrived, firstRead, hist>>

Next == Decode \/ \E k \in 1..(Total - arrived) : Deliver(k)
Spec == Init /\ [][Next]_vars

(* ---- the property ------------------------------------------------------------------------------ *)
Exempt == ExemptFirst > 0 /\ firstRead < ExemptFirst
D == Deliverable(arrived)
\* once the adapter waits for input, everything whose last byte has arrived has been released
NoStall == (~readable /\ ~Dead) => (plain = D[1] /\ items = D[2] /\ connect = D[3])
NeverAhead == plain <= D[1] /\ items <= D[2] /\ (connect => D[3])
NoErrorOnValid == failed => Exempt
NoPanic == ~panicked
Complete == (arrived = Total /\ ~readable /\ ~Dead) => plain = SumPlain(1, NF)
=============================================================================
