------------------------------ MODULE UdpRelay ------------------------------
(* C02, abstract level: what the UDP relay looks like from outside the two processes - at the local applications'
   SOCKS5-UDP sockets and at the targets' UDP sockets.

   Identity.  Every datagram an application sends carries an id (pid), every datagram a target sends back carries an
   id (rid); the observer recognises them in what arrives (embedded header + position-addressed fill, `ok` = the
   bytes are exactly the ones that were sent).  A target sees the source address a datagram came from (`src`, the
   server side socket of one association / one datagram-in-stream flow) and answers to it.

   Environment actions: AppSend, TgtReply.   System actions: ToTarget, ToApp.   Observer: Settle.
   Every guard is part of the property:
     NoInvent / RightTarget   a datagram arrives only at the target it was addressed to, and only if it was sent
     Whole                    with its full length and unmodified bytes (never truncated, merged, altered)
     NoDup                    at most once
     OneOwnerPerSource        one server side source address never carries datagrams of two different owners
                              (application x client session x user): that address is where replies are routed from
     ReplyToOwner             a reply reaches only the owner of the source address it was sent to,
     Label                    labelled with the address of the target that sent it, whole, at most once
     Delivered                (Settle) datagrams the path can carry, sent at a pace loopback does not lose, did arrive *)
EXTENDS Naturals, FiniteSets

VARIABLES
  sent,       \* pid -> [app, tgt, len, must]      must = the observer may insist on delivery (size fits, paced)
  atTgt,      \* pid -> [tgt, src]   datagrams that arrived at a target, and from which source address
  owner,      \* src -> app          (who the server side source address belongs to)
  replied,    \* rid -> [tgt, src, len, must]
  atApp,      \* rid -> [app, label] replies that arrived at an application, and the address they were labelled with
  n           \* number of arrivals so far (so that a second arrival of the same datagram is a visible step)

vars == <<sent, atTgt, owner, replied, atApp, n>>

Init == sent = <<>> /\ atTgt = <<>> /\ owner = <<>> /\ replied = <<>> /\ atApp = <<>> /\ n = 0

Ext(f, k, v) == [x \in DOMAIN f \cup {k} |-> IF x = k THEN v ELSE f[x]]

AppSend(app, tgt, pid, len, must) ==
  /\ pid \notin DOMAIN sent
  /\ sent' = Ext(sent, pid, [app |-> app, tgt |-> tgt, len |-> len, must |-> must])
  /\ UNCHANGED <<atTgt, owner, replied, atApp, n>>

ToTarget(tgt, pid, len, ok, src) ==
  /\ pid \in DOMAIN sent                       \* NoInvent
  /\ sent[pid].tgt = tgt                       \* RightTarget
  /\ sent[pid].len = len /\ ok                 \* Whole, unaltered
  /\ pid \notin DOMAIN atTgt                   \* NoDup
  /\ src \in DOMAIN owner => owner[src] = sent[pid].app      \* OneOwnerPerSource
  /\ atTgt' = Ext(atTgt, pid, [tgt |-> tgt, src |-> src])
  /\ owner' = Ext(owner, src, sent[pid].app)
  /\ n' = n + 1
  /\ UNCHANGED <<sent, replied, atApp>>

TgtReply(tgt, rid, src, len, must) ==
  /\ rid \notin DOMAIN replied
  /\ replied' = Ext(replied, rid, [tgt |-> tgt, src |-> src, len |-> len, must |-> must])
  /\ UNCHANGED <<sent, atTgt, owner, atApp, n>>

ToApp(app, label, rid, len, ok) ==
  /\ rid \in DOMAIN replied                    \* NoInvent
  /\ replied[rid].src \in DOMAIN owner /\ owner[replied[rid].src] = app       \* ReplyToOwner
  /\ label = replied[rid].tgt                  \* Label
  /\ replied[rid].len = len /\ ok              \* Whole
  /\ rid \notin DOMAIN atApp                   \* NoDup
  /\ atApp' = Ext(atApp, rid, [app |-> app, label |-> label])
  /\ n' = n + 1
  /\ UNCHANGED <<sent, atTgt, owner, replied>>

\* The observer waited (bounded, poll-until-stable) for everything to arrive.
Settle ==
  /\ \A p \in DOMAIN sent : sent[p].must => p \in DOMAIN atTgt
  /\ \A r \in DOMAIN replied : (replied[r].must /\ replied[r].src \in DOMAIN owner) => r \in DOMAIN atApp
  /\ UNCHANGED vars

\* state invariants (implied by the guards; evaluated in every state of a validated trace)
OnlySent    == DOMAIN atTgt \subseteq DOMAIN sent
OnlyReplied == DOMAIN atApp \subseteq DOMAIN replied
=============================================================================
