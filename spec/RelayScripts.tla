---------------------------- MODULE RelayScripts ----------------------------
(* spec -> impl for C01 / C15: every environment script of RelayAbs up to MaxLen steps - who writes what size
   class, where the observer waits for everything to arrive, who closes first and how - composed with the IDEAL
   relay (dials at once, delivers everything at once, passes every end on).  Each complete script is printed
   as one REPLAY line; Engine B executes it against the real client and server on the chosen configurations
   (concretising the size classes around that configuration's chunk limits) and TraceRelay judges the run.
   The ideal relay below must itself satisfy every RelayAbs guard: that is checked here as the invariant
   IdealAllowed, so RelayAbs never demands something no relay can do.                                         *)
EXTENDS RelayAbs, TLC, Json

CONSTANTS MaxLen, Sizes, Reaches, Faults, Holds

VARIABLES script, done, okAll
svars == <<vars, script, done, okAll>>

SInit == Init /\ script = <<>> /\ done = FALSE /\ okAll = TRUE

Sz(c) == CASE c = "s" -> 1 [] c = "b" -> 2 [] c = "L" -> 3

\* the ideal system's reaction, as a state function applied after each environment step
DialNow    == IF phase' = "open" /\ dials = <<>> /\ reach' = "ok" /\ sentUp' > 0 THEN <<want'>> ELSE dials

Step(tag, A) == /\ ~done /\ Len(script) < MaxLen /\ A /\ script' = Append(script, tag) /\ UNCHANGED <<done, okAll>>

\* environment steps, each followed by ideal delivery in the same step (gotX' = sentX')
EOpen(r) ==
  /\ ~done /\ phase = "idle" /\ script = <<>>
  /\ phase' = "open" /\ want' = 1 /\ reach' = r
  /\ script' = <<[op |-> "open", reach |-> r]>>
  /\ UNCHANGED <<dials, sentUp, gotUp, sentDown, gotDown, appClosed, tgtClosed, cleanApp, cleanTgt, appSaw, tgtSaw, fault, lapsed, done, okAll>>

EUp(c) ==
  /\ ~done /\ Len(script) < MaxLen /\ phase = "open" /\ appClosed = "no" /\ appSaw = "no"
  /\ sentUp' = sentUp + Sz(c)
  /\ dials' = IF dials = <<>> /\ reach = "ok" THEN <<want>> ELSE dials
  /\ gotUp' = IF reach = "ok" /\ tgtClosed \in {"no", "fin"} /\ ~fault THEN sentUp' ELSE gotUp
  /\ cleanTgt' = (cleanTgt /\ tgtClosed \notin {"close", "rst"})
  /\ script' = Append(script, [op |-> "up", size |-> c])
  /\ UNCHANGED <<phase, want, reach, sentDown, gotDown, appClosed, tgtClosed, cleanApp, appSaw, tgtSaw, fault, lapsed, done, okAll>>

EDown(c) ==
  /\ ~done /\ Len(script) < MaxLen /\ dials # <<>> /\ tgtClosed = "no" /\ tgtSaw = "no"
  /\ sentDown' = sentDown + Sz(c)
  /\ gotDown' = IF appClosed \in {"no", "fin"} /\ appSaw = "no" /\ ~fault THEN sentDown' ELSE gotDown
  /\ cleanApp' = (cleanApp /\ appClosed # "close")
  /\ script' = Append(script, [op |-> "down", size |-> c])
  /\ UNCHANGED <<phase, want, reach, dials, sentUp, gotUp, appClosed, tgtClosed, cleanTgt, appSaw, tgtSaw, fault, lapsed, done, okAll>>

ESync ==
  /\ ~done /\ Len(script) < MaxLen /\ dials # <<>> /\ appClosed = "no" /\ tgtClosed = "no"
  /\ script # <<>> /\ script[Len(script)].op \in {"up", "down"}
  /\ Synced(gotUp = sentUp /\ gotDown = sentDown)
  /\ script' = Append(script, [op |-> "sync"])
  /\ UNCHANGED <<done, okAll>>

\* a close is passed on by the ideal relay: the other side sees an end-of-stream (after an orderly close) or an end
EAppClose(h) ==
  /\ ~done /\ Len(script) < MaxLen /\ sentUp > 0
  /\ AppClose(h)
  /\ script' = Append(script, [op |-> "app_close", how |-> h])
  /\ UNCHANGED <<done, okAll>>

ETgtClose(h) ==
  /\ ~done /\ Len(script) < MaxLen
  /\ TgtClose(h)
  /\ script' = Append(script, [op |-> "tgt_close", how |-> h])
  /\ UNCHANGED <<done, okAll>>

\* C15: the link between client and server is cut (how: "rst" = both link connections reset, "fin" = both closed in
\* an orderly way, "dark" = nothing passes any more); the ideal relay ends both outer sides
EFault(h) ==
  /\ ~done /\ Len(script) < MaxLen /\ sentUp > 0
  /\ Fault
  /\ script' = Append(script, [op |-> "cut", how |-> h])
  /\ UNCHANGED <<done, okAll>>

\* C15: one outer side has closed for good (close / reset), the other one keeps its connection open and stays silent
\* for longer than the close grace; nothing more is scripted after that.  Both processes must have let go of the flow
\* by then (the observer's Held), whatever the silent side does later.
EHold ==
  /\ ~done /\ Len(script) < MaxLen /\ dials # <<>>
  /\ (appClosed \in {"close", "rst"}) # (tgtClosed \in {"close", "rst"})
  /\ appClosed \in {"no", "close", "rst"} /\ tgtClosed \in {"no", "close", "rst"}
  /\ script[Len(script)].op # "hold"
  /\ Lapse
  /\ script' = Append(script, [op |-> "hold"])
  /\ UNCHANGED <<done, okAll>>
Held == script # <<>> /\ script[Len(script)].op = "hold"

\* ideal system steps that are observable ends; taken eagerly before the script goes on
IdealTgtEnd == /\ ~done /\ dials # <<>> /\ tgtSaw = "no" /\ (appClosed # "no" \/ fault) /\ tgtClosed \in {"no", "fin"}
               /\ TgtEnd("eof") /\ UNCHANGED <<script, done, okAll>>
IdealAppEnd == /\ ~done /\ phase = "open" /\ appSaw = "no" /\ appClosed \in {"no", "fin"}
               /\ (tgtClosed # "no" \/ (reach # "ok" /\ sentUp > 0) \/ fault)
               /\ AppEnd("eof") /\ UNCHANGED <<script, done, okAll>>
EndsPending == ENABLED IdealTgtEnd \/ ENABLED IdealAppEnd

Finish ==
  /\ ~done /\ script # <<>> /\ Len(script) >= 2 /\ ~EndsPending
  /\ Quiesce(appClosed \in {"no", "fin"}, tgtClosed \in {"no", "fin"})
  /\ done' = TRUE /\ UNCHANGED <<script, okAll>>

SNext == \/ \E r \in Reaches : EOpen(r)
         \/ (~EndsPending /\ ~Held /\ (\/ \E c \in Sizes : EUp(c) \/ EDown(c)
                                        \/ ESync
                                        \/ \E h \in Hows : EAppClose(h) \/ ETgtClose(h)
                                        \/ \E g \in Faults : EFault(g)
                                        \/ (Holds /\ EHold)))
         \/ (~EndsPending /\ Finish)
         \/ IdealTgtEnd \/ IdealAppEnd

SSpec == SInit /\ [][SNext]_svars

Export == done => PrintT("REPLAY " \o ToJson([script |-> script]))
\* the ideal relay is never stuck in front of a RelayAbs guard: a pending end can always be taken
IdealAllowed == (~done /\ dials # <<>> /\ tgtSaw = "no" /\ appClosed # "no" /\ tgtClosed \in {"no", "fin"}) => ENABLED IdealTgtEnd
IdealAllowed2 == (~done /\ phase = "open" /\ appSaw = "no" /\ appClosed \in {"no", "fin"} /\ tgtClosed # "no") => ENABLED IdealAppEnd
=============================================================================
