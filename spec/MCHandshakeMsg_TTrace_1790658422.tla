---- MODULE MCHandshakeMsg_TTrace_1790658422 ----
EXTENDS MCHandshakeMsg, Sequences, TLCExt, Toolbox, Naturals, TLC

_expression ==
    LET MCHandshakeMsg_TEExpression == INSTANCE MCHandshakeMsg_TEExpression
    IN MCHandshakeMsg_TEExpression!expression
----

_trace ==
    LET MCHandshakeMsg_TETrace == INSTANCE MCHandshakeMsg_TETrace
    IN MCHandshakeMsg_TETrace!trace
----

_inv ==
    ~(
        TLCGet("level") = Len(_TETrace)
        /\
        msg = ([kind |-> "vmess-auth", dts |-> -121, typ |-> 0, echo |-> "own", auth |-> "ok"])
        /\
        state = ("delivered")
    )
----

_init ==
    /\ state = _TETrace[1].state
    /\ msg = _TETrace[1].msg
----

_next ==
    /\ \E i,j \in DOMAIN _TETrace:
        /\ \/ /\ j = i + 1
              /\ i = TLCGet("level")
        /\ state  = _TETrace[i].state
        /\ state' = _TETrace[j].state
        /\ msg  = _TETrace[i].msg
        /\ msg' = _TETrace[j].msg

\* Uncomment the ASSUME below to write the states of the error trace
\* to the given file in Json format. Note that you can pass any tuple
\* to `JsonSerialize`. For example, a sub-sequence of _TETrace.
    \* ASSUME
    \*     LET J == INSTANCE Json
    \*         IN J!JsonSerialize("MCHandshakeMsg_TTrace_1790658422.json", _TETrace)

=============================================================================

 Note that you can extract this module `MCHandshakeMsg_TEExpression`
  to a dedicated file to reuse `expression` (the module in the 
  dedicated `MCHandshakeMsg_TEExpression.tla` file takes precedence 
  over the module `MCHandshakeMsg_TEExpression` below).

---- MODULE MCHandshakeMsg_TEExpression ----
EXTENDS MCHandshakeMsg, Sequences, TLCExt, Toolbox, Naturals, TLC

expression == 
    [
        \* To hide variables of the `MCHandshakeMsg` spec from the error trace,
        \* remove the variables below.  The trace will be written in the order
        \* of the fields of this record.
        state |-> state
        ,msg |-> msg
        
        \* Put additional constant-, state-, and action-level expressions here:
        \* ,_stateNumber |-> _TEPosition
        \* ,_stateUnchanged |-> state = state'
        
        \* Format the `state` variable as Json value.
        \* ,_stateJson |->
        \*     LET J == INSTANCE Json
        \*     IN J!ToJson(state)
        
        \* Lastly, you may build expressions over arbitrary sets of states by
        \* leveraging the _TETrace operator.  For example, this is how to
        \* count the number of times a spec variable changed up to the current
        \* state in the trace.
        \* ,_stateModCount |->
        \*     LET F[s \in DOMAIN _TETrace] ==
        \*         IF s = 1 THEN 0
        \*         ELSE IF _TETrace[s].state # _TETrace[s-1].state
        \*             THEN 1 + F[s-1] ELSE F[s-1]
        \*     IN F[_TEPosition - 1]
    ]

=============================================================================



Parsing and semantic processing can take forever if the trace below is long.
 In this case, it is advised to uncomment the module below to deserialize the
 trace from a generated binary file.

\*
\*---- MODULE MCHandshakeMsg_TETrace ----
\*EXTENDS MCHandshakeMsg, IOUtils, TLC
\*
\*trace == IODeserialize("MCHandshakeMsg_TTrace_1790658422.bin", TRUE)
\*
\*=============================================================================
\*

---- MODULE MCHandshakeMsg_TETrace ----
EXTENDS MCHandshakeMsg, TLC

trace == 
    <<
    ([msg |-> [kind |-> "vmess-auth", dts |-> -121, typ |-> 0, echo |-> "own", auth |-> "ok"],state |-> "waiting"]),
    ([msg |-> [kind |-> "vmess-auth", dts |-> -121, typ |-> 0, echo |-> "own", auth |-> "ok"],state |-> "delivered"])
    >>
----


=============================================================================

---- CONFIG MCHandshakeMsg_TTrace_1790658422 ----
CONSTANTS
    Win = 30
    VWin = 120
    Kinds = { "ss-resp" , "ss-udp-c2s" , "ss-udp-s2c" , "vmess-auth" , "vmess-resp" }
    DT <- DTReal
    VDT <- VDTReal
    Dev = { "WideVMess" }

INVARIANT
    _inv

CHECK_DEADLOCK
    \* CHECK_DEADLOCK off because of PROPERTY or INVARIANT above.
    FALSE

INIT
    _init

NEXT
    _next

CONSTANT
    _TETrace <- _trace

ALIAS
    _expression
=============================================================================
\* Generated on Tue Sep 29 05:07:03 UTC 2026