---- MODULE MCHandshake_TTrace_1790658341 ----
EXTENDS Sequences, TLCExt, Toolbox, Naturals, TLC, MCHandshake

_expression ==
    LET MCHandshake_TEExpression == INSTANCE MCHandshake_TEExpression
    IN MCHandshake_TEExpression!expression
----

_trace ==
    LET MCHandshake_TETrace == INSTANCE MCHandshake_TETrace
    IN MCHandshake_TETrace!trace
----

_inv ==
    ~(
        TLCGet("level") = Len(_TETrace)
        /\
        accAt = (<<3, 0>>)
        /\
        cache = (3)
        /\
        pc = (<<"accepted", "accepted">>)
        /\
        found = (<<FALSE, FALSE>>)
        /\
        sched = (<<<<2, "CheckAcquire", 0>>, <<2, "CheckBody", 0>>, <<2, "Open", 0>>, <<2, "SetAcquire", 0>>, <<2, "SetBody", 0>>, <<0, "Tick", 0>>, <<0, "Tick", 1>>, <<0, "Tick", 2>>, <<1, "CheckAcquire", 3>>, <<1, "CheckBody", 3>>, <<1, "Open", 3>>, <<1, "SetAcquire", 3>>, <<1, "SetBody", 3>>>>)
        /\
        now = (3)
        /\
        lock = (0)
        /\
        typ = (0)
        /\
        chkAt = (<<3, 0>>)
        /\
        ts = (1)
    )
----

_init ==
    /\ typ = _TETrace[1].typ
    /\ now = _TETrace[1].now
    /\ pc = _TETrace[1].pc
    /\ sched = _TETrace[1].sched
    /\ lock = _TETrace[1].lock
    /\ chkAt = _TETrace[1].chkAt
    /\ found = _TETrace[1].found
    /\ ts = _TETrace[1].ts
    /\ accAt = _TETrace[1].accAt
    /\ cache = _TETrace[1].cache
----

_next ==
    /\ \E i,j \in DOMAIN _TETrace:
        /\ \/ /\ j = i + 1
              /\ i = TLCGet("level")
        /\ typ  = _TETrace[i].typ
        /\ typ' = _TETrace[j].typ
        /\ now  = _TETrace[i].now
        /\ now' = _TETrace[j].now
        /\ pc  = _TETrace[i].pc
        /\ pc' = _TETrace[j].pc
        /\ sched  = _TETrace[i].sched
        /\ sched' = _TETrace[j].sched
        /\ lock  = _TETrace[i].lock
        /\ lock' = _TETrace[j].lock
        /\ chkAt  = _TETrace[i].chkAt
        /\ chkAt' = _TETrace[j].chkAt
        /\ found  = _TETrace[i].found
        /\ found' = _TETrace[j].found
        /\ ts  = _TETrace[i].ts
        /\ ts' = _TETrace[j].ts
        /\ accAt  = _TETrace[i].accAt
        /\ accAt' = _TETrace[j].accAt
        /\ cache  = _TETrace[i].cache
        /\ cache' = _TETrace[j].cache

\* Uncomment the ASSUME below to write the states of the error trace
\* to the given file in Json format. Note that you can pass any tuple
\* to `JsonSerialize`. For example, a sub-sequence of _TETrace.
    \* ASSUME
    \*     LET J == INSTANCE Json
    \*         IN J!JsonSerialize("MCHandshake_TTrace_1790658341.json", _TETrace)

=============================================================================

 Note that you can extract this module `MCHandshake_TEExpression`
  to a dedicated file to reuse `expression` (the module in the 
  dedicated `MCHandshake_TEExpression.tla` file takes precedence 
  over the module `MCHandshake_TEExpression` below).

---- MODULE MCHandshake_TEExpression ----
EXTENDS Sequences, TLCExt, Toolbox, Naturals, TLC, MCHandshake

expression == 
    [
        \* To hide variables of the `MCHandshake` spec from the error trace,
        \* remove the variables below.  The trace will be written in the order
        \* of the fields of this record.
        typ |-> typ
        ,now |-> now
        ,pc |-> pc
        ,sched |-> sched
        ,lock |-> lock
        ,chkAt |-> chkAt
        ,found |-> found
        ,ts |-> ts
        ,accAt |-> accAt
        ,cache |-> cache
        
        \* Put additional constant-, state-, and action-level expressions here:
        \* ,_stateNumber |-> _TEPosition
        \* ,_typUnchanged |-> typ = typ'
        
        \* Format the `typ` variable as Json value.
        \* ,_typJson |->
        \*     LET J == INSTANCE Json
        \*     IN J!ToJson(typ)
        
        \* Lastly, you may build expressions over arbitrary sets of states by
        \* leveraging the _TETrace operator.  For example, this is how to
        \* count the number of times a spec variable changed up to the current
        \* state in the trace.
        \* ,_typModCount |->
        \*     LET F[s \in DOMAIN _TETrace] ==
        \*         IF s = 1 THEN 0
        \*         ELSE IF _TETrace[s].typ # _TETrace[s-1].typ
        \*             THEN 1 + F[s-1] ELSE F[s-1]
        \*     IN F[_TEPosition - 1]
    ]

=============================================================================



Parsing and semantic processing can take forever if the trace below is long.
 In this case, it is advised to uncomment the module below to deserialize the
 trace from a generated binary file.

\*
\*---- MODULE MCHandshake_TETrace ----
\*EXTENDS IOUtils, TLC, MCHandshake
\*
\*trace == IODeserialize("MCHandshake_TTrace_1790658341.bin", TRUE)
\*
\*=============================================================================
\*

---- MODULE MCHandshake_TETrace ----
EXTENDS TLC, MCHandshake

trace == 
    <<
    ([accAt |-> <<-1, -1>>,cache |-> -1,pc |-> <<"idle", "idle">>,found |-> <<FALSE, FALSE>>,sched |-> <<>>,now |-> 0,lock |-> 0,typ |-> 0,chkAt |-> <<-1, -1>>,ts |-> 1]),
    ([accAt |-> <<-1, -1>>,cache |-> -1,pc |-> <<"idle", "checkLocked">>,found |-> <<FALSE, FALSE>>,sched |-> <<<<2, "CheckAcquire", 0>>>>,now |-> 0,lock |-> 2,typ |-> 0,chkAt |-> <<-1, -1>>,ts |-> 1]),
    ([accAt |-> <<-1, -1>>,cache |-> -1,pc |-> <<"idle", "checked">>,found |-> <<FALSE, FALSE>>,sched |-> <<<<2, "CheckAcquire", 0>>, <<2, "CheckBody", 0>>>>,now |-> 0,lock |-> 0,typ |-> 0,chkAt |-> <<-1, -1>>,ts |-> 1]),
    ([accAt |-> <<-1, -1>>,cache |-> -1,pc |-> <<"idle", "opened">>,found |-> <<FALSE, FALSE>>,sched |-> <<<<2, "CheckAcquire", 0>>, <<2, "CheckBody", 0>>, <<2, "Open", 0>>>>,now |-> 0,lock |-> 0,typ |-> 0,chkAt |-> <<-1, 0>>,ts |-> 1]),
    ([accAt |-> <<-1, -1>>,cache |-> -1,pc |-> <<"idle", "setLocked">>,found |-> <<FALSE, FALSE>>,sched |-> <<<<2, "CheckAcquire", 0>>, <<2, "CheckBody", 0>>, <<2, "Open", 0>>, <<2, "SetAcquire", 0>>>>,now |-> 0,lock |-> 2,typ |-> 0,chkAt |-> <<-1, 0>>,ts |-> 1]),
    ([accAt |-> <<-1, 0>>,cache |-> 0,pc |-> <<"idle", "accepted">>,found |-> <<FALSE, FALSE>>,sched |-> <<<<2, "CheckAcquire", 0>>, <<2, "CheckBody", 0>>, <<2, "Open", 0>>, <<2, "SetAcquire", 0>>, <<2, "SetBody", 0>>>>,now |-> 0,lock |-> 0,typ |-> 0,chkAt |-> <<-1, 0>>,ts |-> 1]),
    ([accAt |-> <<-1, 0>>,cache |-> 0,pc |-> <<"idle", "accepted">>,found |-> <<FALSE, FALSE>>,sched |-> <<<<2, "CheckAcquire", 0>>, <<2, "CheckBody", 0>>, <<2, "Open", 0>>, <<2, "SetAcquire", 0>>, <<2, "SetBody", 0>>, <<0, "Tick", 0>>>>,now |-> 1,lock |-> 0,typ |-> 0,chkAt |-> <<-1, 0>>,ts |-> 1]),
    ([accAt |-> <<-1, 0>>,cache |-> 0,pc |-> <<"idle", "accepted">>,found |-> <<FALSE, FALSE>>,sched |-> <<<<2, "CheckAcquire", 0>>, <<2, "CheckBody", 0>>, <<2, "Open", 0>>, <<2, "SetAcquire", 0>>, <<2, "SetBody", 0>>, <<0, "Tick", 0>>, <<0, "Tick", 1>>>>,now |-> 2,lock |-> 0,typ |-> 0,chkAt |-> <<-1, 0>>,ts |-> 1]),
    ([accAt |-> <<-1, 0>>,cache |-> 0,pc |-> <<"idle", "accepted">>,found |-> <<FALSE, FALSE>>,sched |-> <<<<2, "CheckAcquire", 0>>, <<2, "CheckBody", 0>>, <<2, "Open", 0>>, <<2, "SetAcquire", 0>>, <<2, "SetBody", 0>>, <<0, "Tick", 0>>, <<0, "Tick", 1>>, <<0, "Tick", 2>>>>,now |-> 3,lock |-> 0,typ |-> 0,chkAt |-> <<-1, 0>>,ts |-> 1]),
    ([accAt |-> <<-1, 0>>,cache |-> 0,pc |-> <<"checkLocked", "accepted">>,found |-> <<FALSE, FALSE>>,sched |-> <<<<2, "CheckAcquire", 0>>, <<2, "CheckBody", 0>>, <<2, "Open", 0>>, <<2, "SetAcquire", 0>>, <<2, "SetBody", 0>>, <<0, "Tick", 0>>, <<0, "Tick", 1>>, <<0, "Tick", 2>>, <<1, "CheckAcquire", 3>>>>,now |-> 3,lock |-> 1,typ |-> 0,chkAt |-> <<-1, 0>>,ts |-> 1]),
    ([accAt |-> <<-1, 0>>,cache |-> 0,pc |-> <<"checked", "accepted">>,found |-> <<FALSE, FALSE>>,sched |-> <<<<2, "CheckAcquire", 0>>, <<2, "CheckBody", 0>>, <<2, "Open", 0>>, <<2, "SetAcquire", 0>>, <<2, "SetBody", 0>>, <<0, "Tick", 0>>, <<0, "Tick", 1>>, <<0, "Tick", 2>>, <<1, "CheckAcquire", 3>>, <<1, "CheckBody", 3>>>>,now |-> 3,lock |-> 0,typ |-> 0,chkAt |-> <<-1, 0>>,ts |-> 1]),
    ([accAt |-> <<-1, 0>>,cache |-> 0,pc |-> <<"opened", "accepted">>,found |-> <<FALSE, FALSE>>,sched |-> <<<<2, "CheckAcquire", 0>>, <<2, "CheckBody", 0>>, <<2, "Open", 0>>, <<2, "SetAcquire", 0>>, <<2, "SetBody", 0>>, <<0, "Tick", 0>>, <<0, "Tick", 1>>, <<0, "Tick", 2>>, <<1, "CheckAcquire", 3>>, <<1, "CheckBody", 3>>, <<1, "Open", 3>>>>,now |-> 3,lock |-> 0,typ |-> 0,chkAt |-> <<3, 0>>,ts |-> 1]),
    ([accAt |-> <<-1, 0>>,cache |-> 0,pc |-> <<"setLocked", "accepted">>,found |-> <<FALSE, FALSE>>,sched |-> <<<<2, "CheckAcquire", 0>>, <<2, "CheckBody", 0>>, <<2, "Open", 0>>, <<2, "SetAcquire", 0>>, <<2, "SetBody", 0>>, <<0, "Tick", 0>>, <<0, "Tick", 1>>, <<0, "Tick", 2>>, <<1, "CheckAcquire", 3>>, <<1, "CheckBody", 3>>, <<1, "Open", 3>>, <<1, "SetAcquire", 3>>>>,now |-> 3,lock |-> 1,typ |-> 0,chkAt |-> <<3, 0>>,ts |-> 1]),
    ([accAt |-> <<3, 0>>,cache |-> 3,pc |-> <<"accepted", "accepted">>,found |-> <<FALSE, FALSE>>,sched |-> <<<<2, "CheckAcquire", 0>>, <<2, "CheckBody", 0>>, <<2, "Open", 0>>, <<2, "SetAcquire", 0>>, <<2, "SetBody", 0>>, <<0, "Tick", 0>>, <<0, "Tick", 1>>, <<0, "Tick", 2>>, <<1, "CheckAcquire", 3>>, <<1, "CheckBody", 3>>, <<1, "Open", 3>>, <<1, "SetAcquire", 3>>, <<1, "SetBody", 3>>>>,now |-> 3,lock |-> 0,typ |-> 0,chkAt |-> <<3, 0>>,ts |-> 1])
    >>
----


=============================================================================

---- CONFIG MCHandshake_TTrace_1790658341 ----
CONSTANTS
    Win = 2
    Conns = { 1 , 2 }
    MaxNow = 6
    DTS <- DTSScaled
    Types = { 0 , 1 , 2 }
    Dev = { "ShortTtl" }
    Sequential = FALSE

INVARIANT
    _inv

CHECK_DEADLOCK
    \* CHECK_DEADLOCK off because of PROPERTY or INVARIANT above.
    FALSE

INIT
    _init

NEXT
    _next

CONSTANT
    _TETrace <- _trace

ALIAS
    _expression
=============================================================================
\* Generated on Tue Sep 29 05:05:43 UTC 2026