--------------------------- MODULE LocalHandshake ---------------------------
(* C13 (and the local side of C07) — the client's local port: sniffing the first byte, then a SOCKS5
   no-auth handshake, an HTTP CONNECT, or a plain absolute-URI HTTP request, in the shape of
   client/handshake.rs + protocol/socks5/{handshake,codec}.rs.

   The application follows its protocol: it writes one message (in any segmentation), waits for the
   proxy's reply where the protocol has one, then goes on.  A message is a number of bytes with two
   marks: `line` (end of the request line / of the part that must be complete before the proxy can
   act: SOCKS5 greeting or request = whole message) and `len` (end of the message = end of the
   header block).  The proxy sees `arr` bytes of the current message.

   Named deviations (Dev); Dev = {} is the design the property demands:
     "PeekOnce"  the sniffer decides on whatever the first peek returns: an incomplete request line
                 is answered 414 / "unknown"                                             (D27)
     "ReadOnce"  after CONNECT one read of what happens to be there is taken for the rest of the
                 request: later header bytes leak into the tunnel                        (D21)
     "NoGuard"   SOCKS5 decoders read fields that have not arrived: panic                (D6)
     "UnwrapEof" end of stream inside the SOCKS5 handshake is unwrapped: panic           (D6)    *)
EXTENDS Integers, Sequences, FiniteSets, TLC

CONSTANTS Kind,      \* "socks5" | "connect" | "http" | "garbage"
          Msgs,      \* sequence of [line, len] : the application's handshake messages, in order
          WellFormed, \* FALSE: the (last) message names no usable target: must be refused
          Dev

VARIABLES m,         \* index of the message the application is sending (Len(Msgs)+1 = handshake sent)
          arr,       \* bytes of message m that have arrived at the proxy
          used,      \* bytes of message m the proxy has consumed
          replies,   \* number of replies the proxy has written
          st,        \* proxy: "sniff" "greet" "request" "connectRest" "tunnel" "refused" "panicked"
          leaked,    \* handshake bytes that ended up in the tunnel
          closed,    \* the application closed its side
          hist

vars == <<m, arr, used, replies, st, leaked, closed, hist>>
NM == Len(Msgs)
Cur == Msgs[m]

Init == m = 1 /\ arr = 0 /\ used = 0 /\ replies = 0 /\ st = "sniff" /\ leaked = 0 /\ closed = FALSE /\ hist = <<>>

Live == st \notin {"tunnel", "refused", "panicked"}

\* the application writes the next k bytes of its current message
Send(k) == /\ Live /\ ~closed /\ m <= NM /\ arr + k <= Cur.len
           \* protocol: a new message is only started after the reply to the previous one
           /\ (arr = 0 /\ m > 1) => replies >= m - 1
           /\ arr' = arr + k /\ hist' = Append(hist, k)
           /\ UNCHANGED <<m, used, replies, st, leaked, closed>>

Close == /\ Live /\ ~closed /\ closed' = TRUE /\ hist' = Append(hist, 0)
         /\ UNCHANGED <<m, arr, used, replies, st, leaked>>

Refuse == st' = "refused" /\ UNCHANGED <<m, arr, used, replies, leaked>>
Next1(s) == st' = s

\* first byte: SOCKS version 5 or something that is parsed as HTTP
Sniff ==
  /\ st = "sniff" /\ arr >= 1
  /\ CASE Kind = "socks5" -> st' = "greet" /\ UNCHANGED <<m, arr, used, replies, leaked>>
       [] Kind = "garbage" -> Refuse
       [] OTHER ->
            \* HTTP: the request line must be complete before method and target can be read
            IF arr < Cur.line
              THEN "PeekOnce" \in Dev /\ Refuse                    \* design: keep waiting (action disabled)
              ELSE IF ~WellFormed THEN Refuse
              ELSE IF Kind = "connect"
                     THEN st' = "connectRest" /\ UNCHANGED <<m, arr, used, replies, leaked>>
                     ELSE st' = "tunnel" /\ UNCHANGED <<m, arr, used, replies, leaked>>   \* plain HTTP: nothing consumed, no reply
  /\ UNCHANGED <<closed, hist>>

\* CONNECT: swallow the rest of the request (through the empty line), then answer 200
ConnectRest ==
  /\ st = "connectRest"
  /\ IF "ReadOnce" \in Dev
       THEN /\ arr > used \/ closed
            /\ used' = arr /\ leaked' = Cur.len - arr /\ replies' = replies + 1 /\ st' = "tunnel" /\ m' = NM + 1
            /\ UNCHANGED arr
       ELSE /\ arr = Cur.len
            /\ used' = arr /\ leaked' = 0 /\ replies' = replies + 1 /\ st' = "tunnel" /\ m' = NM + 1
            /\ UNCHANGED arr
  /\ UNCHANGED <<closed, hist>>

\* SOCKS5: a framed reader around a decoder; a message is decoded when it is complete
SocksStep(from, to) ==
  /\ st = from /\ arr > used
  /\ IF arr < Cur.len
       THEN /\ "NoGuard" \in Dev /\ st' = "panicked"              \* design: wait (action disabled)
            /\ UNCHANGED <<m, arr, used, replies, leaked>>
       ELSE IF ~WellFormed /\ m = NM
              THEN Refuse
              ELSE /\ replies' = replies + 1 /\ st' = to
                   /\ IF m < NM THEN m' = m + 1 /\ arr' = 0 /\ used' = 0 ELSE m' = NM + 1 /\ used' = arr /\ UNCHANGED arr
                   /\ UNCHANGED leaked
  /\ UNCHANGED <<closed, hist>>

Progress == Sniff \/ ConnectRest \/ SocksStep("greet", "request") \/ SocksStep("request", "tunnel")

\* the application went away and the proxy can do nothing more with what it has
SeeEof ==
  /\ Live /\ closed /\ ~ENABLED Progress
  /\ IF "UnwrapEof" \in Dev /\ st \in {"greet", "request"} THEN st' = "panicked" ELSE st' = "refused"
  /\ UNCHANGED <<m, arr, used, replies, leaked, closed, hist>>

Next == \/ \E k \in 1..8 : Send(k)
        \/ Close \/ Progress \/ SeeEof
Spec == Init /\ [][Next]_vars

\* ---------------------------------------------------------------------------------------------
NoPanic == st # "panicked"
\* a tunnel is only opened for a well-formed request, after exactly its handshake bytes
ConsumesExactly == st = "tunnel" => (leaked = 0 /\ WellFormed /\ Kind # "garbage")
RepliesPerProtocol == st = "tunnel" => replies = (CASE Kind = "socks5" -> 2 [] Kind = "connect" -> 1 [] OTHER -> 0)
\* a complete well-formed handshake is not refused
NotRefusedWhenValid == (st = "refused" /\ WellFormed /\ Kind # "garbage") => closed
\* once the whole handshake has arrived the proxy does not sit waiting (no stall)
NoStall == (Live /\ m = NM /\ arr = Cur.len /\ WellFormed /\ Kind # "garbage") => ENABLED Progress
=============================================================================
