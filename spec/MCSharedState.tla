--------------------------- MODULE MCSharedState ---------------------------
EXTENDS SharedState
\* key patterns: every call asks for the same entry / every call for its own / the i-th calls of all threads coincide
KeySame(t, i)     == 1
KeyDistinct(t, i) == 10 * t + i
KeyMixed(t, i)    == i
View == <<pc, op, lock, inside, cache, got, ins, corrupt>>     \* the history is an observation, not behaviour
=============================================================================
