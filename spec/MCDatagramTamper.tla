-------------------------- MODULE MCDatagramTamper --------------------------
EXTENDS DatagramTamper, Json
Export == state # "sent" =>
  PrintT("REPLAY " \o ToJson([kind |-> att.kind, op |-> att.op, unit |-> att.unit, uname |-> Units(att.kind)[att.unit],
                              expect |-> state]))
=============================================================================
