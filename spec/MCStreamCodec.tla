--------------------------- MODULE MCStreamCodec ---------------------------
(* Scaled layouts of every protocol/direction (field lengths shrunk to 1..3 bytes: decoders only
   compare lengths, so every cut class relative to a field boundary — at it, one byte in, one byte
   short — is still present), and the scenario export.                                           *)
EXTENDS StreamCodec, Json

F(n, l, p, g)  == [name |-> n, len |-> l, plain |-> p, group |-> g, raw |-> FALSE, dgram |-> FALSE]
Dg(l, p, g)    == [name |-> "dgram", len |-> l, plain |-> p, group |-> g, raw |-> FALSE, dgram |-> TRUE]
Raw(l, g)      == [name |-> "tail", len |-> l, plain |-> l, group |-> g, raw |-> TRUE, dgram |-> FALSE]

\* Shadowsocks legacy AEAD, either direction: salt | (len pay)*   (request: address in the first pay)
LSsLegacy == << F("salt",3,0,0), F("len",3,0,1), F("pay",3,2,2), F("len",3,0,3), F("pay",3,2,4), F("len",3,0,5), F("pay",2,1,6) >>
\* Shadowsocks 2022 request: salt [eih] fixed var | (len pay)*
LSs2022Req    == << F("salt",3,0,0), F("fixed",3,0,0), F("var",3,1,0), F("len",3,0,1), F("pay",3,2,2), F("len",3,0,3), F("pay",2,1,4) >>
LSs2022ReqEih == << F("salt",3,0,0), F("eih",2,0,0), F("fixed",3,0,0), F("var",3,1,0), F("len",3,0,1), F("pay",3,2,2), F("len",3,0,3), F("pay",2,1,4) >>
\* Shadowsocks 2022 response: salt fixed var | (len pay)*
LSs2022Resp   == << F("salt",3,0,0), F("fixed",3,0,0), F("var",3,2,0), F("len",3,0,1), F("pay",3,2,2), F("len",3,0,3), F("pay",2,1,4) >>
\* VMess request: authid hlen nonce hbody htag | (size body)*
LVmessReq  == << F("authid",3,0,0), F("hlen",2,0,0), F("nonce",1,0,0), F("hbody",3,0,0), F("htag",2,0,0),
                 F("size",2,0,1), F("body",3,2,2), F("size",2,0,3), F("body",3,2,4), F("size",2,0,5), F("body",3,1,6) >>
LVmessResp == << F("rlen",2,0,0), F("rhdr",3,0,0), F("size",2,0,1), F("body",3,2,2), F("size",2,0,3), F("body",3,2,4), F("size",2,0,5), F("body",3,1,6) >>
LVmessUdpReq  == << F("authid",3,0,0), F("hlen",2,0,0), F("nonce",1,0,0), F("hbody",3,0,0), F("htag",2,0,0), Dg(4,2,1), Dg(3,1,2), Dg(4,2,3) >>
LVmessUdpResp == << F("rlen",2,0,0), F("rhdr",3,0,0), Dg(4,2,1), Dg(3,1,2), Dg(4,2,3) >>
\* Trojan request: key crlf cmd atyp addr crlf | raw tail  (or datagrams)
LTrojanReq    == << F("key",3,0,0), F("crlf",2,0,0), F("cmd",1,0,0), F("atyp",1,0,0), F("addr",3,0,0), F("crlf2",2,0,0), Raw(7,1) >>
LTrojanUdpReq == << F("key",3,0,0), F("crlf",2,0,0), F("cmd",1,0,0), F("atyp",1,0,0), F("addr",3,0,0), F("crlf2",2,0,0), Dg(4,2,1), Dg(3,1,2), Dg(4,2,3) >>
LDgrams == << Dg(4,2,0), Dg(3,1,1), Dg(4,2,2) >>
LRaw    == << Raw(8,0) >>


\* every place an attacker may start tampering
WithTamper(L) == {[L EXCEPT !.badFrom = b] : b \in 1..(Len(L.fields) + 1)}
Lay_ss_legacy_req_framed == [fields |-> LSsLegacy, hs |-> 2, datagram |-> FALSE, exempt |-> 0, adapter |-> "framed", enc |-> TRUE, badFrom |-> 0, stop0 |-> FALSE]
Lay_ss_legacy_req_framed_S == {Lay_ss_legacy_req_framed}
Lay_ss_legacy_req_framed_T == WithTamper(Lay_ss_legacy_req_framed)
Lay_ss_legacy_req_ws == [fields |-> LSsLegacy, hs |-> 2, datagram |-> FALSE, exempt |-> 0, adapter |-> "ws", enc |-> TRUE, badFrom |-> 0, stop0 |-> FALSE]
Lay_ss_legacy_req_ws_S == {Lay_ss_legacy_req_ws}
Lay_ss_legacy_req_ws_T == WithTamper(Lay_ss_legacy_req_ws)
Lay_ss_legacy_resp_framed == [fields |-> LSsLegacy, hs |-> -1, datagram |-> FALSE, exempt |-> 0, adapter |-> "framed", enc |-> TRUE, badFrom |-> 0, stop0 |-> FALSE]
Lay_ss_legacy_resp_framed_S == {Lay_ss_legacy_resp_framed}
Lay_ss_legacy_resp_framed_T == WithTamper(Lay_ss_legacy_resp_framed)
Lay_ss_legacy_resp_ws == [fields |-> LSsLegacy, hs |-> -1, datagram |-> FALSE, exempt |-> 0, adapter |-> "ws", enc |-> TRUE, badFrom |-> 0, stop0 |-> FALSE]
Lay_ss_legacy_resp_ws_S == {Lay_ss_legacy_resp_ws}
Lay_ss_legacy_resp_ws_T == WithTamper(Lay_ss_legacy_resp_ws)
Lay_ss2022_req_framed == [fields |-> LSs2022Req, hs |-> 0, datagram |-> FALSE, exempt |-> 6, adapter |-> "framed", enc |-> TRUE, badFrom |-> 0, stop0 |-> TRUE]
Lay_ss2022_req_framed_S == {Lay_ss2022_req_framed}
Lay_ss2022_req_framed_T == WithTamper(Lay_ss2022_req_framed)
Lay_ss2022_req_ws == [fields |-> LSs2022Req, hs |-> 0, datagram |-> FALSE, exempt |-> 6, adapter |-> "ws", enc |-> TRUE, badFrom |-> 0, stop0 |-> TRUE]
Lay_ss2022_req_ws_S == {Lay_ss2022_req_ws}
Lay_ss2022_req_ws_T == WithTamper(Lay_ss2022_req_ws)
Lay_ss2022_req_eih_framed == [fields |-> LSs2022ReqEih, hs |-> 0, datagram |-> FALSE, exempt |-> 8, adapter |-> "framed", enc |-> TRUE, badFrom |-> 0, stop0 |-> TRUE]
Lay_ss2022_req_eih_framed_S == {Lay_ss2022_req_eih_framed}
Lay_ss2022_req_eih_framed_T == WithTamper(Lay_ss2022_req_eih_framed)
Lay_ss2022_req_eih_ws == [fields |-> LSs2022ReqEih, hs |-> 0, datagram |-> FALSE, exempt |-> 8, adapter |-> "ws", enc |-> TRUE, badFrom |-> 0, stop0 |-> TRUE]
Lay_ss2022_req_eih_ws_S == {Lay_ss2022_req_eih_ws}
Lay_ss2022_req_eih_ws_T == WithTamper(Lay_ss2022_req_eih_ws)
Lay_ss2022_resp_framed == [fields |-> LSs2022Resp, hs |-> -1, datagram |-> FALSE, exempt |-> 6, adapter |-> "framed", enc |-> TRUE, badFrom |-> 0, stop0 |-> TRUE]
Lay_ss2022_resp_framed_S == {Lay_ss2022_resp_framed}
Lay_ss2022_resp_framed_T == WithTamper(Lay_ss2022_resp_framed)
Lay_ss2022_resp_ws == [fields |-> LSs2022Resp, hs |-> -1, datagram |-> FALSE, exempt |-> 6, adapter |-> "ws", enc |-> TRUE, badFrom |-> 0, stop0 |-> TRUE]
Lay_ss2022_resp_ws_S == {Lay_ss2022_resp_ws}
Lay_ss2022_resp_ws_T == WithTamper(Lay_ss2022_resp_ws)
Lay_vmess_req_framed == [fields |-> LVmessReq, hs |-> 2, datagram |-> FALSE, exempt |-> 0, adapter |-> "framed", enc |-> TRUE, badFrom |-> 0, stop0 |-> FALSE]
Lay_vmess_req_framed_S == {Lay_vmess_req_framed}
Lay_vmess_req_framed_T == WithTamper(Lay_vmess_req_framed)
Lay_vmess_req_ws == [fields |-> LVmessReq, hs |-> 2, datagram |-> FALSE, exempt |-> 0, adapter |-> "ws", enc |-> TRUE, badFrom |-> 0, stop0 |-> FALSE]
Lay_vmess_req_ws_S == {Lay_vmess_req_ws}
Lay_vmess_req_ws_T == WithTamper(Lay_vmess_req_ws)
Lay_vmess_resp_framed == [fields |-> LVmessResp, hs |-> -1, datagram |-> FALSE, exempt |-> 0, adapter |-> "framed", enc |-> TRUE, badFrom |-> 0, stop0 |-> FALSE]
Lay_vmess_resp_framed_S == {Lay_vmess_resp_framed}
Lay_vmess_resp_framed_T == WithTamper(Lay_vmess_resp_framed)
Lay_vmess_resp_ws == [fields |-> LVmessResp, hs |-> -1, datagram |-> FALSE, exempt |-> 0, adapter |-> "ws", enc |-> TRUE, badFrom |-> 0, stop0 |-> FALSE]
Lay_vmess_resp_ws_S == {Lay_vmess_resp_ws}
Lay_vmess_resp_ws_T == WithTamper(Lay_vmess_resp_ws)
Lay_vmess_udp_req_framed == [fields |-> LVmessUdpReq, hs |-> -1, datagram |-> TRUE, exempt |-> 0, adapter |-> "framed", enc |-> TRUE, badFrom |-> 0, stop0 |-> FALSE]
Lay_vmess_udp_req_framed_S == {Lay_vmess_udp_req_framed}
Lay_vmess_udp_req_framed_T == WithTamper(Lay_vmess_udp_req_framed)
Lay_vmess_udp_req_ws == [fields |-> LVmessUdpReq, hs |-> -1, datagram |-> TRUE, exempt |-> 0, adapter |-> "ws", enc |-> TRUE, badFrom |-> 0, stop0 |-> FALSE]
Lay_vmess_udp_req_ws_S == {Lay_vmess_udp_req_ws}
Lay_vmess_udp_req_ws_T == WithTamper(Lay_vmess_udp_req_ws)
Lay_vmess_udp_resp_framed == [fields |-> LVmessUdpResp, hs |-> -1, datagram |-> TRUE, exempt |-> 0, adapter |-> "framed", enc |-> TRUE, badFrom |-> 0, stop0 |-> FALSE]
Lay_vmess_udp_resp_framed_S == {Lay_vmess_udp_resp_framed}
Lay_vmess_udp_resp_framed_T == WithTamper(Lay_vmess_udp_resp_framed)
Lay_vmess_udp_resp_ws == [fields |-> LVmessUdpResp, hs |-> -1, datagram |-> TRUE, exempt |-> 0, adapter |-> "ws", enc |-> TRUE, badFrom |-> 0, stop0 |-> FALSE]
Lay_vmess_udp_resp_ws_S == {Lay_vmess_udp_resp_ws}
Lay_vmess_udp_resp_ws_T == WithTamper(Lay_vmess_udp_resp_ws)
Lay_trojan_req_framed == [fields |-> LTrojanReq, hs |-> 0, datagram |-> FALSE, exempt |-> 0, adapter |-> "framed", enc |-> FALSE, badFrom |-> 0, stop0 |-> FALSE]
Lay_trojan_req_framed_S == {Lay_trojan_req_framed}
Lay_trojan_req_framed_T == WithTamper(Lay_trojan_req_framed)
Lay_trojan_req_ws == [fields |-> LTrojanReq, hs |-> 0, datagram |-> FALSE, exempt |-> 0, adapter |-> "ws", enc |-> FALSE, badFrom |-> 0, stop0 |-> FALSE]
Lay_trojan_req_ws_S == {Lay_trojan_req_ws}
Lay_trojan_req_ws_T == WithTamper(Lay_trojan_req_ws)
Lay_trojan_udp_req_framed == [fields |-> LTrojanUdpReq, hs |-> -1, datagram |-> TRUE, exempt |-> 0, adapter |-> "framed", enc |-> FALSE, badFrom |-> 0, stop0 |-> FALSE]
Lay_trojan_udp_req_framed_S == {Lay_trojan_udp_req_framed}
Lay_trojan_udp_req_framed_T == WithTamper(Lay_trojan_udp_req_framed)
Lay_trojan_udp_req_ws == [fields |-> LTrojanUdpReq, hs |-> -1, datagram |-> TRUE, exempt |-> 0, adapter |-> "ws", enc |-> FALSE, badFrom |-> 0, stop0 |-> FALSE]
Lay_trojan_udp_req_ws_S == {Lay_trojan_udp_req_ws}
Lay_trojan_udp_req_ws_T == WithTamper(Lay_trojan_udp_req_ws)
Lay_dgrams_framed == [fields |-> LDgrams, hs |-> -1, datagram |-> TRUE, exempt |-> 0, adapter |-> "framed", enc |-> FALSE, badFrom |-> 0, stop0 |-> FALSE]
Lay_dgrams_framed_S == {Lay_dgrams_framed}
Lay_dgrams_framed_T == WithTamper(Lay_dgrams_framed)
Lay_dgrams_ws == [fields |-> LDgrams, hs |-> -1, datagram |-> TRUE, exempt |-> 0, adapter |-> "ws", enc |-> FALSE, badFrom |-> 0, stop0 |-> FALSE]
Lay_dgrams_ws_S == {Lay_dgrams_ws}
Lay_dgrams_ws_T == WithTamper(Lay_dgrams_ws)
Lay_raw_framed == [fields |-> LRaw, hs |-> -1, datagram |-> FALSE, exempt |-> 0, adapter |-> "framed", enc |-> FALSE, badFrom |-> 0, stop0 |-> FALSE]
Lay_raw_framed_S == {Lay_raw_framed}
Lay_raw_framed_T == WithTamper(Lay_raw_framed)
Lay_raw_ws == [fields |-> LRaw, hs |-> -1, datagram |-> FALSE, exempt |-> 0, adapter |-> "ws", enc |-> FALSE, badFrom |-> 0, stop0 |-> FALSE]
Lay_raw_ws_S == {Lay_raw_ws}
Lay_raw_ws_T == WithTamper(Lay_raw_ws)

Cuts == LET h == SelectSeq(hist, LAMBDA x : x > 0) IN [i \in 1..Len(h) |-> LET RECURSIVE S(_) S(j) == IF j = 0 THEN 0 ELSE h[j] + S(j - 1) IN S(i)]
AtEnd == (arrived = Total /\ ~readable /\ ~Dead /\ BadFrom = 0) \/ (Dead /\ ~readable) \/ (BadFrom > 0 /\ arrived = Total /\ ~readable)
Export(name) ==
  AtEnd =>
     PrintT("REPLAY " \o ToJson([layout |-> name, adapter |-> Adapter,
                                 fields |-> [i \in 1..NF |-> [name |-> Fields[i].name, len |-> Fields[i].len]],
                                 cuts |-> Cuts, eof |-> eof, badFrom |-> BadFrom,
                                 expect |-> [plain |-> plain, items |-> items, connect |-> connect, failed |-> failed, ended |-> ended]]))
Export_ss_legacy_req == Export("ss-legacy-req")
Export_ss_legacy_resp == Export("ss-legacy-resp")
Export_ss2022_req == Export("ss2022-req")
Export_ss2022_req_eih == Export("ss2022-req-eih")
Export_ss2022_resp == Export("ss2022-resp")
Export_vmess_req == Export("vmess-req")
Export_vmess_resp == Export("vmess-resp")
Export_vmess_udp_req == Export("vmess-udp-req")
Export_vmess_udp_resp == Export("vmess-udp-resp")
Export_trojan_req == Export("trojan-req")
Export_trojan_udp_req == Export("trojan-udp-req")
Export_dgrams == Export("dgrams")
Export_raw == Export("raw")
ExportInv == Export("x")
NoHist == <<lay, arrived, buf, nf, rawTaken, readable, plain, items, connect, lost, failed, panicked, eof, ended, firstRead>>
=============================================================================
