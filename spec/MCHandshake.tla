---------------------------- MODULE MCHandshake ----------------------------
(* TLC-only wrapper of Handshake: constant sets that a .cfg cannot express (negative numbers),
   constraints, and the scenario export (one REPLAY line per complete behaviour).               *)
EXTENDS Handshake, Json

DTSScaled == (-(Win + 1)) .. (Win + 1)
DTSReal   == {-31, -30, -1, 0, 1, 30, 31}

AllDone == \A c \in Conns : Done(c)

Verdict(c) == IF pc[c] = "accepted" THEN "accept" ELSE "reject"

\* export for the sequential / timed scenarios: request parameters, time of each presentation, verdicts
ExportSeq ==
  (AllDone /\ sched[Len(sched)][2] # "Tick") => PrintT("REPLAY " \o ToJson(
     [k |-> "seq", dts |-> ts, typ |-> typ,
      at |-> [c \in Conns |-> (CHOOSE i \in 1..Len(sched) : sched[i][1] = c /\ sched[i][2] \in {"CheckAcquire", "CheckBusy"} ) ],
      times |-> [c \in Conns |-> sched[CHOOSE i \in 1..Len(sched) : sched[i][1] = c /\ sched[i][2] \in {"CheckAcquire", "CheckBusy"}][3]],
      expect |-> [c \in Conns |-> Verdict(c)]]))

\* export for the concurrent scenarios: the interleaving and the number of acceptances
ExportConc ==
  (AllDone /\ sched[Len(sched)][2] # "Tick") => PrintT("REPLAY " \o ToJson(
     [k |-> "conc", n |-> Cardinality(Conns),
      sched |-> [i \in 1..Len(sched) |-> <<sched[i][1], sched[i][2]>>],
      expect |-> Cardinality(Accepted)]))

\* hide the history in the exhaustive runs
NoHist == <<now, ts, typ, cache, lock, pc, found, accAt, chkAt>>
=============================================================================
