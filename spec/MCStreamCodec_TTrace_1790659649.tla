---- MODULE MCStreamCodec_TTrace_1790659649 ----
EXTENDS Sequences, TLCExt, MCStreamCodec, Toolbox, Naturals, TLC

_expression ==
    LET MCStreamCodec_TEExpression == INSTANCE MCStreamCodec_TEExpression
    IN MCStreamCodec_TEExpression!expression
----

_trace ==
    LET MCStreamCodec_TETrace == INSTANCE MCStreamCodec_TETrace
    IN MCStreamCodec_TETrace!trace
----

_inv ==
    ~(
        TLCGet("level") = Len(_TETrace)
        /\
        readable = (FALSE)
        /\
        firstRead = (1)
        /\
        failed = (FALSE)
        /\
        arrived = (1)
        /\
        hist = (<<1>>)
        /\
        buf = (1)
        /\
        plain = (0)
        /\
        lost = (FALSE)
        /\
        nf = (1)
        /\
        panicked = (TRUE)
        /\
        items = (0)
        /\
        connect = (FALSE)
        /\
        rawTaken = (0)
    )
----

_init ==
    /\ items = _TETrace[1].items
    /\ readable = _TETrace[1].readable
    /\ nf = _TETrace[1].nf
    /\ panicked = _TETrace[1].panicked
    /\ plain = _TETrace[1].plain
    /\ hist = _TETrace[1].hist
    /\ connect = _TETrace[1].connect
    /\ buf = _TETrace[1].buf
    /\ firstRead = _TETrace[1].firstRead
    /\ arrived = _TETrace[1].arrived
    /\ lost = _TETrace[1].lost
    /\ failed = _TETrace[1].failed
    /\ rawTaken = _TETrace[1].rawTaken
----

_next ==
    /\ \E i,j \in DOMAIN _TETrace:
        /\ \/ /\ j = i + 1
              /\ i = TLCGet("level")
        /\ items  = _TETrace[i].items
        /\ items' = _TETrace[j].items
        /\ readable  = _TETrace[i].readable
        /\ readable' = _TETrace[j].readable
        /\ nf  = _TETrace[i].nf
        /\ nf' = _TETrace[j].nf
        /\ panicked  = _TETrace[i].panicked
        /\ panicked' = _TETrace[j].panicked
        /\ plain  = _TETrace[i].plain
        /\ plain' = _TETrace[j].plain
        /\ hist  = _TETrace[i].hist
        /\ hist' = _TETrace[j].hist
        /\ connect  = _TETrace[i].connect
        /\ connect' = _TETrace[j].connect
        /\ buf  = _TETrace[i].buf
        /\ buf' = _TETrace[j].buf
        /\ firstRead  = _TETrace[i].firstRead
        /\ firstRead' = _TETrace[j].firstRead
        /\ arrived  = _TETrace[i].arrived
        /\ arrived' = _TETrace[j].arrived
        /\ lost  = _TETrace[i].lost
        /\ lost' = _TETrace[j].lost
        /\ failed  = _TETrace[i].failed
        /\ failed' = _TETrace[j].failed
        /\ rawTaken  = _TETrace[i].rawTaken
        /\ rawTaken' = _TETrace[j].rawTaken

\* Uncomment the ASSUME below to write the states of the error trace
\* to the given file in Json format. Note that you can pass any tuple
\* to `JsonSerialize`. For example, a sub-sequence of _TETrace.
    \* ASSUME
    \*     LET J == INSTANCE Json
    \*         IN J!JsonSerialize("MCStreamCodec_TTrace_1790659649.json", _TETrace)

=============================================================================

 Note that you can extract this module `MCStreamCodec_TEExpression`
  to a dedicated file to reuse `expression` (the module in the 
  dedicated `MCStreamCodec_TEExpression.tla` file takes precedence 
  over the module `MCStreamCodec_TEExpression` below).

---- MODULE MCStreamCodec_TEExpression ----
EXTENDS Sequences, TLCExt, MCStreamCodec, Toolbox, Naturals, TLC

expression == 
    [
        \* To hide variables of the `MCStreamCodec` spec from the error trace,
        \* remove the variables below.  The trace will be written in the order
        \* of the fields of this record.
        items |-> items
        ,readable |-> readable
        ,nf |-> nf
        ,panicked |-> panicked
        ,plain |-> plain
        ,hist |-> hist
        ,connect |-> connect
        ,buf |-> buf
        ,firstRead |-> firstRead
        ,arrived |-> arrived
        ,lost |-> lost
        ,failed |-> failed
        ,rawTaken |-> rawTaken
        
        \* Put additional constant-, state-, and action-level expressions here:
        \* ,_stateNumber |-> _TEPosition
        \* ,_itemsUnchanged |-> items = items'
        
        \* Format the `items` variable as Json value.
        \* ,_itemsJson |->
        \*     LET J == INSTANCE Json
        \*     IN J!ToJson(items)
        
        \* Lastly, you may build expressions over arbitrary sets of states by
        \* leveraging the _TETrace operator.  For example, this is how to
        \* count the number of times a spec variable changed up to the current
        \* state in the trace.
        \* ,_itemsModCount |->
        \*     LET F[s \in DOMAIN _TETrace] ==
        \*         IF s = 1 THEN 0
        \*         ELSE IF _TETrace[s].items # _TETrace[s-1].items
        \*             THEN 1 + F[s-1] ELSE F[s-1]
        \*     IN F[_TEPosition - 1]
    ]

=============================================================================



Parsing and semantic processing can take forever if the trace below is long.
 In this case, it is advised to uncomment the module below to deserialize the
 trace from a generated binary file.

\*
\*---- MODULE MCStreamCodec_TETrace ----
\*EXTENDS IOUtils, MCStreamCodec, TLC
\*
\*trace == IODeserialize("MCStreamCodec_TTrace_1790659649.bin", TRUE)
\*
\*=============================================================================
\*

---- MODULE MCStreamCodec_TETrace ----
EXTENDS MCStreamCodec, TLC

trace == 
    <<
    ([readable |-> FALSE,firstRead |-> 0,failed |-> FALSE,arrived |-> 0,hist |-> <<>>,buf |-> 0,plain |-> 0,lost |-> FALSE,nf |-> 1,panicked |-> FALSE,items |-> 0,connect |-> FALSE,rawTaken |-> 0]),
    ([readable |-> TRUE,firstRead |-> 1,failed |-> FALSE,arrived |-> 1,hist |-> <<1>>,buf |-> 1,plain |-> 0,lost |-> FALSE,nf |-> 1,panicked |-> FALSE,items |-> 0,connect |-> FALSE,rawTaken |-> 0]),
    ([readable |-> FALSE,firstRead |-> 1,failed |-> FALSE,arrived |-> 1,hist |-> <<1>>,buf |-> 1,plain |-> 0,lost |-> FALSE,nf |-> 1,panicked |-> TRUE,items |-> 0,connect |-> FALSE,rawTaken |-> 0])
    >>
----


=============================================================================

---- CONFIG MCStreamCodec_TTrace_1790659649 ----
CONSTANTS
    Fields <- LTrojanUdpReq
    HsGroup <- NoHs
    Datagram = TRUE
    ExemptFirst = 0
    Adapter = "framed"
    ShortBy = 1
    Dev = { "NoGuard" }

INVARIANT
    _inv

CHECK_DEADLOCK
    \* CHECK_DEADLOCK off because of PROPERTY or INVARIANT above.
    FALSE

INIT
    _init

NEXT
    _next

CONSTANT
    _TETrace <- _trace

ALIAS
    _expression
=============================================================================
\* Generated on Tue Sep 29 05:27:30 UTC 2026