---- MODULE MCAuth_TTrace_1790665401 ----
EXTENDS Sequences, TLCExt, Toolbox, Naturals, TLC, MCAuth

_expression ==
    LET MCAuth_TEExpression == INSTANCE MCAuth_TEExpression
    IN MCAuth_TEExpression!expression
----

_trace ==
    LET MCAuth_TETrace == INSTANCE MCAuth_TETrace
    IN MCAuth_TETrace!trace
----

_inv ==
    ~(
        TLCGet("level") = Len(_TETrace)
        /\
        msg = ([cfg |-> "vmess", sk |-> "right", uk |-> "B", form |-> "whole"])
        /\
        replyKey = ("A")
        /\
        emitted = ("yes")
        /\
        authUser = ("A")
    )
----

_init ==
    /\ emitted = _TETrace[1].emitted
    /\ authUser = _TETrace[1].authUser
    /\ msg = _TETrace[1].msg
    /\ replyKey = _TETrace[1].replyKey
----

_next ==
    /\ \E i,j \in DOMAIN _TETrace:
        /\ \/ /\ j = i + 1
              /\ i = TLCGet("level")
        /\ emitted  = _TETrace[i].emitted
        /\ emitted' = _TETrace[j].emitted
        /\ authUser  = _TETrace[i].authUser
        /\ authUser' = _TETrace[j].authUser
        /\ msg  = _TETrace[i].msg
        /\ msg' = _TETrace[j].msg
        /\ replyKey  = _TETrace[i].replyKey
        /\ replyKey' = _TETrace[j].replyKey

\* Uncomment the ASSUME below to write the states of the error trace
\* to the given file in Json format. Note that you can pass any tuple
\* to `JsonSerialize`. For example, a sub-sequence of _TETrace.
    \* ASSUME
    \*     LET J == INSTANCE Json
    \*         IN J!JsonSerialize("MCAuth_TTrace_1790665401.json", _TETrace)

=============================================================================

 Note that you can extract this module `MCAuth_TEExpression`
  to a dedicated file to reuse `expression` (the module in the 
  dedicated `MCAuth_TEExpression.tla` file takes precedence 
  over the module `MCAuth_TEExpression` below).

---- MODULE MCAuth_TEExpression ----
EXTENDS Sequences, TLCExt, Toolbox, Naturals, TLC, MCAuth

expression == 
    [
        \* To hide variables of the `MCAuth` spec from the error trace,
        \* remove the variables below.  The trace will be written in the order
        \* of the fields of this record.
        emitted |-> emitted
        ,authUser |-> authUser
        ,msg |-> msg
        ,replyKey |-> replyKey
        
        \* Put additional constant-, state-, and action-level expressions here:
        \* ,_stateNumber |-> _TEPosition
        \* ,_emittedUnchanged |-> emitted = emitted'
        
        \* Format the `emitted` variable as Json value.
        \* ,_emittedJson |->
        \*     LET J == INSTANCE Json
        \*     IN J!ToJson(emitted)
        
        \* Lastly, you may build expressions over arbitrary sets of states by
        \* leveraging the _TETrace operator.  For example, this is how to
        \* count the number of times a spec variable changed up to the current
        \* state in the trace.
        \* ,_emittedModCount |->
        \*     LET F[s \in DOMAIN _TETrace] ==
        \*         IF s = 1 THEN 0
        \*         ELSE IF _TETrace[s].emitted # _TETrace[s-1].emitted
        \*             THEN 1 + F[s-1] ELSE F[s-1]
        \*     IN F[_TEPosition - 1]
    ]

=============================================================================



Parsing and semantic processing can take forever if the trace below is long.
 In this case, it is advised to uncomment the module below to deserialize the
 trace from a generated binary file.

\*
\*---- MODULE MCAuth_TETrace ----
\*EXTENDS IOUtils, TLC, MCAuth
\*
\*trace == IODeserialize("MCAuth_TTrace_1790665401.bin", TRUE)
\*
\*=============================================================================
\*

---- MODULE MCAuth_TETrace ----
EXTENDS TLC, MCAuth

trace == 
    <<
    ([msg |-> [cfg |-> "vmess", sk |-> "right", uk |-> "B", form |-> "whole"],replyKey |-> "none",emitted |-> "pending",authUser |-> "-"]),
    ([msg |-> [cfg |-> "vmess", sk |-> "right", uk |-> "B", form |-> "whole"],replyKey |-> "A",emitted |-> "yes",authUser |-> "A"])
    >>
----


=============================================================================

---- CONFIG MCAuth_TTrace_1790665401 ----
CONSTANTS
    Dev = { "FirstUser" }

INVARIANT
    _inv

CHECK_DEADLOCK
    \* CHECK_DEADLOCK off because of PROPERTY or INVARIANT above.
    FALSE

INIT
    _init

NEXT
    _next

CONSTANT
    _TETrace <- _trace

ALIAS
    _expression
=============================================================================
\* Generated on Tue Sep 29 07:03:22 UTC 2026