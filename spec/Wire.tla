-------------------------------- MODULE Wire --------------------------------
(* C12 / C03 — what a sender puts on the wire, as sessions of sealed units.
   A *session* (one direction of one connection, or one datagram) draws fresh randomness (salt,
   session id, VMess body key/IV, auth-id nonce) that selects its key, then seals units:
     stream    header units, then per chunk a length unit and a payload unit, all under ONE counter
               that starts at 0 and steps by one per sealed unit (Shadowsocks: 96-bit little endian;
               VMess: 16-bit big-endian count spliced into the IV, a separate counter for the
               authenticated-length cipher)
     datagram  one unit under (key, nonce) with nonce = packet id / fresh random
   `used` is the ledger of (key, nonce) pairs.  Limits: a payload unit carries at most MaxPayload.
   Deviations: "LenNoStep" the length unit does not advance the counter; "KeyReuse" a new session
   re-uses an earlier session's randomness; "IdStuck" the packet id is not advanced between
   datagrams; "OverLimit" a chunk exceeds the sender limit; "StampAtCreate" the timestamp a
   session's first unit carries is taken when the session object is created, not when it is sent.
   Time: `now` ticks (at most MaxIdle times); a session is `born` when its object is created (a
   connection is accepted / a local handshake ends) and may seal its first unit any time later;
   `stamp` is the timestamp on that first unit minus the clock at the moment it is sealed.        *)
EXTENDS Integers, Sequences, FiniteSets, TLC

CONSTANTS MaxSessions, MaxUnits, MaxPayload, Sizes, MaxIdle, Dev

VARIABLES sessions,   \* number of sessions started
          key,        \* key (an id) of the current session
          ctr,        \* next counter of the current session
          used,       \* ledger: set of <<key, nonce>>
          units,      \* units sealed in the current session
          phase,      \* "len" | "pay" : what the stream emits next
          clean,      \* FALSE once a pair was reused or a limit broken
          now, born,  \* clock; creation time of the current session object
          stamp       \* (timestamp on the current session's first unit) - (clock when it was sealed)

vars == <<sessions, key, ctr, used, units, phase, clean, now, born, stamp>>

Init == /\ sessions = 0 /\ key = 0 /\ ctr = 0 /\ used = {} /\ units = 0 /\ phase = "len" /\ clean = TRUE
        /\ now = 0 /\ born = 0 /\ stamp = 0

Tick == now < MaxIdle /\ now' = now + 1 /\ UNCHANGED <<sessions, key, ctr, used, units, phase, clean, born, stamp>>
\* the first unit of a session carries the timestamp
Stamped == stamp' = IF units = 0 THEN (IF "StampAtCreate" \in Dev THEN born ELSE now) - now ELSE stamp

NewSession ==
  /\ sessions < MaxSessions
  /\ sessions' = sessions + 1
  /\ key' = IF "KeyReuse" \in Dev /\ sessions > 0 THEN key ELSE sessions + 1     \* fresh randomness => fresh key
  /\ ctr' = 0 /\ units' = 0 /\ phase' = "len"
  /\ born' = now /\ stamp' = 0
  /\ UNCHANGED <<used, clean, now>>

Seal(n, size) ==
  /\ clean' = (clean /\ <<key, n>> \notin used /\ size <= MaxPayload)
  /\ used' = used \cup {<<key, n>>}

SealLen ==
  /\ sessions > 0 /\ units < MaxUnits /\ phase = "len"
  /\ Seal(ctr, 2)
  /\ ctr' = IF "LenNoStep" \in Dev THEN ctr ELSE ctr + 1
  /\ units' = units + 1 /\ phase' = "pay" /\ Stamped
  /\ UNCHANGED <<sessions, key, now, born>>

SealPay ==
  /\ sessions > 0 /\ units < MaxUnits /\ phase = "pay"
  /\ \E size \in Sizes :
       /\ (size <= MaxPayload \/ "OverLimit" \in Dev)
       /\ Seal(ctr, size)
  /\ ctr' = ctr + 1
  /\ units' = units + 1 /\ phase' = "len"
  /\ UNCHANGED <<sessions, key, now, born, stamp>>

\* a datagram session: one unit, nonce = packet id (ctr carries the id across datagrams of a UDP session)
SealDatagram ==
  /\ sessions > 0 /\ units < MaxUnits /\ phase = "len"
  /\ \E size \in Sizes : size <= MaxPayload /\ Seal(ctr, size)
  /\ ctr' = IF "IdStuck" \in Dev THEN ctr ELSE ctr + 1
  /\ units' = units + 1 /\ Stamped
  /\ UNCHANGED <<sessions, key, phase, now, born>>

Next == NewSession \/ SealLen \/ SealPay \/ SealDatagram \/ Tick
Spec == Init /\ [][Next]_vars

NoReuse == clean
SentFresh == stamp = 0
CountersAdvance == ctr = units \/ "LenNoStep" \in Dev \/ "IdStuck" \in Dev
=============================================================================
