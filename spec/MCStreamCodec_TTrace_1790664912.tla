---- MODULE MCStreamCodec_TTrace_1790664912 ----
EXTENDS Sequences, TLCExt, MCStreamCodec, Toolbox, Naturals, TLC

_expression ==
    LET MCStreamCodec_TEExpression == INSTANCE MCStreamCodec_TEExpression
    IN MCStreamCodec_TEExpression!expression
----

_trace ==
    LET MCStreamCodec_TETrace == INSTANCE MCStreamCodec_TETrace
    IN MCStreamCodec_TETrace!trace
----

_inv ==
    ~(
        TLCGet("level") = Len(_TETrace)
        /\
        readable = (FALSE)
        /\
        lay = ([badFrom |-> 1, fields |-> <<[name |-> "salt", len |-> 3, plain |-> 0, group |-> 0, raw |-> FALSE, dgram |-> FALSE], [name |-> "len", len |-> 3, plain |-> 0, group |-> 1, raw |-> FALSE, dgram |-> FALSE], [name |-> "pay", len |-> 3, plain |-> 2, group |-> 2, raw |-> FALSE, dgram |-> FALSE], [name |-> "len", len |-> 3, plain |-> 0, group |-> 3, raw |-> FALSE, dgram |-> FALSE], [name |-> "pay", len |-> 3, plain |-> 2, group |-> 4, raw |-> FALSE, dgram |-> FALSE], [name |-> "len", len |-> 3, plain |-> 0, group |-> 5, raw |-> FALSE, dgram |-> FALSE], [name |-> "pay", len |-> 2, plain |-> 1, group |-> 6, raw |-> FALSE, dgram |-> FALSE]>>, hs |-> -1, datagram |-> FALSE, exempt |-> 0, adapter |-> "ws", enc |-> TRUE, stop0 |-> FALSE])
        /\
        firstRead = (3)
        /\
        failed = (FALSE)
        /\
        arrived = (3)
        /\
        buf = (3)
        /\
        hist = (<<3>>)
        /\
        plain = (0)
        /\
        lost = (FALSE)
        /\
        panicked = (FALSE)
        /\
        nf = (1)
        /\
        ended = (FALSE)
        /\
        eof = (FALSE)
        /\
        items = (0)
        /\
        connect = (FALSE)
        /\
        rawTaken = (0)
    )
----

_init ==
    /\ connect = _TETrace[1].connect
    /\ panicked = _TETrace[1].panicked
    /\ eof = _TETrace[1].eof
    /\ arrived = _TETrace[1].arrived
    /\ lay = _TETrace[1].lay
    /\ plain = _TETrace[1].plain
    /\ firstRead = _TETrace[1].firstRead
    /\ rawTaken = _TETrace[1].rawTaken
    /\ nf = _TETrace[1].nf
    /\ buf = _TETrace[1].buf
    /\ lost = _TETrace[1].lost
    /\ failed = _TETrace[1].failed
    /\ hist = _TETrace[1].hist
    /\ readable = _TETrace[1].readable
    /\ items = _TETrace[1].items
    /\ ended = _TETrace[1].ended
----

_next ==
    /\ \E i,j \in DOMAIN _TETrace:
        /\ \/ /\ j = i + 1
              /\ i = TLCGet("level")
        /\ connect  = _TETrace[i].connect
        /\ connect' = _TETrace[j].connect
        /\ panicked  = _TETrace[i].panicked
        /\ panicked' = _TETrace[j].panicked
        /\ eof  = _TETrace[i].eof
        /\ eof' = _TETrace[j].eof
        /\ arrived  = _TETrace[i].arrived
        /\ arrived' = _TETrace[j].arrived
        /\ lay  = _TETrace[i].lay
        /\ lay' = _TETrace[j].lay
        /\ plain  = _TETrace[i].plain
        /\ plain' = _TETrace[j].plain
        /\ firstRead  = _TETrace[i].firstRead
        /\ firstRead' = _TETrace[j].firstRead
        /\ rawTaken  = _TETrace[i].rawTaken
        /\ rawTaken' = _TETrace[j].rawTaken
        /\ nf  = _TETrace[i].nf
        /\ nf' = _TETrace[j].nf
        /\ buf  = _TETrace[i].buf
        /\ buf' = _TETrace[j].buf
        /\ lost  = _TETrace[i].lost
        /\ lost' = _TETrace[j].lost
        /\ failed  = _TETrace[i].failed
        /\ failed' = _TETrace[j].failed
        /\ hist  = _TETrace[i].hist
        /\ hist' = _TETrace[j].hist
        /\ readable  = _TETrace[i].readable
        /\ readable' = _TETrace[j].readable
        /\ items  = _TETrace[i].items
        /\ items' = _TETrace[j].items
        /\ ended  = _TETrace[i].ended
        /\ ended' = _TETrace[j].ended

\* Uncomment the ASSUME below to write the states of the error trace
\* to the given file in Json format. Note that you can pass any tuple
\* to `JsonSerialize`. For example, a sub-sequence of _TETrace.
    \* ASSUME
    \*     LET J == INSTANCE Json
    \*         IN J!JsonSerialize("MCStreamCodec_TTrace_1790664912.json", _TETrace)

=============================================================================

 Note that you can extract this module `MCStreamCodec_TEExpression`
  to a dedicated file to reuse `expression` (the module in the 
  dedicated `MCStreamCodec_TEExpression.tla` file takes precedence 
  over the module `MCStreamCodec_TEExpression` below).

---- MODULE MCStreamCodec_TEExpression ----
EXTENDS Sequences, TLCExt, MCStreamCodec, Toolbox, Naturals, TLC

expression == 
    [
        \* To hide variables of the `MCStreamCodec` spec from the error trace,
        \* remove the variables below.  The trace will be written in the order
        \* of the fields of this record.
        connect |-> connect
        ,panicked |-> panicked
        ,eof |-> eof
        ,arrived |-> arrived
        ,lay |-> lay
        ,plain |-> plain
        ,firstRead |-> firstRead
        ,rawTaken |-> rawTaken
        ,nf |-> nf
        ,buf |-> buf
        ,lost |-> lost
        ,failed |-> failed
        ,hist |-> hist
        ,readable |-> readable
        ,items |-> items
        ,ended |-> ended
        
        \* Put additional constant-, state-, and action-level expressions here:
        \* ,_stateNumber |-> _TEPosition
        \* ,_connectUnchanged |-> connect = connect'
        
        \* Format the `connect` variable as Json value.
        \* ,_connectJson |->
        \*     LET J == INSTANCE Json
        \*     IN J!ToJson(connect)
        
        \* Lastly, you may build expressions over arbitrary sets of states by
        \* leveraging the _TETrace operator.  For example, this is how to
        \* count the number of times a spec variable changed up to the current
        \* state in the trace.
        \* ,_connectModCount |->
        \*     LET F[s \in DOMAIN _TETrace] ==
        \*         IF s = 1 THEN 0
        \*         ELSE IF _TETrace[s].connect # _TETrace[s-1].connect
        \*             THEN 1 + F[s-1] ELSE F[s-1]
        \*     IN F[_TEPosition - 1]
    ]

=============================================================================



Parsing and semantic processing can take forever if the trace below is long.
 In this case, it is advised to uncomment the module below to deserialize the
 trace from a generated binary file.

\*
\*---- MODULE MCStreamCodec_TETrace ----
\*EXTENDS IOUtils, MCStreamCodec, TLC
\*
\*trace == IODeserialize("MCStreamCodec_TTrace_1790664912.bin", TRUE)
\*
\*=============================================================================
\*

---- MODULE MCStreamCodec_TETrace ----
EXTENDS MCStreamCodec, TLC

trace == 
    <<
    ([readable |-> FALSE,lay |-> [badFrom |-> 1, fields |-> <<[name |-> "salt", len |-> 3, plain |-> 0, group |-> 0, raw |-> FALSE, dgram |-> FALSE], [name |-> "len", len |-> 3, plain |-> 0, group |-> 1, raw |-> FALSE, dgram |-> FALSE], [name |-> "pay", len |-> 3, plain |-> 2, group |-> 2, raw |-> FALSE, dgram |-> FALSE], [name |-> "len", len |-> 3, plain |-> 0, group |-> 3, raw |-> FALSE, dgram |-> FALSE], [name |-> "pay", len |-> 3, plain |-> 2, group |-> 4, raw |-> FALSE, dgram |-> FALSE], [name |-> "len", len |-> 3, plain |-> 0, group |-> 5, raw |-> FALSE, dgram |-> FALSE], [name |-> "pay", len |-> 2, plain |-> 1, group |-> 6, raw |-> FALSE, dgram |-> FALSE]>>, hs |-> -1, datagram |-> FALSE, exempt |-> 0, adapter |-> "ws", enc |-> TRUE, stop0 |-> FALSE],firstRead |-> 0,failed |-> FALSE,arrived |-> 0,buf |-> 0,hist |-> <<>>,plain |-> 0,lost |-> FALSE,panicked |-> FALSE,nf |-> 1,ended |-> FALSE,eof |-> FALSE,items |-> 0,connect |-> FALSE,rawTaken |-> 0]),
    ([readable |-> TRUE,lay |-> [badFrom |-> 1, fields |-> <<[name |-> "salt", len |-> 3, plain |-> 0, group |-> 0, raw |-> FALSE, dgram |-> FALSE], [name |-> "len", len |-> 3, plain |-> 0, group |-> 1, raw |-> FALSE, dgram |-> FALSE], [name |-> "pay", len |-> 3, plain |-> 2, group |-> 2, raw |-> FALSE, dgram |-> FALSE], [name |-> "len", len |-> 3, plain |-> 0, group |-> 3, raw |-> FALSE, dgram |-> FALSE], [name |-> "pay", len |-> 3, plain |-> 2, group |-> 4, raw |-> FALSE, dgram |-> FALSE], [name |-> "len", len |-> 3, plain |-> 0, group |-> 5, raw |-> FALSE, dgram |-> FALSE], [name |-> "pay", len |-> 2, plain |-> 1, group |-> 6, raw |-> FALSE, dgram |-> FALSE]>>, hs |-> -1, datagram |-> FALSE, exempt |-> 0, adapter |-> "ws", enc |-> TRUE, stop0 |-> FALSE],firstRead |-> 3,failed |-> FALSE,arrived |-> 3,buf |-> 3,hist |-> <<3>>,plain |-> 0,lost |-> FALSE,panicked |-> FALSE,nf |-> 1,ended |-> FALSE,eof |-> FALSE,items |-> 0,connect |-> FALSE,rawTaken |-> 0]),
    ([readable |-> FALSE,lay |-> [badFrom |-> 1, fields |-> <<[name |-> "salt", len |-> 3, plain |-> 0, group |-> 0, raw |-> FALSE, dgram |-> FALSE], [name |-> "len", len |-> 3, plain |-> 0, group |-> 1, raw |-> FALSE, dgram |-> FALSE], [name |-> "pay", len |-> 3, plain |-> 2, group |-> 2, raw |-> FALSE, dgram |-> FALSE], [name |-> "len", len |-> 3, plain |-> 0, group |-> 3, raw |-> FALSE, dgram |-> FALSE], [name |-> "pay", len |-> 3, plain |-> 2, group |-> 4, raw |-> FALSE, dgram |-> FALSE], [name |-> "len", len |-> 3, plain |-> 0, group |-> 5, raw |-> FALSE, dgram |-> FALSE], [name |-> "pay", len |-> 2, plain |-> 1, group |-> 6, raw |-> FALSE, dgram |-> FALSE]>>, hs |-> -1, datagram |-> FALSE, exempt |-> 0, adapter |-> "ws", enc |-> TRUE, stop0 |-> FALSE],firstRead |-> 3,failed |-> FALSE,arrived |-> 3,buf |-> 3,hist |-> <<3>>,plain |-> 0,lost |-> FALSE,panicked |-> FALSE,nf |-> 1,ended |-> FALSE,eof |-> FALSE,items |-> 0,connect |-> FALSE,rawTaken |-> 0])
    >>
----


=============================================================================

---- CONFIG MCStreamCodec_TTrace_1790664912 ----
CONSTANTS
    InitLayouts <- Lay_ss_legacy_resp_ws_T
    ShortBy = 1
    Slack = 2
    Dev = { "GoOnAfterErr" }

INVARIANT
    _inv

CHECK_DEADLOCK
    \* CHECK_DEADLOCK off because of PROPERTY or INVARIANT above.
    FALSE

INIT
    _init

NEXT
    _next

CONSTANT
    _TETrace <- _trace

ALIAS
    _expression
=============================================================================
\* Generated on Tue Sep 29 06:55:13 UTC 2026