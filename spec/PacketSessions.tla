--------------------------- MODULE PacketSessions ---------------------------
(* C11 at the receiving CLIENT: replies of one client session may come under several SERVER session ids - the server was
   restarted, or the client's association expired there (300 s) while the client's binding lives on (600 s).  Each server
   session numbers its datagrams from 1.  "Within a session ... an ID is accepted iff it has not been accepted before":
   the packet-id window is per server session.

     design   the client keeps a window (PacketWindow: seen, last) per server session id, for the latest Keep sessions
     deviations  "OneWindow"     one window for every server session (the tree before 3bfa916): the ids 1, 2, .. of a new
                                 server session are refused as already accepted
                 "ResetOnFlip"   one window that is wiped whenever the server session id differs from the previous
                                 reply's: alternating recorded datagrams of two sessions are accepted again and again

   TLC enumerates every history of (server session, packet id) presentations up to MaxLen and exports it with the verdict
   of each step; the histories are replayed on the real client datagram codec with replies made by the real server codec. *)
EXTENDS Integers, Sequences, FiniteSets, TLC, Json

CONSTANTS Sessions, Ids, W, Keep, MaxLen, Dev

VARIABLES win,      \* design: function from remembered server sessions to [seen, last]
          order,    \* design: remembered sessions, oldest first
          acc,      \* history: set of <<session, id>> accepted so far
          prev,     \* session of the previous presentation (ResetOnFlip)
          hist      \* exported history: sequence of [s, id, ok]
vars == <<win, order, acc, prev, hist>>

Fresh == [seen |-> {}, last |-> 0]
Init == win = <<>> /\ order = <<>> /\ acc = {} /\ prev = 0 /\ hist = <<>>

AcceptsIn(w, id) == id \notin w.seen /\ (id > w.last \/ w.last - id <= W)
Upd(w, id) == [seen |-> w.seen \cup {id}, last |-> IF id > w.last THEN id ELSE w.last]

\* which window a presentation is judged with, and the table afterwards
Present(s, id) ==
  /\ Len(hist) < MaxLen
  /\ LET key  == IF "OneWindow" \in Dev \/ "ResetOnFlip" \in Dev THEN 0 ELSE s
         known == key \in DOMAIN win
         w0   == IF known THEN win[key] ELSE Fresh
         w    == IF "ResetOnFlip" \in Dev /\ prev # 0 /\ prev # s THEN Fresh ELSE w0
         ok   == AcceptsIn(w, id)
         w1   == IF ok THEN Upd(w, id) ELSE w
         order1 == IF known THEN order ELSE Append(order, key)
         evict  == Len(order1) > Keep
         order2 == IF evict THEN Tail(order1) ELSE order1
         dom2   == {order2[i] : i \in 1..Len(order2)}
     IN /\ win' = [k \in dom2 |-> IF k = key THEN w1 ELSE win[k]]
        /\ order' = order2
        /\ acc' = IF ok THEN acc \cup {<<s, id>>} ELSE acc
        /\ hist' = Append(hist, [s |-> s, id |-> id, ok |-> ok])
        /\ prev' = s

Next == \E s \in Sessions, id \in Ids : Present(s, id)
Spec == Init /\ [][Next]_vars

\* ---- the property, over the history ----
Last(s, n) == LET ids == {hist[i].id : i \in {j \in 1..n : hist[j].s = s /\ hist[j].ok}} IN
              IF ids = {} THEN 0 ELSE CHOOSE m \in ids : \A x \in ids : x <= m
\* a session the client still remembers (at most Keep sessions have appeared): accepted iff new in ITS session and in ITS window
Remembered == Cardinality({hist[i].s : i \in 1..Len(hist)}) <= Keep
PerSessionIff ==
  Remembered =>
    \A n \in 1..Len(hist) :
      LET e == hist[n]
          before == {hist[i].id : i \in {j \in 1..(n - 1) : hist[j].s = e.s /\ hist[j].ok}}
          l == Last(e.s, n - 1)
      IN e.ok <=> (e.id \notin before /\ (e.id > l \/ l - e.id <= W))
AtMostOncePerSession ==
  Remembered => \A i, j \in 1..Len(hist) : (i < j /\ hist[i].ok /\ hist[j].ok /\ hist[i].s = hist[j].s) => hist[i].id # hist[j].id

Export == Len(hist) = MaxLen => PrintT("REPLAY " \o ToJson([hist |-> hist]))
=============================================================================
