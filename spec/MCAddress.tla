------------------------------ MODULE MCAddress ------------------------------
EXTENDS Address, Json
AllLens == 0..1024
Export == outcome # "pending" =>
  PrintT("REPLAY " \o ToJson([style |-> style, kind |-> a.kind, n |-> a.n, shape |-> a.shape, tail |-> tail, expect |-> outcome]))
=============================================================================
