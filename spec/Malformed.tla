------------------------------ MODULE Malformed ------------------------------
(* C07, content level: messages that pass every cryptographic check (they are built with the right
   key) or need none (Trojan after the password, local SOCKS5) but whose *content* is malformed.
   One decision per message: the decoder must refuse it (an error for that flow, or "need more
   input"), never panic.  The catalogue is the cross product below; `Applies` removes classes a
   decoder's format cannot express.  Deviation "Unchecked": a field is read without checking that
   it is there (anti-vacuity).                                                                   *)
EXTENDS Integers, FiniteSets, TLC

CONSTANTS Dev

Decoders == {"ss-legacy-req", "ss2022-req", "ss2022-resp", "ss2022-udp-c2s", "ss2022-udp-s2c", "ss-legacy-udp",
             "vmess-req-header", "vmess-req-body", "vmess-resp-header", "vmess-resp-body", "trojan-req", "trojan-udp-c2s", "trojan-udp-s2c", "socks5-udp-local"}

Classes == {"BadAddrType",           \* address type byte not one of the protocol's three
            "DomainBeyond",          \* domain length byte larger than what follows
            "AddrTruncated",         \* content ends inside the address
            "PaddingBeyond",         \* padding length larger than what follows
            "ShorterThanFixed",      \* content shorter than the fixed fields
            "Empty",                 \* no content at all
            "BadCommand",            \* command byte not supported
            "LenBeyond",             \* datagram length field larger than what follows
            "NonUtf8Domain",         \* domain bytes that are not UTF-8
            "ChunkShorterThanPadding", \* VMess body chunk: declared length smaller than the padding drawn for it (+ tag)
            "ChunkShorterThanTag",   \* VMess body chunk: declared length smaller than an authentication tag
            "ExtremeTimestamp",      \* Shadowsocks 2022: a well-sealed header whose 64-bit timestamp is 0, 2^63 - 1, 2^63 or 2^64 - 1;
                                     \* VMess: a well-formed request under an auth-id stamped at the ends of the signed 64-bit range
                                     \* or where its distance from the server's clock does not fit that range
            "UnusualOptions"}        \* VMess request header, well formed, with an option mask / security code the real client never
                                     \* sends (no option at all, unknown bits, unknown cipher code): the server may serve or refuse
                                     \* it, and writing its first answer for such a request is part of handling it

HasPadding(d) == d \in {"ss2022-req", "ss2022-udp-c2s", "ss2022-udp-s2c", "vmess-req-header"}
HasCommand(d) == d \in {"vmess-req-header", "trojan-req"}
HasLen(d)     == d \in {"trojan-udp-c2s", "trojan-udp-s2c"}
IsBody(d) == d \in {"vmess-req-body", "vmess-resp-body"}
Applies(d, c) == /\ (IsBody(d) <=> c \in {"ChunkShorterThanPadding", "ChunkShorterThanTag"})
                 /\ (c = "UnusualOptions" => d = "vmess-req-header")
                 /\ (c = "ExtremeTimestamp" <=> d \in {"ss2022-req", "ss2022-resp", "ss2022-udp-c2s", "ss2022-udp-s2c", "vmess-req-header"} /\ c = "ExtremeTimestamp")
                 /\ (d = "ss2022-resp" => c = "ExtremeTimestamp")
                 \* the response header is one sealed unit of four fixed bytes: it can only be too short
                 /\ (d = "vmess-resp-header" => c \in {"Empty", "ShorterThanFixed"})
                 \* the real client always asks for authenticated lengths, which count the bytes before the tag
                 /\ (c = "ChunkShorterThanTag" => d # "vmess-resp-body")
                 /\ (c = "PaddingBeyond" => HasPadding(d))
                 /\ (c = "BadCommand" => HasCommand(d))
                 /\ (c = "LenBeyond" => HasLen(d))
                 /\ (c = "ShorterThanFixed" => d \notin {"trojan-req", "ss-legacy-req", "ss-legacy-udp"})
                 /\ (c = "Empty" => d \notin {"trojan-req"})

Cases == {[dec |-> d, class |-> c] : d \in Decoders, c \in Classes}

VARIABLES case, outcome      \* outcome: "pending" | "refused" | "waits" | "panic" | "accepted"
Init == case \in {x \in Cases : Applies(x.dec, x.class)} /\ outcome = "pending"
\* On a decoder that reads from a byte stream (no authenticated frame around the content) content
\* that stops early may simply mean "the rest has not arrived yet"; an empty first chunk or an
\* empty datagram carries nothing to refuse.
StreamLike(d) == d \in {"trojan-req", "trojan-udp-c2s", "trojan-udp-s2c"}
MayWait(x) == \/ (StreamLike(x.dec) /\ x.class \in {"LenBeyond", "AddrTruncated", "DomainBeyond", "ShorterThanFixed", "Empty"})
              \/ (x.dec \in {"ss-legacy-req", "socks5-udp-local"} /\ x.class = "Empty")
              \* a served request whose first body chunk has not arrived in full simply waits for it
              \/ x.class = "UnusualOptions"
\* a domain that is not UTF-8 is still a name the resolver will refuse: accepting it as a target is allowed
MayAccept(x) == x.class \in {"NonUtf8Domain", "UnusualOptions"}
Judge == /\ outcome = "pending"
         /\ outcome' \in IF "Unchecked" \in Dev /\ case.class \in {"DomainBeyond", "PaddingBeyond", "ShorterThanFixed", "AddrTruncated"}
                           THEN {"panic"}
                         ELSE {"refused"} \cup (IF MayWait(case) THEN {"waits"} ELSE {}) \cup (IF MayAccept(case) THEN {"accepted"} ELSE {})
         /\ UNCHANGED case
Spec == Init /\ [][Judge]_<<case, outcome>>

NoPanic == outcome # "panic"
NothingMalformedAccepted == outcome = "accepted" => MayAccept(case)
=============================================================================
