---- MODULE Wire_TTrace_1790665617 ----
EXTENDS Sequences, TLCExt, Toolbox, Naturals, TLC, Wire

_expression ==
    LET Wire_TEExpression == INSTANCE Wire_TEExpression
    IN Wire_TEExpression!expression
----

_trace ==
    LET Wire_TETrace == INSTANCE Wire_TETrace
    IN Wire_TETrace!trace
----

_inv ==
    ~(
        TLCGet("level") = Len(_TETrace)
        /\
        ctr = (1)
        /\
        phase = ("pay")
        /\
        sessions = (2)
        /\
        used = ({<<1, 0>>})
        /\
        units = (1)
        /\
        clean = (FALSE)
        /\
        key = (1)
    )
----

_init ==
    /\ sessions = _TETrace[1].sessions
    /\ clean = _TETrace[1].clean
    /\ key = _TETrace[1].key
    /\ used = _TETrace[1].used
    /\ ctr = _TETrace[1].ctr
    /\ phase = _TETrace[1].phase
    /\ units = _TETrace[1].units
----

_next ==
    /\ \E i,j \in DOMAIN _TETrace:
        /\ \/ /\ j = i + 1
              /\ i = TLCGet("level")
        /\ sessions  = _TETrace[i].sessions
        /\ sessions' = _TETrace[j].sessions
        /\ clean  = _TETrace[i].clean
        /\ clean' = _TETrace[j].clean
        /\ key  = _TETrace[i].key
        /\ key' = _TETrace[j].key
        /\ used  = _TETrace[i].used
        /\ used' = _TETrace[j].used
        /\ ctr  = _TETrace[i].ctr
        /\ ctr' = _TETrace[j].ctr
        /\ phase  = _TETrace[i].phase
        /\ phase' = _TETrace[j].phase
        /\ units  = _TETrace[i].units
        /\ units' = _TETrace[j].units

\* Uncomment the ASSUME below to write the states of the error trace
\* to the given file in Json format. Note that you can pass any tuple
\* to `JsonSerialize`. For example, a sub-sequence of _TETrace.
    \* ASSUME
    \*     LET J == INSTANCE Json
    \*         IN J!JsonSerialize("Wire_TTrace_1790665617.json", _TETrace)

=============================================================================

 Note that you can extract this module `Wire_TEExpression`
  to a dedicated file to reuse `expression` (the module in the 
  dedicated `Wire_TEExpression.tla` file takes precedence 
  over the module `Wire_TEExpression` below).

---- MODULE Wire_TEExpression ----
EXTENDS Sequences, TLCExt, Toolbox, Naturals, TLC, Wire

expression == 
    [
        \* To hide variables of the `Wire` spec from the error trace,
        \* remove the variables below.  The trace will be written in the order
        \* of the fields of this record.
        sessions |-> sessions
        ,clean |-> clean
        ,key |-> key
        ,used |-> used
        ,ctr |-> ctr
        ,phase |-> phase
        ,units |-> units
        
        \* Put additional constant-, state-, and action-level expressions here:
        \* ,_stateNumber |-> _TEPosition
        \* ,_sessionsUnchanged |-> sessions = sessions'
        
        \* Format the `sessions` variable as Json value.
        \* ,_sessionsJson |->
        \*     LET J == INSTANCE Json
        \*     IN J!ToJson(sessions)
        
        \* Lastly, you may build expressions over arbitrary sets of states by
        \* leveraging the _TETrace operator.  For example, this is how to
        \* count the number of times a spec variable changed up to the current
        \* state in the trace.
        \* ,_sessionsModCount |->
        \*     LET F[s \in DOMAIN _TETrace] ==
        \*         IF s = 1 THEN 0
        \*         ELSE IF _TETrace[s].sessions # _TETrace[s-1].sessions
        \*             THEN 1 + F[s-1] ELSE F[s-1]
        \*     IN F[_TEPosition - 1]
    ]

=============================================================================



Parsing and semantic processing can take forever if the trace below is long.
 In this case, it is advised to uncomment the module below to deserialize the
 trace from a generated binary file.

\*
\*---- MODULE Wire_TETrace ----
\*EXTENDS IOUtils, TLC, Wire
\*
\*trace == IODeserialize("Wire_TTrace_1790665617.bin", TRUE)
\*
\*=============================================================================
\*

---- MODULE Wire_TETrace ----
EXTENDS TLC, Wire

trace == 
    <<
    ([ctr |-> 0,phase |-> "len",sessions |-> 0,used |-> {},units |-> 0,clean |-> TRUE,key |-> 0]),
    ([ctr |-> 0,phase |-> "len",sessions |-> 1,used |-> {},units |-> 0,clean |-> TRUE,key |-> 1]),
    ([ctr |-> 1,phase |-> "pay",sessions |-> 1,used |-> {<<1, 0>>},units |-> 1,clean |-> TRUE,key |-> 1]),
    ([ctr |-> 0,phase |-> "len",sessions |-> 2,used |-> {<<1, 0>>},units |-> 0,clean |-> TRUE,key |-> 1]),
    ([ctr |-> 1,phase |-> "pay",sessions |-> 2,used |-> {<<1, 0>>},units |-> 1,clean |-> FALSE,key |-> 1])
    >>
----


=============================================================================

---- CONFIG Wire_TTrace_1790665617 ----
CONSTANTS
    MaxSessions = 3
    MaxUnits = 5
    MaxPayload = 3
    Sizes = { 0 , 1 , 3 , 4 }
    Dev = { "KeyReuse" }

INVARIANT
    _inv

CHECK_DEADLOCK
    \* CHECK_DEADLOCK off because of PROPERTY or INVARIANT above.
    FALSE

INIT
    _init

NEXT
    _next

CONSTANT
    _TETrace <- _trace

ALIAS
    _expression
=============================================================================
\* Generated on Tue Sep 29 07:06:58 UTC 2026