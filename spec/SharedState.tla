---------------------------- MODULE SharedState ----------------------------
(* C09: state shared between flows.  This module is the process-wide DATAGRAM CIPHER CACHE of
   codec/shadowsocks/udp.rs (get_cipher): a map  (cipher kind, key, session id) -> AEAD instance  that every
   Shadowsocks 2022 datagram encode and decode of every task on every worker thread goes through.  (The other shared
   structure, the per-server salt cache, is Handshake.tla with its concurrent configurations; the tables owned by
   one task are UdpDesign.tla.)

   One call of get_cipher by thread t is four steps, shaped like the code:
     Call(t)     the codec is about to enter get_cipher               (schedule point cache.before)
     Acquire(t)  it has the cache to itself                            (inside the lock: region.enter)
     Body(t)     entry(key).or_insert_with(new cipher): a lookup that may restructure the map
                                                                       (still inside: region.exit comes next)
     Exit(t)     it leaves with a handle on the cipher, the cache is free again
     Use(t)      it seals / opens its datagram with what it got (outside the cache)
   With Dev = {} Acquire waits until nobody is inside.  "Unsynchronised" \in Dev is what the code used to do: the map
   was reached through a shared reference cast to a mutable one, with nothing between the threads; two threads inside
   at once while one of them restructures the map is a data race on a BTreeMap + VecDeque (corrupt).

   Invariants: MutexOnCache (at most one thread inside), NoCorruption, RightCipher (a call gets the instance for its
   own key); Termination as liveness.  Every complete behaviour is exported as a schedule for the replayer, which drives
   REAL threads through the REAL get_cipher with the sync-point controller.                                         *)
EXTENDS Naturals, Sequences, FiniteSets, TLC, Json

CONSTANTS Threads,      \* e.g. {1, 2}
          Ops,          \* calls per thread
          KeyOf(_, _),  \* KeyOf(t, i): the cache key the i-th call of thread t asks for
          Dev

VARIABLES pc, op, lock, inside, cache, got, ins, corrupt, hist
vars == <<pc, op, lock, inside, cache, got, ins, corrupt, hist>>

Sync == "Unsynchronised" \notin Dev
Want(t) == KeyOf(t, op[t] + 1)

Init == /\ pc = [t \in Threads |-> "idle"] /\ op = [t \in Threads |-> 0]
        /\ lock = 0 /\ inside = {} /\ cache = {} /\ got = [t \in Threads |-> 0]
        /\ ins = [t \in Threads |-> FALSE] /\ corrupt = FALSE /\ hist = <<>>

Call(t) == /\ pc[t] = "idle" /\ op[t] < Ops
           /\ pc' = [pc EXCEPT ![t] = "before"]
           /\ hist' = Append(hist, <<t, "Call">>)
           /\ UNCHANGED <<op, lock, inside, cache, got, ins, corrupt>>

CanAcquire(t) == Sync => lock = 0
AcquireEff(t) == /\ lock' = IF Sync THEN t ELSE lock
                 /\ inside' = inside \cup {t}
Acquire(t) == /\ pc[t] = "before"
              /\ CanAcquire(t) /\ AcquireEff(t)
              /\ pc' = [pc EXCEPT ![t] = "enter"]
              /\ hist' = Append(hist, <<t, "Acquire">>)
              /\ UNCHANGED <<op, cache, got, ins, corrupt>>

Body(t) == /\ pc[t] = "enter"
           /\ LET k == Want(t)
                  restructures == k \notin cache
              IN /\ cache' = cache \cup {k}
                 /\ got' = [got EXCEPT ![t] = k]
                 /\ ins' = [ins EXCEPT ![t] = restructures]
                 \* somebody else is in there too, and one of the two rewrites the map under the other
                 /\ corrupt' = (corrupt \/ \E u \in inside \ {t} : restructures \/ ins[u])
           /\ pc' = [pc EXCEPT ![t] = "exit"]
           /\ hist' = Append(hist, <<t, "Body">>)
           /\ UNCHANGED <<op, lock, inside>>

ExitEff(t) == /\ inside' = inside \ {t}
              /\ lock' = IF lock = t THEN 0 ELSE lock
Exit(t) == /\ pc[t] = "exit"
           /\ ExitEff(t)
           /\ ins' = [ins EXCEPT ![t] = FALSE]
           /\ pc' = [pc EXCEPT ![t] = "use"]
           /\ hist' = Append(hist, <<t, "Exit">>)
           /\ UNCHANGED <<op, cache, got, corrupt>>

Use(t) == /\ pc[t] = "use"
          /\ op' = [op EXCEPT ![t] = @ + 1]
          /\ pc' = [pc EXCEPT ![t] = IF op[t] + 1 = Ops THEN "done" ELSE "idle"]
          /\ hist' = Append(hist, <<t, "Use">>)
          /\ UNCHANGED <<lock, inside, cache, got, ins, corrupt>>

Next == \E t \in Threads : Call(t) \/ Acquire(t) \/ Body(t) \/ Exit(t) \/ Use(t)
Spec == Init /\ [][Next]_vars /\ WF_vars(Next)

AllDone == \A t \in Threads : pc[t] = "done"

MutexOnCache == Cardinality(inside) <= 1
NoCorruption == ~corrupt
RightCipher  == \A t \in Threads : pc[t] = "use" => got[t] = Want(t)
LockHeldInside == Sync => \A t \in Threads : (t \in inside) <=> (lock = t)
Termination  == <>AllDone

Export == AllDone => PrintT("REPLAY " \o ToJson([threads |-> Cardinality(Threads), ops |-> Ops,
                                                 keys |-> [t \in Threads |-> [i \in 1..Ops |-> KeyOf(t, i)]],
                                                 sched |-> hist]))
=============================================================================
