---------------------------- MODULE MCWireScripts ----------------------------
EXTENDS WireScripts, Json
Export == verdict # "pending" =>
  PrintT("REPLAY " \o ToJson([family |-> script.family, dir |-> script.dir, producer |-> script.producer, sizes |-> script.sizes, mask |-> script.mask, expect |-> verdict]))
=============================================================================
