----------------------------- MODULE WireScripts -----------------------------
(* C03 — the message scripts both implementations (the code under test and the reference codec written
   from the published specifications) must agree on: protocol family x direction x who encodes x
   write sizes around the sender limits x VMess option mask.  For every script: what one side encodes
   the other decodes to the same target address and the same payload, and no sealed unit carries
   more than the protocol's sender limit.  The outcome of a script is a single fact ("agree"), so
   the module is a catalogue with the limits spelled out; deviation "BigChunk" makes a sender exceed
   its limit (anti-vacuity).                                                                      *)
EXTENDS Integers, Sequences, FiniteSets, TLC

CONSTANTS Dev

\* "ss2022-eih2" / "ss2022-eih3": a client behind a relay chain, its password carries two / three identity keys (SIP023)
Families == {"ss-legacy", "ss2022", "ss2022-eih", "ss2022-eih2", "ss2022-eih3", "vmess", "vmess-udp", "trojan", "trojan-udp"}
Limit(f) == CASE f = "ss-legacy" -> 16383 [] f \in {"ss2022", "ss2022-eih", "ss2022-eih2", "ss2022-eih3"} -> 65535 [] f \in {"vmess", "vmess-udp"} -> 16384 [] OTHER -> 1048576
\* write sizes: tiny, just below / at / above the limit, several limits
SizeClasses(f) == IF f \in {"vmess-udp", "trojan-udp"} THEN {1, 1400, 8000}
                  ELSE {1, Limit(f) - 1, Limit(f), Limit(f) + 1, 3 * Limit(f) + 7} \cap 1..200000
Masks(f) == IF f \in {"vmess", "vmess-udp"} THEN {1, 5, 9, 13, 17, 21, 25, 29} ELSE {0}

ScriptsOf(f) == {[family |-> f, dir |-> d, producer |-> p, sizes |-> s, mask |-> m] :
                   d \in {"req", "resp"}, p \in {"real", "ref"},
                   s \in UNION {[1..n -> SizeClasses(f)] : n \in 1..2}, m \in Masks(f)}
Scripts == UNION {ScriptsOf(f) : f \in Families}
\* the real encoders only ever use the mask the client sets (29); other masks are reference-made requests
Sensible(s) == /\ (s.mask \notin {0, 29} => s.producer = "ref")
               \* the last hop of a relay chain is not this server: only what the real client sends is judged (by the reference)
               /\ (s.family \in {"ss2022-eih2", "ss2022-eih3"} => (s.dir = "req" /\ s.producer = "real" /\ Len(s.sizes) = 1))

MaxUnit(s) == LET big == CHOOSE x \in {s.sizes[i] : i \in 1..Len(s.sizes)} : \A y \in {s.sizes[i] : i \in 1..Len(s.sizes)} : x >= y
              IN IF "BigChunk" \in Dev THEN big ELSE IF big > Limit(s.family) THEN Limit(s.family) ELSE big

VARIABLES script, verdict
Init == script \in {s \in Scripts : Sensible(s)} /\ verdict = "pending"
Run == verdict = "pending" /\ verdict' = (IF MaxUnit(script) <= Limit(script.family) THEN "agree" ELSE "over-limit") /\ UNCHANGED script
Spec == Init /\ [][Run]_<<script, verdict>>
LimitsRespected == verdict # "over-limit"
=============================================================================
