---------------------------- MODULE MCHttpTarget ----------------------------
EXTENDS HttpTarget, Json
Export == verdict # "pending" =>
   PrintT("REPLAY " \o ToJson([method |-> t.method, uri |-> Uri(t), expect |-> Expected(t)]))
=============================================================================
