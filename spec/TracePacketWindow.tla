------------------------ MODULE TracePacketWindow ------------------------
(* impl -> spec for C11: a history recorded from the real PacketWindowFilter (offsets from a base,
   one world per file; the first line carries InitLast and Limit) must be a behaviour of the set
   model PacketWindow with the code's real window size.                                          *)
EXTENDS Integers, Sequences, FiniteSets, TLC, Json, IOUtils

Rec == ndJsonDeserialize(IOEnv.TRACE)

W == 8128
Limit == Rec[1].limit
InitLast == Rec[1].initlast
Ids == {}

VARIABLES seen, last, l

INSTANCE PacketWindow

tvars == <<seen, last, l>>

TraceInit == PWInit /\ l = 2          \* line 1 is the header

TraceValidate ==
  /\ l <= Len(Rec)
  /\ Rec[l].ev = "Validate"
  /\ Rec[l].ok = Accepts(Rec[l].off)          \* the real filter's verdict is the model's
  /\ Validate(Rec[l].off)
  /\ l' = l + 1

TraceNext == TraceValidate
TraceSpec == TraceInit /\ [][TraceNext]_tvars

Inv == SeenBelowLimit /\ SeenBelowLast

TraceAccepted ==
  LET d == TLCGet("stats").diameter IN
  IF d = Len(Rec) THEN PrintT(<<"TRACE-ACCEPTED", d - 1>>)
  ELSE PrintT(<<"TRACE-REJECTED", d - 1, "next unmatched event", Rec[d + 1]>>)
=============================================================================
