--------------------------- MODULE DatagramTamper ---------------------------
(* C05, datagrams: a Shadowsocks UDP packet is a short sequence of units
     legacy   : salt | sealed(address payload)
     2022-aes : block(session id, packet id) | [identity block] | sealed(type time .. address payload)
     2022-cha : nonce | sealed(session id, packet id, type time .. address payload)
   An attacker edits one packet on the wire (flip a bit of unit u, cut the packet short inside unit
   u, append bytes, exchange unit u with the same unit of another packet of the session, or send a
   packet of the opposite direction).  The receiver hands a datagram to the application or drops it.
   Deviation "NoTag": the body is released without checking its tag (anti-vacuity).               *)
EXTENDS Integers, Sequences, FiniteSets, TLC

CONSTANTS Kinds, Dev

Units(k) == CASE k = "legacy"   -> <<"salt", "body">>
              [] k = "2022-aes" -> <<"block", "body">>
              [] k = "2022-aes-eih" -> <<"block", "eih", "body">>
              [] k = "2022-cha" -> <<"nonce", "body">>

Ops == {"none", "flip", "cut", "append", "exchange", "reflect"}

Attacks == {[kind |-> k, op |-> o, unit |-> u] : k \in Kinds, o \in Ops, u \in 1..3} 

Valid(a) == a.unit <= Len(Units(a.kind)) /\ (a.op \in {"none", "append", "reflect"} => a.unit = 1)

\* under the ideal AEAD every edit breaks the tag (the salt / block / nonce select key or nonce);
\* the legacy format has no direction binding, so a reflected legacy packet is, by the protocol, valid
Opens(a) == \/ a.op = "none"
            \/ (a.op = "reflect" /\ a.kind = "legacy")
            \/ "NoTag" \in Dev

VARIABLES att, state   \* state: "sent" | "delivered" | "dropped"
Init == att \in {a \in Attacks : Valid(a)} /\ state = "sent"
Receive == state = "sent" /\ state' = (IF Opens(att) THEN "delivered" ELSE "dropped") /\ UNCHANGED att
Spec == Init /\ [][Receive]_<<att, state>>

\* a tampered datagram is dropped entirely (all or nothing)
OnlyUntouchedDelivered == state = "delivered" => (att.op = "none" \/ (att.op = "reflect" /\ att.kind = "legacy"))
UntouchedNotDropped    == state = "dropped" => att.op # "none"
=============================================================================
