--------------------------- MODULE PacketWindow ---------------------------
(* C11, abstract level: the anti-replay window of a Shadowsocks-2022 UDP session as a user sees it.
   An ID is accepted iff it is below the limit, has not been accepted before, and is not more than
   W behind the highest ID accepted so far.  `last` starts at InitLast: 0 for the real filter
   (last_packet_id = 0, nothing seen), or a value far below every ID when a trace is recorded as
   offsets from a large base (TLC integers are 32 bit). *)
EXTENDS Integers, FiniteSets, Sequences

CONSTANTS W,          \* window size (8128 in the code: (RING_BLOCKS-1) * BLOCK_BITS)
          Limit,      \* IDs >= Limit are always refused
          InitLast,   \* initial value of `last`
          Ids         \* the IDs the environment may present

VARIABLES seen,       \* set of IDs accepted so far
          last        \* highest ID accepted so far (InitLast if none)

pwVars == <<seen, last>>

Accepts(id) == /\ id < Limit
               /\ id \notin seen
               /\ (id > last \/ last - id <= W)

PWInit == seen = {} /\ last = InitLast

Validate(id) ==
  IF Accepts(id)
  THEN /\ seen' = seen \cup {id}
       /\ last' = IF id > last THEN id ELSE last
  ELSE UNCHANGED pwVars

PWNext == \E id \in Ids : Validate(id)

PWSpec == PWInit /\ [][PWNext]_pwVars

\* ---- properties of the abstract model itself (history-free forms) ----
SeenBelowLimit == \A id \in seen : id < Limit
SeenBelowLast  == \A id \in seen : id <= last
\* The at-most-once / in-window properties over the acceptance history are stated in MCPacketRing,
\* which carries the history variable `acc`.
=============================================================================
