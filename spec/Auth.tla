-------------------------------- MODULE Auth --------------------------------
(* C06 — who may make the server dial or forward, and under whose key it answers.
   Server configurations:
     "trojan"      one password                     "vmess"       registered user ids {A, B}
     "ss"          one pre-shared key               "ss-multi"    server key + registered user keys {A, B}
     "ss-udp", "ss-udp-multi"   the same two for datagrams
   A peer presents one message built from the keys it knows.  `sk` is the server-level secret it
   used ("right", "wrong", "onebit" = differs in one bit, "none" = no key at all: random bytes or
   another protocol's valid handshake), `uk` the user-level secret ("A", "B", "X" = not registered,
   "S" = the peer knows no user key at all and puts the server key in its place - a removed user, or
   anyone the server key leaked to - with an identity header that names nobody,
   "-" = the configuration has no users), `form` how much of a well-formed message it is.
   The server decides (`Decide`), possibly emits a connect / relay item attributed to a user, and
   seals its answer under some key.
   Deviations: "FirstUser" every accepted message is attributed to user A; "ServerKeyOnly" the
   user-level secret is not checked; "ReplyServerKey" answers are sealed under the server key;
   "AcceptWrong" a wrong server-level secret is accepted (anti-vacuity); "ShapeAccepted" a credential
   field that holds no key is accepted; "SessionCipherCached" a datagram is opened with the cipher
   remembered for its session, whichever user it names; "SharedKeyTable" the keys derived for one
   listener's users are kept in a table every listener of the process consults.                  *)
EXTENDS Integers, FiniteSets, TLC

CONSTANTS Dev

Configs == {"trojan", "vmess", "ss", "ss-multi", "ss-udp", "ss-udp-multi"}
HasUsers(c) == c \in {"vmess", "ss-multi", "ss-udp-multi"}
HasServerKey(c) == c # "vmess"          \* VMess has only user ids
Registered == {"A", "B"}

(* sk "shape": the credential field has the right length but holds no key at all (Trojan: 56 ASCII characters that are not
   hexadecimal digits; Shadowsocks: a key of zero bytes).
   claim: whose identity the message NAMES (multi-user Shadowsocks: the identity header): "own" = the user whose key sealed
   the message, "other" = the other registered user (the peer knows that user's identity hash - any holder of the server key
   can read it off the wire - but not that user's key).
   at: a server process runs one listener per configuration entry, each with its own secret / user table.  "here" = the
   credential is registered at the listener it is presented to; "elsewhere" = it is registered at ANOTHER listener of the
   same process and at this one nobody knows it; "elsewhere-used" = and that other listener has already served it (what a
   process-wide table of derived keys would remember).  A listener honours its own entry's credentials only.
   prior: the same peer has just sent a valid datagram of the same client session under its own identity (datagram
   configurations; what a per-session cache would remember).                                                          *)
Messages ==
  {[cfg |-> c, sk |-> s, uk |-> u, form |-> f, claim |-> cl, prior |-> pr, at |-> li] :
      c \in Configs, s \in {"right", "wrong", "onebit", "none", "shape"}, u \in {"A", "B", "X", "S", "-"}, f \in {"whole", "truncated"},
      cl \in {"own", "other"}, pr \in BOOLEAN, li \in {"here", "elsewhere", "elsewhere-used"}}

Sensible(m) == /\ (HasUsers(m.cfg) <=> m.uk # "-")
               \* vmess: "right" = n/a, "none" = garbage, "shape" = a command key that is no user's: sixteen zero bytes, the key a
               \* server would hold for a user entry whose id it could not read (such an entry must not start, let alone serve)
               /\ (~HasServerKey(m.cfg) => m.sk \in {"right", "none", "shape"})
               /\ (m.sk \in {"none", "shape"} => m.uk \in {"-", "X"})
               /\ (m.uk = "S" => (m.cfg \in {"ss-multi", "ss-udp-multi"} /\ m.sk = "right"))
               /\ (m.claim = "other" => (m.cfg \in {"ss-multi", "ss-udp-multi"} /\ m.uk \in Registered /\ m.sk = "right" /\ m.form = "whole"))
               /\ (m.prior => (m.cfg = "ss-udp-multi" /\ m.uk \in Registered /\ m.sk = "right" /\ m.form = "whole"))
               /\ (m.at # "here" => (/\ m.cfg \in {"trojan", "vmess", "ss-multi"} /\ m.sk = "right" /\ m.form = "whole"
                                    /\ m.claim = "own" /\ ~m.prior /\ (HasUsers(m.cfg) => m.uk \in Registered)))

Other(u) == IF u = "A" THEN "B" ELSE "A"
Named(m) == IF m.claim = "other" THEN Other(m.uk) ELSE m.uk          \* the user the message names

Credential(m) == /\ m.sk = "right" /\ m.at = "here"
                 /\ (HasUsers(m.cfg) => m.uk \in Registered)
                 /\ m.claim = "own"

VARIABLES msg, emitted, authUser, replyKey      \* replyKey: "none" | "server" | a user
vars == <<msg, emitted, authUser, replyKey>>

Init == msg \in {m \in Messages : Sensible(m)} /\ emitted = "pending" /\ authUser = "-" /\ replyKey = "none"

Decide ==
  /\ emitted = "pending"
  /\ LET okServer == msg.sk = "right" \/ ("AcceptWrong" \in Dev /\ msg.sk = "wrong") \/ ("ShapeAccepted" \in Dev /\ msg.sk = "shape")
         okUser   == ~HasUsers(msg.cfg) \/ msg.uk \in Registered \/ ("ServerKeyOnly" \in Dev /\ HasServerKey(msg.cfg))
         \* the named user's key must open the message: it does iff the message names the user whose key sealed it -
         \* unless the cipher is taken from a cache that remembers the session but not whose key it was made from
         okClaim  == msg.claim = "own" \/ ("SessionCipherCached" \in Dev /\ msg.prior)
         okHere   == msg.at = "here" \/ ("SharedKeyTable" \in Dev /\ msg.at = "elsewhere-used")
         ok       == okServer /\ okUser /\ okClaim /\ okHere /\ msg.form = "whole"
         user     == IF ~HasUsers(msg.cfg) THEN "-" ELSE IF "FirstUser" \in Dev THEN "A" ELSE Named(msg)
     IN /\ emitted' = IF ok THEN "yes" ELSE "no"
        /\ authUser' = IF ok THEN user ELSE "-"
        /\ replyKey' = IF ~ok THEN "none"
                       ELSE IF HasUsers(msg.cfg) /\ "ReplyServerKey" \notin Dev THEN user ELSE "server"
  /\ UNCHANGED msg
Spec == Init /\ [][Decide]_vars

NoEmitWithoutCredential == emitted = "yes" => Credential(msg)
CredentialAccepted == (emitted = "no" /\ msg.form = "whole") => ~Credential(msg)
NoCrossUser == emitted = "yes" /\ HasUsers(msg.cfg) => (authUser = msg.uk /\ replyKey = msg.uk)
=============================================================================
