-------------------------------- MODULE Auth --------------------------------
(* C06 — who may make the server dial or forward, and under whose key it answers.
   Server configurations:
     "trojan"      one password                     "vmess"       registered user ids {A, B}
     "ss"          one pre-shared key               "ss-multi"    server key + registered user keys {A, B}
     "ss-udp", "ss-udp-multi"   the same two for datagrams
   A peer presents one message built from the keys it knows.  `sk` is the server-level secret it
   used ("right", "wrong", "onebit" = differs in one bit, "none" = no key at all: random bytes or
   another protocol's valid handshake), `uk` the user-level secret ("A", "B", "X" = not registered,
   "-" = the configuration has no users), `form` how much of a well-formed message it is.
   The server decides (`Decide`), possibly emits a connect / relay item attributed to a user, and
   seals its answer under some key.
   Deviations: "FirstUser" every accepted message is attributed to user A; "ServerKeyOnly" the
   user-level secret is not checked; "ReplyServerKey" answers are sealed under the server key;
   "AcceptWrong" a wrong server-level secret is accepted (anti-vacuity).                         *)
EXTENDS Integers, FiniteSets, TLC

CONSTANTS Dev

Configs == {"trojan", "vmess", "ss", "ss-multi", "ss-udp", "ss-udp-multi"}
HasUsers(c) == c \in {"vmess", "ss-multi", "ss-udp-multi"}
HasServerKey(c) == c # "vmess"          \* VMess has only user ids
Registered == {"A", "B"}

Messages ==
  {[cfg |-> c, sk |-> s, uk |-> u, form |-> f] :
      c \in Configs, s \in {"right", "wrong", "onebit", "none"}, u \in {"A", "B", "X", "-"}, f \in {"whole", "truncated"}}

Sensible(m) == /\ (HasUsers(m.cfg) <=> m.uk # "-")
               /\ (~HasServerKey(m.cfg) => m.sk \in {"right", "none"})      \* vmess: "right" = n/a, "none" = garbage
               /\ (m.sk = "none" => m.uk \in {"-", "X"})

Credential(m) == /\ m.sk = "right"
                 /\ (HasUsers(m.cfg) => m.uk \in Registered)

VARIABLES msg, emitted, authUser, replyKey      \* replyKey: "none" | "server" | a user
vars == <<msg, emitted, authUser, replyKey>>

Init == msg \in {m \in Messages : Sensible(m)} /\ emitted = "pending" /\ authUser = "-" /\ replyKey = "none"

Decide ==
  /\ emitted = "pending"
  /\ LET okServer == msg.sk = "right" \/ ("AcceptWrong" \in Dev /\ msg.sk = "wrong")
         okUser   == ~HasUsers(msg.cfg) \/ msg.uk \in Registered \/ ("ServerKeyOnly" \in Dev /\ HasServerKey(msg.cfg))
         ok       == okServer /\ okUser /\ msg.form = "whole"
         user     == IF ~HasUsers(msg.cfg) THEN "-" ELSE IF "FirstUser" \in Dev THEN "A" ELSE msg.uk
     IN /\ emitted' = IF ok THEN "yes" ELSE "no"
        /\ authUser' = IF ok THEN user ELSE "-"
        /\ replyKey' = IF ~ok THEN "none"
                       ELSE IF HasUsers(msg.cfg) /\ "ReplyServerKey" \notin Dev THEN user ELSE "server"
  /\ UNCHANGED msg
Spec == Init /\ [][Decide]_vars

NoEmitWithoutCredential == emitted = "yes" => Credential(msg)
CredentialAccepted == (emitted = "no" /\ msg.form = "whole") => ~Credential(msg)
NoCrossUser == emitted = "yes" /\ HasUsers(msg.cfg) => (authUser = msg.uk /\ replyKey = msg.uk)
=============================================================================
