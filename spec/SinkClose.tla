----------------------------- MODULE SinkClose -----------------------------
(* C15 / C01, the contract of a relay sink under back-pressure (TcpRelay's wb / Flush / SrcEof in isolation, so that the
   schedules can be replayed on the real adapter in-process): `Stream::forward` hands items to the sink while the sink is
   ready, and when its source ends it polls `poll_close` until that reports Ready; the relay then treats the direction as
   delivered, winds the other direction down and DROPS the sink.  So:

     CloseReadyMeansWritten   when poll_close reports Ready, everything the sink accepted - and its end marker - has
                              left the adapter and is in the transport (kernel), where a drop no longer loses it.

   State: `buf` = units the adapter still holds, `pipe` = units in the transport not yet read by the peer (capacity Cap),
   `got` = units the peer has read, `mark` = where the end marker (WebSocket Close frame) is.
   Deviation "CloseSkipsFlush": a poll_close that finds its end marker already queued reports Ready without finishing the
   flush (the seeded change C15-2).  TLC exports every schedule of sends, close polls and peer reads as one REPLAY line.  *)
EXTENDS Naturals, Sequences, TLC, Json

CONSTANTS MaxItems, Cap, BufCap, MaxLen, Dev

VARIABLES accepted, buf, pipe, got, mark, polled, ready, script
vars == <<accepted, buf, pipe, got, mark, polled, ready, script>>

Init == /\ accepted = 0 /\ buf = 0 /\ pipe = 0 /\ got = 0 /\ mark = "none" /\ polled = 0 /\ ready = FALSE /\ script = <<>>

\* what one poll of the adapter's write side can push into the transport: as much as fits, data first, then the marker
Room == Cap - pipe
Pushed == IF buf <= Room THEN buf ELSE Room
MarkGoes(m) == m = "buffered" /\ buf <= Room /\ Room - buf >= 1

Send ==
  /\ ~ready /\ mark = "none" /\ accepted < MaxItems /\ buf < BufCap /\ Len(script) < MaxLen
  /\ accepted' = accepted + 1
  \* poll_ready flushes what fits, start_send buffers the item
  /\ buf' = buf - Pushed + 1 /\ pipe' = pipe + Pushed
  /\ script' = Append(script, [op |-> "send"])
  /\ UNCHANGED <<got, mark, polled, ready>>

ClosePoll ==
  /\ ~ready /\ accepted > 0 /\ Len(script) < MaxLen
  /\ polled' = polled + 1
  /\ LET m == IF mark = "none" THEN "buffered" ELSE mark
         skip == "CloseSkipsFlush" \in Dev /\ mark # "none"
     IN IF skip
          THEN ready' = TRUE /\ UNCHANGED <<buf, pipe, mark>>
          ELSE /\ buf' = buf - Pushed
               /\ mark' = IF MarkGoes(m) THEN "piped" ELSE m
               /\ pipe' = pipe + Pushed + (IF MarkGoes(m) THEN 1 ELSE 0)
               /\ ready' = (buf' = 0 /\ mark' \in {"piped", "got"})
  /\ script' = Append(script, [op |-> "close"])
  /\ UNCHANGED <<accepted, got>>

\* the peer reads one unit (data before the marker)
Drain ==
  /\ ~ready /\ pipe > 0 /\ Len(script) < MaxLen
  /\ pipe' = pipe - 1
  /\ IF mark = "piped" /\ pipe = 1 THEN mark' = "got" /\ UNCHANGED got ELSE got' = got + 1 /\ UNCHANGED mark
  /\ script' = Append(script, [op |-> "drain"])
  /\ UNCHANGED <<accepted, buf, polled, ready>>

Next == Send \/ ClosePoll \/ Drain
Spec == Init /\ [][Next]_vars

CloseReadyMeansWritten == ready => (buf = 0 /\ mark \in {"piped", "got"})
NothingInvented == got + pipe + buf <= accepted + 1
Export == (ready \/ Len(script) = MaxLen) => PrintT("REPLAY " \o ToJson([script |-> script, ready |-> ready, accepted |-> accepted]))
=============================================================================
