------------------------------ MODULE TraceUdp ------------------------------
(* impl -> spec for C02 (and the datagram parts of C08 / C09): what Engine B's scripted SOCKS5-UDP applications and UDP
   targets observed around REAL client and server processes must be a behaviour of UdpRelay.  One event per line, each
   with its arguments, so validation is linear.  A datagram the observer cannot recognise (TgtAlien / AppAlien: no id
   it ever issued, or a recognised id with other bytes around it) matches no action and is rejected, as is a line
   whose UdpRelay guard is false.  Reset starts the next scenario.  Panic(n) / Alive(c, s): process level facts.      *)
EXTENDS UdpRelay, Integers, Sequences, TLC, Json, IOUtils

Rec == ndJsonDeserialize(IOEnv.TRACE)

VARIABLE l
tvars == <<vars, l>>

Ev(name) == l <= Len(Rec) /\ Rec[l].ev = name /\ l' = l + 1

TraceInit == Init /\ l = 1

TReset    == Ev("Reset") /\ sent' = <<>> /\ atTgt' = <<>> /\ owner' = <<>> /\ replied' = <<>> /\ atApp' = <<>> /\ n' = 0
TAppSent  == Ev("AppSent") /\ AppSend(Rec[l].app, Rec[l].tgt, Rec[l].pid, Rec[l].len, Rec[l].must)
TTgtGot   == Ev("TgtGot") /\ ToTarget(Rec[l].tgt, Rec[l].pid, Rec[l].len, Rec[l].ok, Rec[l].src)
TTgtRepl  == Ev("TgtReplied") /\ TgtReply(Rec[l].tgt, Rec[l].rid, Rec[l].src, Rec[l].len, Rec[l].must)
TAppGot   == Ev("AppGot") /\ ToApp(Rec[l].app, Rec[l].label, Rec[l].rid, Rec[l].len, Rec[l].ok)
TSettle   == Ev("Settle") /\ Settle
TPanic    == Ev("Panic") /\ Rec[l].n = 0 /\ UNCHANGED vars
TAlive    == Ev("Alive") /\ Rec[l].c /\ Rec[l].s /\ UNCHANGED vars
TNote     == Ev("Note") /\ UNCHANGED vars       \* harness remarks (configuration, scenario name); no meaning

TraceNext == TReset \/ TAppSent \/ TTgtGot \/ TTgtRepl \/ TAppGot \/ TSettle \/ TPanic \/ TAlive \/ TNote
TraceSpec == TraceInit /\ [][TraceNext]_tvars

TraceAccepted ==
  LET d == TLCGet("stats").diameter IN
  IF d - 1 = Len(Rec) THEN PrintT(<<"TRACE-ACCEPTED", d - 1>>)
  ELSE PrintT(<<"TRACE-REJECTED", d - 1, "next unmatched event", Rec[d]>>)
=============================================================================
