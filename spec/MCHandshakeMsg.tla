--------------------------- MODULE MCHandshakeMsg ---------------------------
EXTENDS HandshakeMsg, Json
DTReal  == {-31, -30, -1, 0, 1, 30, 31}
VDTReal == {-121, -120, -1, 0, 1, 120, 121}
Export == state # "waiting" =>
   PrintT("REPLAY " \o ToJson([k |-> "msg", kind |-> msg.kind, dts |-> msg.dts, ext |-> msg.ext, typ |-> msg.typ, echo |-> msg.echo,
                               auth |-> msg.auth, expect |-> IF state = "delivered" THEN "accept" ELSE "reject"]))
=============================================================================
