--------------------------- MODULE MCPacketRing ---------------------------
(* Refinement check "ring design => set model" in lock step, plus scenario export for the replay
   of every enumerated history on the real PacketWindowFilter.
   Scaled constants: exhaustive over all IDs 0..MaxId.  Real constants (BB=64, RB=128, W=8128):
   exhaustive over a boundary alphabet of offsets.                                              *)
EXTENDS Integers, Sequences, FiniteSets, TLC, Json

CONSTANTS BB, RB, Limit, Far, Ids, MaxLen, Export, Dev

W == (RB - 1) * BB
\* Far = TRUE: the history is a list of offsets from a base far above 0, so the filter's initial
\* last_packet_id = 0 lies far below every offset (TLC .cfg files cannot hold negative numbers)
InitLast == IF Far THEN -1073741824 ELSE 0
RLimit == Limit
RInitLast == InitLast
RDev == Dev

VARIABLES seen, last, acc, ring, rlast, hist, agree

INSTANCE PacketWindow
INSTANCE PacketRing

vars == <<seen, last, acc, ring, rlast, hist, agree>>

Init == PWInit /\ RingInit /\ hist = <<>> /\ agree = TRUE /\ acc = <<>>

Step(id) == /\ Len(hist) < MaxLen
            /\ acc' = IF Accepts(id) THEN Append(acc, id) ELSE acc
            /\ LET r == RingStep(id) IN
                 /\ agree' = (r[1] = Accepts(id))
                 /\ hist' = Append(hist, [id |-> id, ok |-> Accepts(id)])
                 /\ ring' = r[2] /\ rlast' = r[3]
            /\ Validate(id)

Next == \E id \in Ids : Step(id)

Spec == Init /\ [][Next]_vars

\* ---- the property, over the acceptance history ----
AtMostOnce == \A i, j \in 1..Len(acc) : i # j => acc[i] # acc[j]
BelowLimit == \A i \in 1..Len(acc) : acc[i] < Limit
\* every accepted ID was within the window of every ID accepted before it
InWindow == \A i \in 1..Len(acc) : \A j \in 1..(i-1) : acc[j] - acc[i] <= W
LastIsMax == \A i \in 1..Len(acc) : acc[i] <= last
\* completeness: an ID presented and refused was a duplicate, stale, or over the limit
RefusedForAReason ==
  \A i \in 1..Len(hist) : ~hist[i].ok =>
     \/ hist[i].id >= Limit
     \/ \E j \in 1..(i-1) : hist[j].ok /\ hist[j].id = hist[i].id
     \/ \E j \in 1..(i-1) : hist[j].ok /\ hist[j].id - hist[i].id > W

\* the design's verdict equals the abstract one in every step
Agree == agree
\* refinement of the state: the ring remembers exactly the accepted IDs still inside the window
RingIsWindowOfSeen ==
  \A id \in Ids : (id <= last /\ last - id <= W /\ id >= 0) =>
        ((id \in seen) <=> ((id % BB) \in ring[(id \div BB) % RB]))
LastAgree == rlast = last

\* VIEW that hides the two history variables (refinement runs only)
NoHist == <<seen, last, ring, rlast, agree, Len(hist)>>

ExportInv == (Export /\ Len(hist) = MaxLen) =>
               PrintT("REPLAY " \o ToJson([ids |-> [i \in 1..Len(hist) |-> hist[i].id],
                                            expect |-> [i \in 1..Len(hist) |-> hist[i].ok]]))
=============================================================================
