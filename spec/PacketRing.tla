---------------------------- MODULE PacketRing ----------------------------
(* C11, design level: manager/packet_window.rs transcribed (the WireGuard replay ring).
   BB = bits per block (64 in the code), RB = ring blocks (128 in the code).
   `ring[b]` is the set of bit positions set in block b; `rlast` is last_packet_id.            *)
EXTENDS Integers, FiniteSets

CONSTANTS BB, RB, RLimit, RInitLast,
          RDev      \* named deviations (anti-vacuity): "EdgeGE", "NoClear", "NoLimit"

VARIABLES ring, rlast

ringVars == <<ring, rlast>>

RW == (RB - 1) * BB            \* WINDOW_SIZE

Min(a, b) == IF a < b THEN a ELSE b
\* floor division / modulo that are also right for the (conceptual) negative initial `last`
Blk(id) == IF id >= 0 THEN id \div BB ELSE -(((-id) + BB - 1) \div BB)

RingInit == ring = [b \in 0..(RB-1) |-> {}] /\ rlast = RInitLast

(* One call of validate_packet_id(id, limit): returns <<ok, ring', last'>> *)
RingStep(id) ==
  IF id >= RLimit /\ "NoLimit" \notin RDev THEN <<FALSE, ring, rlast>>
  ELSE
    LET fwd  == id > rlast
        cur  == Blk(rlast)
        diff == IF fwd THEN Min(Blk(id) - cur, RB) ELSE 0
        cleared == IF fwd /\ "NoClear" \notin RDev
                   THEN [b \in 0..(RB-1) |->
                           IF \E d \in 1..diff : (cur + d) % RB = b THEN {} ELSE ring[b]]
                   ELSE ring
    IN IF ~fwd /\ (IF "EdgeGE" \in RDev THEN rlast - id >= RW ELSE rlast - id > RW)
       THEN <<FALSE, ring, rlast>>
       ELSE LET b   == Blk(id) % RB
                bit == id % BB
            IN <<bit \notin cleared[b],
                 [cleared EXCEPT ![b] = @ \cup {bit}],
                 IF fwd THEN id ELSE rlast>>

RingValidate(id) == LET r == RingStep(id) IN ring' = r[2] /\ rlast' = r[3]
=============================================================================
