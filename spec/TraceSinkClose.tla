--------------------------- MODULE TraceSinkClose ---------------------------
(* impl -> spec for the sink contract: what the harness observed while it drove the REAL WebSocketFramed sink over a
   bounded in-memory transport along a schedule exported from SinkClose - Send(n bytes accepted), ClosePoll(ready),
   Drained(n bytes read by the peer, close frame seen) - and, once poll_close had reported Ready, Final(n, close): what the
   peer could still read WITHOUT the adapter being polled again.  CloseReadyMeansWritten: at Final everything accepted and
   the Close frame have been read.  Reset starts the next schedule.                                                  *)
EXTENDS Integers, Sequences, TLC, Json, IOUtils

Rec == ndJsonDeserialize(IOEnv.TRACE)
VARIABLES acc, del, closeSeen, ready, l
tvars == <<acc, del, closeSeen, ready, l>>
Ev(n) == l <= Len(Rec) /\ Rec[l].ev = n /\ l' = l + 1

TraceInit == acc = 0 /\ del = 0 /\ closeSeen = FALSE /\ ready = FALSE /\ l = 1
TReset   == Ev("Reset") /\ acc' = 0 /\ del' = 0 /\ closeSeen' = FALSE /\ ready' = FALSE
TSend    == Ev("Send") /\ ~ready /\ acc' = acc + Rec[l].n /\ UNCHANGED <<del, closeSeen, ready>>
TNotReady == Ev("NotReady") /\ UNCHANGED <<acc, del, closeSeen, ready>>
TClose   == Ev("ClosePoll") /\ ready' = Rec[l].ready /\ UNCHANGED <<acc, del, closeSeen>>
TDrained == /\ Ev("Drained") /\ del' = del + Rec[l].n /\ del' <= acc
            /\ closeSeen' = (closeSeen \/ Rec[l].close) /\ UNCHANGED <<acc, ready>>
TFinal   == /\ Ev("Final")
            /\ del' = del + Rec[l].n /\ closeSeen' = (closeSeen \/ Rec[l].close)
            /\ ready => (del' = acc /\ closeSeen')          \* CloseReadyMeansWritten
            /\ del' <= acc
            /\ UNCHANGED <<acc, ready>>
TraceNext == TReset \/ TSend \/ TNotReady \/ TClose \/ TDrained \/ TFinal
TraceSpec == TraceInit /\ [][TraceNext]_tvars

TraceAccepted ==
  LET d == TLCGet("stats").diameter IN
  IF d - 1 = Len(Rec) THEN PrintT(<<"TRACE-ACCEPTED", d - 1>>)
  ELSE PrintT(<<"TRACE-REJECTED", d - 1, "next unmatched event", Rec[d]>>)
=============================================================================
