----------------------------- MODULE UdpScripts -----------------------------
(* spec -> impl for C02: every history of datagram sends up to MaxLen steps - which application sends to which target,
   which size class, how many replies the target sends back and from where (itself, or - Shadowsocks / Trojan - a
   target that was never addressed) - composed with the IDEAL relay (delivers each datagram once to its target, each
   reply once to the application that owns the source address, labelled with the sender of the reply).  Every complete
   history is printed as one REPLAY line; Engine B (lib/udprun.py) executes it around real client and server processes
   and TraceUdp judges what was observed.  That the ideal relay's own steps satisfy every UdpRelay guard is checked
   here (they are UdpRelay actions), so UdpRelay never demands what no relay can do.                                 *)
EXTENDS UdpRelay, Sequences, TLC, Json

CONSTANTS Apps, Tgts, Sizes, Reps, Vias, MaxLen

VARIABLES script, done
svars == <<vars, script, done>>

SInit == Init /\ script = <<>> /\ done = FALSE

Src(a) == a          \* ideal relay: one source address per application

\* application a sends one datagram to t; the ideal relay delivers it, the target answers `rep` times (from `via`, 0 = itself),
\* the ideal relay delivers every answer to a.  All in one step: the scripts are about WHO / WHAT, interleavings are the
\* business of UdpDesign and of the real run.
Send(a, t, c, rep, via) ==
  /\ ~done /\ Len(script) < MaxLen
  /\ LET pid == Len(script) + 1
         from == IF via = 0 THEN t ELSE via
         s1 == [sent EXCEPT ![pid] = [app |-> a, tgt |-> t, len |-> 1, must |-> TRUE]]
     IN /\ pid \notin DOMAIN sent
        /\ sent' = Ext(sent, pid, [app |-> a, tgt |-> t, len |-> 1, must |-> TRUE])
        /\ (Src(a) \in DOMAIN owner => owner[Src(a)] = a)
        /\ atTgt' = Ext(atTgt, pid, [tgt |-> t, src |-> Src(a)])
        /\ owner' = Ext(owner, Src(a), a)
        /\ replied' = [r \in DOMAIN replied \cup {10 * pid + k : k \in 1..rep} |->
                         IF r \in DOMAIN replied THEN replied[r] ELSE [tgt |-> from, src |-> Src(a), len |-> 1, must |-> TRUE]]
        /\ atApp' = [r \in DOMAIN atApp \cup {10 * pid + k : k \in 1..rep} |->
                         IF r \in DOMAIN atApp THEN atApp[r] ELSE [app |-> a, label |-> from]]
        /\ n' = n + 1 + rep
  /\ script' = Append(script, [op |-> "send", app |-> a, tgt |-> t, size |-> c, rep |-> rep, via |-> via])
  /\ UNCHANGED done

Finish == /\ ~done /\ script # <<>> /\ Settle /\ done' = TRUE /\ UNCHANGED script

SNext == \/ \E a \in Apps, t \in Tgts, c \in Sizes, rep \in Reps, via \in Vias : (via # t /\ (via = 0 \/ rep > 0)) /\ Send(a, t, c, rep, via)
         \/ Finish
SSpec == SInit /\ [][SNext]_svars

Export == done => PrintT("REPLAY " \o ToJson([script |-> script]))
\* the ideal relay keeps UdpRelay's promises
IdealOwner == \A r \in DOMAIN atApp : atApp[r].app = owner[replied[r].src] /\ atApp[r].label = replied[r].tgt
IdealTarget == \A p \in DOMAIN atTgt : atTgt[p].tgt = sent[p].tgt
=============================================================================
