--------------------------- MODULE TraceHandshake ---------------------------
(* impl -> spec for C10: a recorded sequence of request presentations against one real listener
   (many salts, replays of earlier requests, all timestamps classes, wrong type bytes) must be a
   behaviour of the Handshake design run sequentially: for each presentation the composition
   CheckAcquire . CheckBody . Open . SetAcquire . SetBody  of module Handshake, per salt.
   The whole recording takes < 20 s of real time (asserted by the recorder), so no cache entry
   expires: `cache[s]` only needs "present or not".  dts is relative to the moment of the request's
   creation and every presentation happens within the same clock second ("Forget" events mark a
   second boundary: the recorder then drops its pool, and the specification drops nothing because
   later requests carry fresh salts).                                                            *)
EXTENDS Integers, Sequences, FiniteSets, TLC, Json, IOUtils

Rec == ndJsonDeserialize(IOEnv.TRACE)
Win == 30

VARIABLES cache,   \* set of salts currently in the replay cache
          l

tvars == <<cache, l>>
Abs(x) == IF x < 0 THEN -x ELSE x

\* the sequential composition of Handshake's five actions for one connection at one instant
Decide(salt, dts, typ) ==
  LET found  == salt \in cache
      opened == ~found /\ typ = 0 /\ Abs(dts) <= Win
  IN  [accept |-> opened, cache |-> IF opened THEN cache \cup {salt} ELSE cache]

TraceInit == cache = {} /\ l = 2

Present ==
  /\ l <= Len(Rec) /\ Rec[l].ev = "Present"
  /\ LET d == Decide(Rec[l].salt, Rec[l].dts, Rec[l].typ) IN
       /\ Rec[l].ok = d.accept
       /\ cache' = d.cache
  /\ l' = l + 1

Forget == /\ l <= Len(Rec) /\ Rec[l].ev = "Forget"
          /\ UNCHANGED cache /\ l' = l + 1

TraceNext == Present \/ Forget
TraceSpec == TraceInit /\ [][TraceNext]_tvars

\* invariants evaluated in every state of the recorded execution
OnlyKnownSalts == \A s \in cache : \E i \in 2..(l-1) : Rec[i].ev = "Present" /\ Rec[i].salt = s /\ Rec[i].ok
AcceptedOncePerSalt ==
  \A i, j \in 2..(l-1) : (i # j /\ Rec[i].ev = "Present" /\ Rec[j].ev = "Present" /\ Rec[i].ok /\ Rec[j].ok)
                          => Rec[i].salt # Rec[j].salt

TraceAccepted ==
  LET d == TLCGet("stats").diameter IN
  IF d = Len(Rec) THEN PrintT(<<"TRACE-ACCEPTED", d - 1>>)
  ELSE PrintT(<<"TRACE-REJECTED", d - 1, "next unmatched event", Rec[d + 1]>>)
=============================================================================
