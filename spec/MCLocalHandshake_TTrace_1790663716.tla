---- MODULE MCLocalHandshake_TTrace_1790663716 ----
EXTENDS MCLocalHandshake, Sequences, TLCExt, Toolbox, Naturals, TLC

_expression ==
    LET MCLocalHandshake_TEExpression == INSTANCE MCLocalHandshake_TEExpression
    IN MCLocalHandshake_TEExpression!expression
----

_trace ==
    LET MCLocalHandshake_TETrace == INSTANCE MCLocalHandshake_TETrace
    IN MCLocalHandshake_TETrace!trace
----

_inv ==
    ~(
        TLCGet("level") = Len(_TETrace)
        /\
        arr = (1)
        /\
        st = ("panicked")
        /\
        hist = (<<1, 0>>)
        /\
        replies = (0)
        /\
        closed = (TRUE)
        /\
        leaked = (0)
        /\
        used = (0)
        /\
        m = (1)
    )
----

_init ==
    /\ m = _TETrace[1].m
    /\ hist = _TETrace[1].hist
    /\ leaked = _TETrace[1].leaked
    /\ st = _TETrace[1].st
    /\ used = _TETrace[1].used
    /\ replies = _TETrace[1].replies
    /\ closed = _TETrace[1].closed
    /\ arr = _TETrace[1].arr
----

_next ==
    /\ \E i,j \in DOMAIN _TETrace:
        /\ \/ /\ j = i + 1
              /\ i = TLCGet("level")
        /\ m  = _TETrace[i].m
        /\ m' = _TETrace[j].m
        /\ hist  = _TETrace[i].hist
        /\ hist' = _TETrace[j].hist
        /\ leaked  = _TETrace[i].leaked
        /\ leaked' = _TETrace[j].leaked
        /\ st  = _TETrace[i].st
        /\ st' = _TETrace[j].st
        /\ used  = _TETrace[i].used
        /\ used' = _TETrace[j].used
        /\ replies  = _TETrace[i].replies
        /\ replies' = _TETrace[j].replies
        /\ closed  = _TETrace[i].closed
        /\ closed' = _TETrace[j].closed
        /\ arr  = _TETrace[i].arr
        /\ arr' = _TETrace[j].arr

\* Uncomment the ASSUME below to write the states of the error trace
\* to the given file in Json format. Note that you can pass any tuple
\* to `JsonSerialize`. For example, a sub-sequence of _TETrace.
    \* ASSUME
    \*     LET J == INSTANCE Json
    \*         IN J!JsonSerialize("MCLocalHandshake_TTrace_1790663716.json", _TETrace)

=============================================================================

 Note that you can extract this module `MCLocalHandshake_TEExpression`
  to a dedicated file to reuse `expression` (the module in the 
  dedicated `MCLocalHandshake_TEExpression.tla` file takes precedence 
  over the module `MCLocalHandshake_TEExpression` below).

---- MODULE MCLocalHandshake_TEExpression ----
EXTENDS MCLocalHandshake, Sequences, TLCExt, Toolbox, Naturals, TLC

expression == 
    [
        \* To hide variables of the `MCLocalHandshake` spec from the error trace,
        \* remove the variables below.  The trace will be written in the order
        \* of the fields of this record.
        m |-> m
        ,hist |-> hist
        ,leaked |-> leaked
        ,st |-> st
        ,used |-> used
        ,replies |-> replies
        ,closed |-> closed
        ,arr |-> arr
        
        \* Put additional constant-, state-, and action-level expressions here:
        \* ,_stateNumber |-> _TEPosition
        \* ,_mUnchanged |-> m = m'
        
        \* Format the `m` variable as Json value.
        \* ,_mJson |->
        \*     LET J == INSTANCE Json
        \*     IN J!ToJson(m)
        
        \* Lastly, you may build expressions over arbitrary sets of states by
        \* leveraging the _TETrace operator.  For example, this is how to
        \* count the number of times a spec variable changed up to the current
        \* state in the trace.
        \* ,_mModCount |->
        \*     LET F[s \in DOMAIN _TETrace] ==
        \*         IF s = 1 THEN 0
        \*         ELSE IF _TETrace[s].m # _TETrace[s-1].m
        \*             THEN 1 + F[s-1] ELSE F[s-1]
        \*     IN F[_TEPosition - 1]
    ]

=============================================================================



Parsing and semantic processing can take forever if the trace below is long.
 In this case, it is advised to uncomment the module below to deserialize the
 trace from a generated binary file.

\*
\*---- MODULE MCLocalHandshake_TETrace ----
\*EXTENDS MCLocalHandshake, IOUtils, TLC
\*
\*trace == IODeserialize("MCLocalHandshake_TTrace_1790663716.bin", TRUE)
\*
\*=============================================================================
\*

---- MODULE MCLocalHandshake_TETrace ----
EXTENDS MCLocalHandshake, TLC

trace == 
    <<
    ([arr |-> 0,st |-> "sniff",hist |-> <<>>,replies |-> 0,closed |-> FALSE,leaked |-> 0,used |-> 0,m |-> 1]),
    ([arr |-> 1,st |-> "sniff",hist |-> <<1>>,replies |-> 0,closed |-> FALSE,leaked |-> 0,used |-> 0,m |-> 1]),
    ([arr |-> 1,st |-> "sniff",hist |-> <<1, 0>>,replies |-> 0,closed |-> TRUE,leaked |-> 0,used |-> 0,m |-> 1]),
    ([arr |-> 1,st |-> "greet",hist |-> <<1, 0>>,replies |-> 0,closed |-> TRUE,leaked |-> 0,used |-> 0,m |-> 1]),
    ([arr |-> 1,st |-> "panicked",hist |-> <<1, 0>>,replies |-> 0,closed |-> TRUE,leaked |-> 0,used |-> 0,m |-> 1])
    >>
----


=============================================================================

---- CONFIG MCLocalHandshake_TTrace_1790663716 ----
CONSTANTS
    Kind = "socks5"
    Msgs <- MSocks5
    WellFormed = TRUE
    Dev = { "UnwrapEof" }

INVARIANT
    _inv

CHECK_DEADLOCK
    \* CHECK_DEADLOCK off because of PROPERTY or INVARIANT above.
    FALSE

INIT
    _init

NEXT
    _next

CONSTANT
    _TETrace <- _trace

ALIAS
    _expression
=============================================================================
\* Generated on Tue Sep 29 06:35:17 UTC 2026