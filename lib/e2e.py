"""Engine B — end-to-end process harness (DESIGN section 3).

Starts the real server and client binaries (built by the harness crate from /repo's working tree with
`--cfg octo_verif`), scripted local applications (SOCKS5 / HTTP CONNECT / plain HTTP / SOCKS5-UDP) and
scripted targets inside ONE asyncio event loop, so every observation this module logs is totally ordered
by construction: an *intent* (AppWrote, TgtWrote, AppClose ...) is logged before the system call and an
*observation* (TgtGot, AppEof ...) after it returned.  No wall-clock ordering across processes is used.

Nothing in here gives a verdict; it produces event lists that the TLA+ trace specifications judge.
"""
import asyncio
import base64
import hashlib
import json
import os
import random
import socket
import struct
import subprocess
import time

from lib import vlib
from lib.vlib import ToolError

CERT_DIR = os.path.join(vlib.WORK, "cert")
CERT = os.path.join(CERT_DIR, "cert.pem")
KEY = os.path.join(CERT_DIR, "key.pem")

LEGACY = ["aes-128-gcm", "aes-256-gcm", "chacha20-poly1305"]
SS2022 = ["2022-blake3-aes-128-gcm", "2022-blake3-aes-256-gcm", "2022-blake3-chacha8-poly1305",
          "2022-blake3-chacha20-poly1305"]
SS_CIPHERS = LEGACY + SS2022
VMESS_CIPHERS = ["aes-128-gcm", "chacha20-poly1305"]
TRANSPORTS = ["tcp", "tls", "ws", "wss", "quic"]
LOCAL_KINDS = ["socks5", "connect", "http"]
KEYLEN = {"aes-128-gcm": 16, "aes-256-gcm": 32, "chacha20-poly1305": 32, "2022-blake3-aes-128-gcm": 16,
          "2022-blake3-aes-256-gcm": 32, "2022-blake3-chacha8-poly1305": 32, "2022-blake3-chacha20-poly1305": 32}
UUIDS = ["b831381d-6324-4d53-ad4f-8cda48b30811", "6c1ab3a9-8ea5-4b0f-9d6b-11d8ba6f2d0a",
         "0f1e2d3c-4b5a-4978-8695-a4b3c2d1e0ff"]


def ensure_cert():
    """Self-signed certificate for localhost / 127.0.0.1 (openssl CLI; generated once per work directory)."""
    if os.path.exists(CERT) and os.path.exists(KEY):
        return
    os.makedirs(CERT_DIR, exist_ok=True)
    p = subprocess.run(["openssl", "req", "-x509", "-newkey", "rsa:2048", "-nodes", "-days", "3650", "-subj", "/CN=localhost",
                        "-addext", "subjectAltName=DNS:localhost,IP:127.0.0.1", "-addext", "basicConstraints=critical,CA:FALSE",
                        "-keyout", KEY, "-out", CERT], stdout=subprocess.PIPE, stderr=subprocess.STDOUT, text=True)
    if p.returncode != 0:
        raise ToolError("openssl failed: " + p.stdout[-500:])


_HANDED_OUT = set()


def _ephemeral_range():
    try:
        lo, hi = open("/proc/sys/net/ipv4/ip_local_port_range").read().split()
        return int(lo), int(hi)
    except (OSError, ValueError):
        return 32768, 60999


def free_port(kind="tcp", also_udp=False):
    """A port that is free right now for TCP (and UDP when asked), for a process that will bind it a moment later.
    Taken from BELOW the kernel's ephemeral range and never handed out twice by this harness process, so that neither a
    bind(0) of the harness itself (targets, middleboxes) nor an outgoing connection of the processes under test can be
    given the same number between this call and the bind."""
    lo, _ = _ephemeral_range()
    base, top = (10000, lo - 1) if lo > 12000 else (61000, 65000)
    rnd = random.Random(os.getpid() * 7919 + len(_HANDED_OUT) * 104729 + int(time.time() * 1000) % 1000003)
    for _ in range(400):
        port = rnd.randint(base, top)
        if port in _HANDED_OUT:
            continue
        ok = True
        socks = []
        for k in ([socket.SOCK_STREAM, socket.SOCK_DGRAM] if (also_udp or kind != "tcp") else [socket.SOCK_STREAM]):
            s = socket.socket(socket.AF_INET, k)
            if k == socket.SOCK_STREAM:
                s.setsockopt(socket.SOL_SOCKET, socket.SO_REUSEADDR, 1)
            try:
                s.bind(("127.0.0.1", port))
            except OSError:
                ok = False
            socks.append(s)
        for s in socks:
            s.close()
        if ok:
            _HANDED_OUT.add(port)
            return port
    raise ToolError("no free port")


def b64key(n, tag):
    return base64.b64encode(hashlib.sha256(("octo-verif-key-" + tag).encode()).digest()[:n]).decode()


class Conf:
    """One (protocol, cipher, transport) configuration of the README table and the config files that select it."""

    def __init__(self, proto, cipher, transport, client_mode="tcp", server_mode=None, users=0, user_index=0, label=None):
        self.proto, self.cipher, self.transport = proto, cipher, transport
        self.client_mode = client_mode
        self.server_mode = server_mode
        self.users = users
        self.user_index = user_index
        self.label = label or "%s/%s/%s" % (proto, cipher or "-", transport)

    def __repr__(self):
        return self.label

    def secrets(self):
        """(server password, server user list, client password)"""
        if self.proto == "shadowsocks":
            if self.cipher in SS2022:
                n = KEYLEN[self.cipher]
                sk = b64key(n, "server-" + self.cipher)
                if self.users:
                    ul = [{"name": "u%d" % i, "password": b64key(n, "user%d-%s" % (i, self.cipher))} for i in range(self.users)]
                    return sk, ul, sk + ":" + ul[self.user_index]["password"]
                return sk, [], sk
            return "correct horse battery", [], "correct horse battery"
        if self.proto == "vmess":
            n = max(self.users, 1)
            ul = [{"name": "u%d" % i, "password": UUIDS[i]} for i in range(n)]
            return UUIDS[0], ul, UUIDS[self.user_index]
        return "trojan-pass-1", [], "trojan-pass-1"

    def server_json(self, port):
        ensure_cert()
        spw, users, _ = self.secrets()
        c = {"host": "127.0.0.1", "port": port, "password": spw, "protocol": self.proto}
        if self.cipher:
            c["cipher"] = self.cipher
        if users:
            c["user"] = users
        mode = self.server_mode
        if mode is None and self.proto == "shadowsocks":
            if self.transport == "quic":
                mode = "quic"
            elif self.transport == "udp" or self.client_mode in ("udp", "tcp_and_udp"):
                mode = "tcp_and_udp" if self.transport != "udp" else "udp"
        if mode:
            c["mode"] = mode
        ssl = {"certificateFile": CERT, "keyFile": KEY, "serverName": "localhost"}
        if self.transport in ("tls", "wss"):
            c["ssl"] = ssl
        if self.transport in ("ws", "wss"):
            c["ws"] = {"path": "/ws"}
        if self.transport == "quic":
            c["quic"] = ssl
        return [c]

    def client_json(self, port, server_port, level="debug"):
        _, _, cpw = self.secrets()
        s = {"host": "127.0.0.1", "port": server_port, "password": cpw, "protocol": self.proto}
        if self.cipher:
            s["cipher"] = self.cipher
        ssl = {"certificateFile": CERT, "serverName": "localhost"}
        if self.transport in ("tls", "wss"):
            s["ssl"] = ssl
        if self.transport in ("ws", "wss"):
            s["ws"] = {"path": "/ws", "header": {"Host": "localhost"}}
        if self.transport == "quic":
            s["quic"] = ssl
        return {"port": port, "index": 0, "mode": self.client_mode, "logger": {"level": level}, "servers": [s]}


def tcp_matrix():
    """All README-supported TCP configurations: (protocol x cipher) x client-server transport."""
    out = []
    for t in TRANSPORTS:
        for c in SS_CIPHERS:
            out.append(Conf("shadowsocks", c, t))
        for c in VMESS_CIPHERS:
            out.append(Conf("vmess", c, t))
        out.append(Conf("trojan", None, t))
    return out


def udp_matrix():
    """All UDP-capable configurations of the README table."""
    out = []
    for c in SS_CIPHERS:
        out.append(Conf("shadowsocks", c, "udp", client_mode="tcp_and_udp", server_mode="tcp_and_udp", label="shadowsocks/%s/udp" % c))
    for c in ("2022-blake3-aes-128-gcm", "2022-blake3-aes-256-gcm"):
        out.append(Conf("shadowsocks", c, "udp", client_mode="tcp_and_udp", server_mode="tcp_and_udp", users=2, user_index=1,
                        label="shadowsocks/%s+eih/udp" % c))
    for t in TRANSPORTS:
        for c in VMESS_CIPHERS:
            out.append(Conf("vmess", c, t, client_mode="tcp_and_udp"))
    for t in ("tls", "wss", "quic"):
        out.append(Conf("trojan", None, t, client_mode="tcp_and_udp"))
    return out


# ---------------------------------------------------------------------------------------------------------------
# processes

class Proc:
    def __init__(self, name, argv, log_path, env=None, preexec=None):
        self.name = name
        self.log_path = log_path
        self.logf = open(log_path, "wb")
        e = dict(os.environ)
        e["RUST_BACKTRACE"] = "0"
        if env:
            e.update(env)
        self.p = subprocess.Popen(argv, stdout=self.logf, stderr=subprocess.STDOUT, env=e, preexec_fn=preexec)
        self.pid = self.p.pid

    def alive(self):
        return self.p.poll() is None

    def fds(self):
        """Open descriptors that are sockets, and all descriptors."""
        d = "/proc/%d/fd" % self.pid
        socks, total = 0, 0
        try:
            for n in os.listdir(d):
                total += 1
                try:
                    if os.readlink(os.path.join(d, n)).startswith("socket:"):
                        socks += 1
                except OSError:
                    pass
        except OSError:
            return None
        return socks, total

    def sockets(self):
        """[(proto, local, remote, state)] of this process' sockets (diagnostics for a descriptor that was not released)."""
        inodes = set()
        d = "/proc/%d/fd" % self.pid
        try:
            for n in os.listdir(d):
                try:
                    t = os.readlink(os.path.join(d, n))
                except OSError:
                    continue
                if t.startswith("socket:["):
                    inodes.add(t[8:-1])
        except OSError:
            return []
        out = []

        def addr(a):
            ip, port = a.split(":")
            return "%s:%d" % (socket.inet_ntoa(bytes.fromhex(ip)[::-1]), int(port, 16)) if len(ip) == 8 else "%s:%d" % (ip, int(port, 16))
        states = {"01": "ESTABLISHED", "02": "SYN_SENT", "03": "SYN_RECV", "04": "FIN_WAIT1", "05": "FIN_WAIT2", "06": "TIME_WAIT",
                  "07": "CLOSE", "08": "CLOSE_WAIT", "09": "LAST_ACK", "0A": "LISTEN", "0B": "CLOSING"}
        for proto in ("tcp", "udp", "tcp6", "udp6"):
            try:
                for line in open("/proc/net/" + proto).read().splitlines()[1:]:
                    f = line.split()
                    if f[9] in inodes:
                        out.append((proto, addr(f[1]), addr(f[2]), states.get(f[3], f[3]), "rxq=%d" % int(f[4].split(":")[1], 16)))
            except OSError:
                pass
        return out

    def tasks(self):
        try:
            return len(os.listdir("/proc/%d/task" % self.pid))
        except OSError:
            return None

    def log_text(self):
        try:
            self.logf.flush()
            return open(self.log_path, "r", errors="replace").read()
        except OSError:
            return ""

    def panicked(self):
        t = self.log_text()
        return [l for l in t.splitlines() if "panicked at" in l or "RUST_BACKTRACE" in l or "stack overflow" in l or "SIGSEGV" in l]

    def stop(self):
        if self.alive():
            self.p.terminate()
            try:
                self.p.wait(timeout=3)
            except subprocess.TimeoutExpired:
                self.p.kill()
                self.p.wait()
        self.logf.close()


def listening(port, kind="tcp"):
    """True when some socket is bound to 127.0.0.1:port or 0.0.0.0:port (from /proc/net; no connection is made)."""
    want = "%04X" % port
    path = "/proc/net/tcp" if kind == "tcp" else "/proc/net/udp"
    try:
        for line in open(path).read().splitlines()[1:]:
            f = line.split()
            local, st = f[1], f[3]
            ip, p = local.split(":")
            if p == want and ip in ("0100007F", "00000000") and (kind != "tcp" or st == "0A"):
                return True
    except OSError:
        pass
    return False


class Deployment:
    """A running server + client pair for one Conf. `link` may name a middlebox object with attribute `port`
    (the client is then pointed at it instead of the server)."""

    def __init__(self, conf, tag, env=None, workers=None, trace=False, server_preexec=None, client_preexec=None, client_level="debug",
                 server_level="debug", link_port=None):
        self.conf = conf
        self.dir = vlib.workdir(tag)
        self.env = dict(env or {})
        if workers:
            self.env["TOKIO_WORKER_THREADS"] = str(workers)
        self.trace = trace
        self.server = self.client = None
        self.server_port = free_port(also_udp=True)
        self.client_port = free_port(also_udp=True)
        self.link_port = link_port
        self.server_preexec, self.client_preexec = server_preexec, client_preexec
        self.client_level, self.server_level = client_level, server_level

    def start_server(self):
        sj = os.path.join(self.dir, "server.json")
        json.dump(self.conf.server_json(self.server_port), open(sj, "w"), indent=1)
        env = dict(self.env)
        if self.trace:
            env["OCTO_VERIF_TRACE"] = os.path.join(self.dir, "server.trace")
        self.server = Proc("server", [vlib.SERVER_BIN, sj, self.server_level], os.path.join(self.dir, "server.log"), env, self.server_preexec)

    def start_client(self):
        cj = os.path.join(self.dir, "client.json")
        json.dump(self.conf.client_json(self.client_port, self.link_port or self.server_port, self.client_level), open(cj, "w"), indent=1)
        env = dict(self.env)
        if self.trace:
            env["OCTO_VERIF_TRACE"] = os.path.join(self.dir, "client.trace")
        self.client = Proc("client", [vlib.CLIENT_BIN, cj], os.path.join(self.dir, "client.log"), env, self.client_preexec)

    def add_client(self, user_index, tag="client2"):
        """A further client process (another user of the same server). Returns its local port."""
        import copy
        conf = copy.copy(self.conf)
        conf.user_index = user_index
        port = free_port(also_udp=True)
        cj = os.path.join(self.dir, tag + ".json")
        json.dump(conf.client_json(port, self.link_port or self.server_port, self.client_level), open(cj, "w"), indent=1)
        env = dict(self.env)
        if self.trace:
            env["OCTO_VERIF_TRACE"] = os.path.join(self.dir, tag + ".trace")
        p = Proc(tag, [vlib.CLIENT_BIN, cj], os.path.join(self.dir, tag + ".log"), env, self.client_preexec)
        self.extra = getattr(self, "extra", [])
        self.extra.append((p, port))
        return p, port

    async def wait_bound(self, proc, port, kinds=("tcp", "udp"), timeout=15.0):
        t0 = time.time()
        while not all(listening(port, k) for k in kinds):
            if not proc.alive():
                raise ToolError("%s exited during start-up: %s" % (proc.name, proc.log_text()[-400:]))
            if time.time() - t0 > timeout:
                raise ToolError("%s did not bind %s" % (proc.name, port))
            await asyncio.sleep(0.03)

    def server_kinds(self):
        c = self.conf
        kinds = []
        mode = c.server_json(0)[0].get("mode", "tcp")
        if c.proto == "shadowsocks":
            if mode in ("tcp", "tcp_and_udp"):
                kinds.append("tcp")
            if mode in ("udp", "tcp_and_udp", "quic", "tcp_and_quic"):
                kinds.append("udp")
        else:
            kinds.append("tcp")
            if c.transport == "quic":
                kinds.append("udp")
        return kinds

    async def start(self, timeout=15.0):
        self.start_server()
        self.start_client()
        want = [(self.server, self.server_port, k) for k in self.server_kinds()]
        if self.conf.client_mode in ("tcp", "tcp_and_udp"):
            want.append((self.client, self.client_port, "tcp"))
        if self.conf.client_mode in ("udp", "tcp_and_udp"):
            want.append((self.client, self.client_port, "udp"))
        t0 = time.time()
        while True:
            if all(listening(p, k) for _, p, k in want):
                return self
            for pr, p, k in want:
                if not pr.alive():
                    raise ToolError("%s exited during start-up (%s): %s" % (pr.name, self.conf, pr.log_text()[-600:]))
            if time.time() - t0 > timeout:
                miss = [(pr.name, p, k) for pr, p, k in want if not listening(p, k)]
                raise ToolError("ports not bound after %.0fs for %s: %s\n%s" % (timeout, self.conf, miss, self.server.log_text()[-400:]))
            await asyncio.sleep(0.03)

    def stop(self):
        for p in [x[0] for x in getattr(self, "extra", [])] + [self.client, self.server]:
            if p:
                p.stop()

    def panics(self):
        out = []
        for p in [self.client, self.server] + [x[0] for x in getattr(self, "extra", [])]:
            if p:
                out += ["%s: %s" % (p.name, l) for l in p.panicked()]
        return out

    def fd_counts(self):
        return {"client": self.client.fds(), "server": self.server.fds()}

    async def stable_fds(self, settle=0.25, cap=6.0, baseline=None):
        """Poll until the socket counts of both processes stop changing (or equal `baseline`); returns the last counts.
        Poll-until-stable, never a single timed sample (DESIGN 2.7)."""
        t0 = time.time()
        last, since = None, time.time()
        while True:
            cur = (self.client.fds(), self.server.fds())
            if cur != last:
                last, since = cur, time.time()
            if baseline is not None and cur == baseline:
                return cur
            if baseline is None and time.time() - since >= settle:
                return cur
            if time.time() - t0 > cap:
                return cur
            await asyncio.sleep(0.05)


# ---------------------------------------------------------------------------------------------------------------
# middlebox on the link between client and server (C15 link failures, C08 faults, C11 datagram reordering)

class Link:
    """One client<->server connection (TCP) or one client source address (UDP) as seen by the middlebox."""

    def __init__(self, n):
        self.n = n
        self.c = self.s = None        # sockets towards the client / the server
        self.tasks = []
        self.cut = None               # None | "rst" | "fin" | "dark"
        self.bytes = [0, 0]           # forwarded up / down
        self.delay = 0.0              # TCP: seconds the box sleeps after every forwarded chunk (slow link)
        self.peer = None              # UDP: the client's source address


class Middlebox:
    """Forwards between the client and the real server port.  TCP (tcp, tls, ws, wss links): one upstream connection per
    accepted connection.  UDP (quic links, Shadowsocks datagrams): one upstream socket per client source address.
    `cut(link, how)`: "rst" = both connections are reset, "fin" = both are closed in an orderly way after what the box had
    already read was passed on (later input is read and discarded), "dark" = nothing passes any more (UDP: the only kind)."""

    def __init__(self, server_port, udp=False, port=0):
        self.server_port = server_port
        self.udp = udp
        self.links = []
        self.loop = asyncio.get_event_loop()
        self.assoc_lock = asyncio.Lock()
        self.new_link = asyncio.Event()
        self.hook = None              # UDP: hook(link, direction, data) -> list of datagrams to forward instead
        if udp:
            self.sock = socket.socket(socket.AF_INET, socket.SOCK_DGRAM)
        else:
            self.sock = socket.socket(socket.AF_INET, socket.SOCK_STREAM)
            self.sock.setsockopt(socket.SOL_SOCKET, socket.SO_REUSEADDR, 1)
        self.sock.bind(("127.0.0.1", port))
        self.port = self.sock.getsockname()[1]
        self.sock.setblocking(False)
        self.atask = None
        if udp:
            self.by_peer = {}
            self.loop.add_reader(self.sock.fileno(), self._udp_from_client)
        else:
            self.sock.listen(128)
            self.atask = asyncio.ensure_future(self._accept())

    # -- TCP
    async def _accept(self):
        while True:
            conn, _ = await self.loop.sock_accept(self.sock)
            conn.setblocking(False)
            ln = Link(len(self.links))
            ln.c = conn
            self.links.append(ln)
            self.new_link.set()
            ln.tasks.append(asyncio.ensure_future(self._serve(ln)))

    async def _serve(self, ln):
        up = socket.socket(socket.AF_INET, socket.SOCK_STREAM)
        up.setblocking(False)
        try:
            await self.loop.sock_connect(up, ("127.0.0.1", self.server_port))
        except OSError:
            up.close()
            ln.c.close()
            ln.cut = "rst"
            ln.closing = True
            return
        ln.s = up
        if ln.cut:
            # the link was cut while the box was still connecting upstream: that connection goes the same way
            if ln.cut == "rst":
                if getattr(ln, "closing", False):
                    up.close()
                else:
                    await self._teardown(ln, True)
            else:
                try:
                    up.shutdown(socket.SHUT_WR)
                except OSError:
                    pass
                ln.tasks.append(asyncio.ensure_future(self._pump(ln, ln.s, ln.c, 1)))
                asyncio.ensure_future(self._reap(ln))
            return
        for sk in (ln.c, up):
            try:
                sk.setsockopt(socket.IPPROTO_TCP, socket.TCP_NODELAY, 1)
            except OSError:
                pass
        ln.tasks.append(asyncio.ensure_future(self._pump(ln, ln.c, ln.s, 0)))
        ln.tasks.append(asyncio.ensure_future(self._pump(ln, ln.s, ln.c, 1)))

    async def _pump(self, ln, src, dst, d):
        try:
            while True:
                data = await self.loop.sock_recv(src, 1 << 16)
                if not data:
                    try:
                        dst.shutdown(socket.SHUT_WR)
                    except OSError:
                        pass
                    return
                if ln.cut:
                    continue        # read and discard
                await self.loop.sock_sendall(dst, data)
                ln.bytes[d] += len(data)
                if ln.delay:
                    await asyncio.sleep(ln.delay)   # a slow link: what is behind it backs up into the sender's socket
        except (ConnectionError, OSError):
            # one side was reset: reset the other side too (a box that forwards failures)
            if not ln.cut:
                ln.cut = "rst"
                await self._teardown(ln, True)
        except asyncio.CancelledError:
            pass

    async def _teardown(self, ln, abortive):
        """Close both sockets of a link.  Every task that may have a read pending on one of them is cancelled AND awaited
        first: closing a descriptor that still has a reader registered lets the event loop later remove the reader of
        whatever new socket got the same descriptor number."""
        if getattr(ln, "closing", False):
            return
        ln.closing = True
        cur = asyncio.current_task()
        others = [t for t in ln.tasks if t is not cur and not t.done()]
        for t in others:
            t.cancel()
        for t in others:
            try:
                await t
            except (asyncio.CancelledError, Exception):
                pass
        for sk in (ln.c, ln.s):
            if sk is not None:
                if abortive:
                    try:
                        sk.setsockopt(socket.SOL_SOCKET, socket.SO_LINGER, struct.pack("ii", 1, 0))
                    except OSError:
                        pass
                try:
                    sk.close()
                except OSError:
                    pass

    def slow(self, ln, delay):
        """From now on this link is slow: small socket buffers in the box, a pause after every forwarded chunk."""
        ln.delay = delay
        for sk in (ln.c, ln.s):
            if sk is not None:
                for opt in (socket.SO_RCVBUF, socket.SO_SNDBUF):
                    try:
                        sk.setsockopt(socket.SOL_SOCKET, opt, 1 << 16)
                    except OSError:
                        pass

    def cut(self, ln, how):
        if ln.cut:
            return
        ln.cut = how
        if self.udp:
            return
        if how == "rst":
            asyncio.ensure_future(self._teardown(ln, True))
        elif how == "fin":
            for sk in (ln.c, ln.s):
                if sk is not None:
                    try:
                        sk.shutdown(socket.SHUT_WR)
                    except OSError:
                        pass
            # the pumps keep reading (and discarding) until each side has closed too; then the sockets are closed
            asyncio.ensure_future(self._reap(ln))

    async def _reap(self, ln):
        for t in ln.tasks[1:]:
            try:
                await asyncio.wait_for(asyncio.shield(t), 40)
            except (asyncio.TimeoutError, asyncio.CancelledError, Exception):
                pass
        await self._teardown(ln, False)

    # -- UDP
    def _udp_from_client(self):
        while True:
            try:
                data, peer = self.sock.recvfrom(1 << 16)
            except (BlockingIOError, InterruptedError):
                return
            except OSError:
                return
            ln = self.by_peer.get(peer)
            if ln is None:
                ln = Link(len(self.links))
                ln.peer = peer
                ln.s = socket.socket(socket.AF_INET, socket.SOCK_DGRAM)
                ln.s.setblocking(False)
                ln.s.connect(("127.0.0.1", self.server_port))
                self.by_peer[peer] = ln
                self.links.append(ln)
                self.new_link.set()
                self.loop.add_reader(ln.s.fileno(), self._udp_from_server, ln)
            if ln.cut:
                continue
            out = [data] if self.hook is None else self.hook(ln, 0, data)
            for d in out:
                try:
                    ln.s.send(d)
                    ln.bytes[0] += len(d)
                except OSError:
                    pass

    def _udp_from_server(self, ln):
        while True:
            try:
                data = ln.s.recv(1 << 16)
            except (BlockingIOError, InterruptedError):
                return
            except OSError:
                return
            if ln.cut:
                continue
            out = [data] if self.hook is None else self.hook(ln, 1, data)
            for d in out:
                try:
                    self.sock.sendto(d, ln.peer)
                    ln.bytes[1] += len(d)
                except OSError:
                    pass

    def inject(self, ln, direction, data):
        """Send a datagram of the box's own making on an existing link (replay / garbage)."""
        try:
            if direction == 0:
                ln.s.send(data)
            else:
                self.sock.sendto(data, ln.peer)
        except OSError:
            pass

    async def wait_new(self, n0, cap=3.0):
        t0 = time.time()
        while len(self.links) <= n0:
            if time.time() - t0 > cap:
                return None
            self.new_link.clear()
            try:
                await asyncio.wait_for(self.new_link.wait(), 0.2)
            except asyncio.TimeoutError:
                pass
        return self.links[n0]

    async def close(self):
        tasks = [self.atask] if self.atask else []
        for ln in self.links:
            tasks += ln.tasks
        for t in tasks:
            if not t.done():
                t.cancel()
        for t in tasks:
            try:
                await t
            except (asyncio.CancelledError, Exception):
                pass
        if self.udp:
            try:
                self.loop.remove_reader(self.sock.fileno())
            except Exception:
                pass
        for ln in self.links:
            if self.udp and ln.s is not None:
                try:
                    self.loop.remove_reader(ln.s.fileno())
                except Exception:
                    pass
            for sk in (ln.c, ln.s):
                if sk is not None:
                    try:
                        sk.close()
                    except OSError:
                        pass
        self.sock.close()


# ---------------------------------------------------------------------------------------------------------------
# deterministic data

class Prf:
    """Position-addressable pseudo-random bytes: byte o of stream `tag` is a function of (seed, tag, o)."""
    _cache = {}

    def __init__(self, seed, tag, size):
        k = (seed, tag)
        blk = Prf._cache.get(k)
        if blk is None or len(blk) < size:
            blk = random.Random("%s/%s" % (seed, tag)).randbytes(max(size, 1 << 16))
            if len(Prf._cache) > 64:
                Prf._cache.clear()
            Prf._cache[k] = blk
        self.blk = blk

    def span(self, off, n):
        return self.blk[off:off + n]


# ---------------------------------------------------------------------------------------------------------------
# SOCKS5 / HTTP local handshakes (application side)

def socks5_addr(host, port):
    try:
        ip = socket.inet_aton(host)
        return b"\x01" + ip + struct.pack(">H", port)
    except OSError:
        pass
    if ":" in host:
        return b"\x04" + socket.inet_pton(socket.AF_INET6, host) + struct.pack(">H", port)
    h = host.encode()
    return b"\x03" + bytes([len(h)]) + h + struct.pack(">H", port)


def parse_socks5_addr(buf, off=0):
    """-> (host, port, next offset) or None if incomplete"""
    if len(buf) < off + 1:
        return None
    t = buf[off]
    if t == 1:
        if len(buf) < off + 7:
            return None
        return socket.inet_ntoa(buf[off + 1:off + 5]), struct.unpack(">H", buf[off + 5:off + 7])[0], off + 7
    if t == 4:
        if len(buf) < off + 19:
            return None
        return socket.inet_ntop(socket.AF_INET6, buf[off + 1:off + 17]), struct.unpack(">H", buf[off + 17:off + 19])[0], off + 19
    if t == 3:
        if len(buf) < off + 2:
            return None
        n = buf[off + 1]
        if len(buf) < off + 2 + n + 2:
            return None
        return buf[off + 2:off + 2 + n].decode("latin1"), struct.unpack(">H", buf[off + 2 + n:off + 4 + n])[0], off + 4 + n
    raise ValueError("bad address type %d" % t)


class RawConn:
    """A non-blocking TCP socket driven through the event loop's sock_* calls: exact kernel semantics
    (queued data is returned before a reset is reported), no user-space stream buffering that could hide them."""

    def __init__(self, sock):
        self.sock = sock
        sock.setblocking(False)
        try:
            sock.setsockopt(socket.IPPROTO_TCP, socket.TCP_NODELAY, 1)
        except OSError:
            pass
        self.buf = b""
        self.loop = asyncio.get_event_loop()
        self.closed = False

    @classmethod
    async def connect(cls, host, port, timeout=10.0):
        s = socket.socket(socket.AF_INET, socket.SOCK_STREAM)
        s.setblocking(False)
        try:
            await asyncio.wait_for(asyncio.get_event_loop().sock_connect(s, (host, port)), timeout)
        except BaseException:
            s.close()
            raise
        return cls(s)

    async def recv(self, n=1 << 16):
        """b'' = end of stream; raises ConnectionError on reset."""
        if self.buf:
            d, self.buf = self.buf[:n], self.buf[n:]
            return d
        return await self.loop.sock_recv(self.sock, n)

    async def read_exact(self, n, timeout=10.0):
        async def go():
            while len(self.buf) < n:
                d = await self.loop.sock_recv(self.sock, 1 << 16)
                if not d:
                    raise asyncio.IncompleteReadError(self.buf, n)
                self.buf += d
            d, self.buf = self.buf[:n], self.buf[n:]
            return d
        return await asyncio.wait_for(go(), timeout)

    async def read_until(self, sep, timeout=10.0, limit=1 << 20):
        async def go():
            while sep not in self.buf:
                d = await self.loop.sock_recv(self.sock, 1 << 16)
                if not d:
                    raise asyncio.IncompleteReadError(self.buf, None)
                self.buf += d
                if len(self.buf) > limit:
                    raise ValueError("separator not found")
            i = self.buf.index(sep) + len(sep)
            d, self.buf = self.buf[:i], self.buf[i:]
            return d
        return await asyncio.wait_for(go(), timeout)

    async def sendall(self, data):
        await self.loop.sock_sendall(self.sock, data)

    async def wait_acked(self, cap):
        """True once the socket's send queue is empty (SIOCOUTQ = 0: everything written has been acknowledged by the peer)."""
        import fcntl
        import termios
        t0 = time.monotonic()
        while True:
            try:
                left = struct.unpack("i", fcntl.ioctl(self.sock.fileno(), termios.TIOCOUTQ, b"\0\0\0\0"))[0]
            except OSError:
                return False
            if left == 0:
                return True
            if time.monotonic() - t0 > cap:
                return False
            await asyncio.sleep(0.01)

    def shutdown_wr(self):
        try:
            self.sock.shutdown(socket.SHUT_WR)
        except OSError:
            pass

    def close(self):
        if not self.closed:
            self.closed = True
            try:
                self.sock.close()
            except OSError:
                pass

    def abort(self):
        """abortive close: the kernel sends a reset"""
        if not self.closed:
            try:
                self.sock.setsockopt(socket.SOL_SOCKET, socket.SO_LINGER, struct.pack("ii", 1, 0))
            except OSError:
                pass
            self.close()


async def open_local(kind, client_port, host, port, timeout=10.0):
    """Perform the local handshake of `kind` with the client. Returns (conn, preface) where preface is what the
    application has to send first as tunnel payload (the request head for plain HTTP, else b'')."""
    c = await RawConn.connect("127.0.0.1", client_port, timeout)
    try:
        hostport = ("[%s]:%d" % (host, port)) if ":" in host else "%s:%d" % (host, port)
        if kind == "socks5":
            await c.sendall(b"\x05\x01\x00")
            r = await c.read_exact(2, timeout)
            if r != b"\x05\x00":
                raise HandshakeRefused("socks5 greeting answered %r" % r)
            await c.sendall(b"\x05\x01\x00" + socks5_addr(host, port))
            head = await c.read_exact(4, timeout)
            if head[1] != 0:
                raise HandshakeRefused("socks5 reply status %d" % head[1])
            rest = {1: 6, 4: 18}.get(head[3])
            if rest is None:
                n = (await c.read_exact(1, timeout))[0]
                rest = n + 2
            await c.read_exact(rest, timeout)
            return c, b""
        if kind == "connect":
            await c.sendall(("CONNECT %s HTTP/1.1\r\nHost: %s\r\nProxy-Connection: keep-alive\r\n\r\n" % (hostport, hostport)).encode())
            line = await c.read_until(b"\r\n\r\n", timeout)
            if b" 200 " not in line.split(b"\r\n")[0]:
                raise HandshakeRefused("CONNECT answered %r" % line[:60])
            return c, b""
        if kind == "http":
            head = ("GET http://%s/verif/%d HTTP/1.1\r\nHost: %s\r\nX-Fill: %s\r\n\r\n" % (hostport, port, hostport, "y" * 24)).encode()
            return c, head
        raise ValueError(kind)
    except BaseException:
        c.close()
        raise


class HandshakeRefused(Exception):
    pass


# ---------------------------------------------------------------------------------------------------------------
# event log

class Log:
    """Totally ordered event list of one harness run (single event loop => append order is a linearisation)."""

    def __init__(self):
        self.events = []

    def add(self, ev, **kw):
        kw["ev"] = ev
        self.events.append(kw)

    def of_flow(self, f):
        return [e for e in self.events if e.get("f") == f]


def write_ndjson(path, events):
    with open(path, "w") as fh:
        for e in events:
            fh.write(json.dumps(e, sort_keys=True) + "\n")


# ---------------------------------------------------------------------------------------------------------------
# TCP flows: scripted application + scripted target, one listener per flow

LOOP_IPS = ["127.0.0.1", "127.0.0.2", "127.0.0.3"]


LAPSE_S = 1.0
_listener_port = [0]


def next_listener_port():
    """Ports for the scripted targets: counted upwards inside the upper part of the ephemeral range, each number once."""
    lo, hi = _ephemeral_range()
    lo = max(lo, hi - 20000)
    if _listener_port[0] == 0:
        _listener_port[0] = lo + (os.getpid() * 613) % 5000
    _listener_port[0] += 1
    if _listener_port[0] >= hi:
        _listener_port[0] = lo
    return _listener_port[0]


class TcpFlow:
    """One scripted TCP flow. The script is a list of steps executed in order by one coroutine that owns both the
    application socket and (once the server has dialled) the target socket; two reader tasks log what arrives.

    steps:  ("up", n) ("down", n) ("pause", seconds) ("sync",)            write / wait until everything sent has arrived
            ("app_close", how) ("tgt_close", how)   how in fin | close | rst
            ("wait_end", side)                      wait (bounded) until `side` (app | tgt) has observed an end
            ("wait_dial",)
            ("throttle", side, seconds)             from now on the reader of `side` sleeps that long after every recv (slow reader:
                                                    the chain behind it fills up, the relay works under back-pressure)
            ("link_slow", seconds)                  the middlebox (when there is one, TCP links) forwards this flow's link slowly from now on
            ("hold",)                               keep both sockets as they are and stay silent until the batch releases the flow
    reach: "ok" | "refused" (nothing listens at the requested port) | "unresolvable" (a name that does not resolve)
    """

    def __init__(self, fid, kind, host, steps, seed, log, chunk=1 << 16, hostname=None, reach="ok", mbox=None):
        self.f = fid
        self.mbox = mbox
        self.link = None
        self.kind = kind
        self.ip = host                  # address the listener binds
        self.hostname = hostname or host  # what the application asks for
        self.steps = steps
        self.log = log
        self.seed = seed
        self.chunk = chunk
        self.reach = reach
        self.port = None
        self.lsock = None
        self.app = self.tgt = None      # RawConn
        self.dialed = asyncio.Event()
        self.sent = {"up": 0, "down": 0}
        self.got = {"up": 0, "down": 0}
        self.ended = {"app": None, "tgt": None}
        self.end_ev = {"app": asyncio.Event(), "tgt": asyncio.Event()}
        self.closed = {"app": None, "tgt": None}
        self.waited = {"app": False, "tgt": False}
        self.progress = asyncio.Event()
        self.rtask = {"app": None, "tgt": None}
        self.atask = None
        self.preface = b""
        self.lapsed = False
        self.t_dir = {"up": 0.0, "down": 0.0}        # monotonic time of the latest write / arrival per direction
        self.t_closed = {"app": 0.0, "tgt": 0.0}
        self.t_end = {"app": None, "tgt": None}      # when that side observed its end
        self.throttle = {"app": 0.0, "tgt": 0.0}   # seconds slept by the reader of that side after each recv (slow reader)
        self.hold = None                # (arrived: asyncio.Event, release: asyncio.Event) given by run_batch for ("hold",)
        self.small_rcvbuf = any(s[0] == "throttle" for s in steps)
        total_up = sum(s[1] for s in steps if s[0] == "up") + 4096
        total_down = sum(s[1] for s in steps if s[0] == "down") + 4096
        self.prf = {"up": Prf(seed, "f%d-up" % fid, total_up), "down": Prf(seed, "f%d-down" % fid, total_down)}

    # -- logging with coalescing of consecutive arrivals of the same flow
    def _ev(self, ev, **kw):
        kw["f"] = self.f
        # Lapse (RelayAbs): one side X has closed and the direction TOWARDS X (the answer) has carried nothing for LAPSE_S
        # seconds (half of the relay's close grace) - and that silence is the outer parties' own: either the other side had
        # observed X's end when it began (it was its turn to answer), or it was still being handed X's data during it (a
        # slow reader: the end could not have reached it yet).  Silence while the end is not passed on although nothing is
        # in the way is the relay's doing and excuses nothing.
        now = time.monotonic()
        if ev in ("AppClose", "TgtClose"):
            self.t_closed["app" if ev == "AppClose" else "tgt"] = now
        if not self.lapsed:
            for closer, other, ans, req in (("app", "tgt", "down", "up"), ("tgt", "app", "up", "down")):
                if not self.closed[closer] or not self.t_closed[closer]:
                    continue
                since = max(self.t_dir[ans], self.t_closed[closer])
                told = self.t_end[other] is not None and now - max(since, self.t_end[other]) >= LAPSE_S
                busy = now - since >= LAPSE_S and now - self.t_dir[req] < LAPSE_S and self.t_end[other] is None
                if told or busy:
                    self.lapsed = True
                    self.log.add("Lapse", f=self.f, gap=round(now - since, 2), why="told" if told else "still reading")
                    break
        if ev in ("AppWrote", "TgtGot"):
            self.t_dir["up"] = now
        elif ev in ("TgtWrote", "AppGot"):
            self.t_dir["down"] = now
        elif ev in ("AppEnd", "TgtEnd"):
            self.t_end["app" if ev == "AppEnd" else "tgt"] = now
        if ev in ("TgtGot", "AppGot"):
            for e in reversed(self.log.events):
                if e.get("f") == self.f:
                    if e["ev"] == ev and e["ok"] and kw["ok"]:
                        e["n"] += kw["n"]
                        return
                    break
        self.log.add(ev, **kw)

    async def listen(self):
        # the listener's port is never used twice by this harness process: a connection that a starved server makes late,
        # for a flow that has ended long ago, must not arrive at the listener of a later flow that was given the same number
        s = socket.socket(socket.AF_INET, socket.SOCK_STREAM)
        for _ in range(2000):
            port = next_listener_port()
            try:
                s.bind((self.ip, port))
                break
            except OSError:
                continue
        else:
            s.bind((self.ip, 0))
        self.port = s.getsockname()[1]
        if self.reach == "refused":
            s.close()               # the port was free a moment ago and nothing listens on it now
            return
        if self.small_rcvbuf:
            s.setsockopt(socket.SOL_SOCKET, socket.SO_RCVBUF, 1 << 16)
        s.listen(16)
        s.setblocking(False)
        self.lsock = s
        self.atask = asyncio.ensure_future(self._accept())

    async def _accept(self):
        loop = asyncio.get_event_loop()
        while True:
            conn, _ = await loop.sock_accept(self.lsock)
            self._ev("Dial", lis=self.f)
            if self.tgt is not None:
                conn.close()        # a second connection at this flow's listener: logged, the specification refuses it
                continue
            self.tgt = RawConn(conn)
            self.dialed.set()
            self.rtask["tgt"] = asyncio.ensure_future(self._reader("tgt", self.tgt, "up", "TgtGot"))

    async def _reader(self, side, conn, direction, ev):
        prf = self.prf[direction]
        endev = "TgtEnd" if side == "tgt" else "AppEnd"
        try:
            while True:
                try:
                    data = await conn.recv(1 << 16)
                except (ConnectionError, OSError):
                    self.ended[side] = "rst"
                    self._ev(endev, how="rst")
                    break
                if not data:
                    self.ended[side] = "eof"
                    self._ev(endev, how="eof")
                    break
                pre = self.preface if direction == "up" else b""
                off = self.got[direction]
                if off < len(pre):
                    k = min(len(pre) - off, len(data))
                    ok = data[:k] == pre[off:off + k] and data[k:] == prf.span(0, len(data) - k)
                else:
                    ok = data == prf.span(off - len(pre), len(data))
                self.got[direction] += len(data)
                self._ev(ev, n=len(data), ok=bool(ok))
                self.progress.set()
                if self.throttle[side]:
                    await asyncio.sleep(self.throttle[side])
        finally:
            self.end_ev[side].set()
            self.progress.set()

    async def _write(self, direction, n):
        conn = self.app if direction == "up" else self.tgt
        prf = self.prf[direction]
        pre = len(self.preface) if direction == "up" else 0
        left = n
        while left > 0:
            k = min(left, self.chunk)
            off = self.sent[direction] - pre
            self._ev("AppWrote" if direction == "up" else "TgtWrote", n=k)
            self.sent[direction] += k
            try:
                await asyncio.wait_for(conn.sendall(prf.span(off, k)), 30)
            except (ConnectionError, OSError):
                self._ev("AppWriteFailed" if direction == "up" else "TgtWriteFailed")
                return False
            except asyncio.TimeoutError:
                self._ev("AppWriteStalled" if direction == "up" else "TgtWriteStalled")
                return False
            left -= k
        return True

    async def _close(self, side, how):
        conn = self.app if side == "app" else self.tgt
        if conn is None or self.closed[side]:
            return
        if how != "fin":
            # stop our own reader first: after close()/abort nothing more is observed on this side
            t = self.rtask[side]
            if t is not None and not t.done():
                t.cancel()
                try:
                    await t
                except (asyncio.CancelledError, Exception):
                    pass
            if self.ended[side]:
                return      # the peer's end was already observed; closing now is not an event of the script
        self.closed[side] = how
        extra = {}
        if how == "rst" and side == "tgt":
            # has the server's kernel acknowledged everything the target wrote?  (bounded wait; only then is the answer owed)
            extra["acked"] = await conn.wait_acked(1.5)
        self._ev("AppClose" if side == "app" else "TgtClose", how=how, **extra)
        if how == "fin":
            conn.shutdown_wr()
        elif how == "rst":
            conn.abort()
        else:
            conn.close()

    async def _sync(self, cap):
        t0 = time.time()
        while time.time() - t0 < cap:
            if self.got["up"] >= self.sent["up"] and self.got["down"] >= self.sent["down"]:
                return True
            if self.ended["app"] or self.ended["tgt"] or self.closed["app"] or self.closed["tgt"]:
                return False
            self.progress.clear()
            try:
                await asyncio.wait_for(self.progress.wait(), 0.25)
            except asyncio.TimeoutError:
                pass
        return self.got["up"] >= self.sent["up"] and self.got["down"] >= self.sent["down"]

    async def run(self, client_port, sync_cap=20.0, end_cap=6.0, dial_cap=6.0):
        """Executes the script; behaviour of the system under test never raises (it is data in the log)."""
        try:
            if self.mbox is not None:
                await self.mbox.assoc_lock.acquire()
            try:
                n0 = len(self.mbox.links) if self.mbox is not None else 0
                try:
                    self.app, self.preface = await open_local(self.kind, client_port, self.hostname, self.port)
                except HandshakeRefused as e:
                    self._ev("Refused", why=str(e)[:80])
                    return
                except (ConnectionError, OSError, asyncio.TimeoutError, asyncio.IncompleteReadError) as e:
                    self._ev("Refused", why=type(e).__name__)
                    return
                if self.small_rcvbuf:
                    try:
                        self.app.sock.setsockopt(socket.SOL_SOCKET, socket.SO_RCVBUF, 1 << 16)
                    except OSError:
                        pass
                self._ev("Open", kind=self.kind, want=self.f, reach=self.reach)
                self.rtask["app"] = asyncio.ensure_future(self._reader("app", self.app, "down", "AppGot"))
                if self.preface:
                    self._ev("AppWrote", n=len(self.preface))
                    self.sent["up"] += len(self.preface)
                    await self.app.sendall(self.preface)
                if self.mbox is not None:
                    # the client opens this flow's link connection right after the local handshake: the next new link is ours
                    self.link = await self.mbox.wait_new(n0)
            finally:
                if self.mbox is not None:
                    self.mbox.assoc_lock.release()
            for st in self.steps:
                op = st[0]
                if op == "up":
                    if self.closed["app"] or self.ended["app"] == "rst":
                        continue
                    await self._write("up", st[1])
                elif op == "down":
                    if not await self._wait_dial(dial_cap) or self.closed["tgt"] or self.ended["tgt"] == "rst":
                        continue
                    await self._write("down", st[1])
                elif op == "pause":
                    await asyncio.sleep(st[1])
                elif op == "sync":
                    if self.sent["up"] > 0 and not await self._wait_dial(dial_cap):
                        continue
                    ok = await self._sync(sync_cap)
                    self._ev("Synced", ok=ok)
                elif op == "app_close":
                    await self._close("app", st[1])
                elif op == "tgt_close":
                    if await self._wait_dial(dial_cap):
                        await self._close("tgt", st[1])
                elif op == "wait_end":
                    side = st[1]
                    if side == "tgt" and not await self._wait_dial(dial_cap):
                        continue
                    if self.closed[side] in ("close", "rst"):
                        continue
                    self.waited[side] = True
                    try:
                        await asyncio.wait_for(self.end_ev[side].wait(), end_cap)
                    except asyncio.TimeoutError:
                        pass
                elif op == "wait_dial":
                    await self._wait_dial(dial_cap)
                elif op == "throttle":
                    self.throttle[st[1]] = st[2]
                elif op == "link_slow":
                    if self.link is not None and not self.mbox.udp:
                        self.mbox.slow(self.link, st[1])
                elif op == "hold":
                    if self.hold is not None:
                        self.hold[0].set()
                        await self.hold[1].wait()
                        self._ev("Released")
                elif op == "cut":
                    if self.link is not None and not self.link.cut:
                        self._ev("Fault", how=st[1])
                        self.mbox.cut(self.link, st[1])
            self._ev("Quiesce", wa=self.waited["app"], wt=self.waited["tgt"])
        finally:
            await self.finish()

    async def _wait_dial(self, cap):
        if self.dialed.is_set():
            return True
        if self.lsock is None:
            return False
        try:
            await asyncio.wait_for(self.dialed.wait(), cap)
            return True
        except asyncio.TimeoutError:
            self._ev("NoDial")
            return False

    async def finish(self):
        for t in [self.rtask["app"], self.rtask["tgt"], self.atask]:
            if t is not None and not t.done():
                t.cancel()
                try:
                    await t
                except (asyncio.CancelledError, Exception):
                    pass
        for c in (self.app, self.tgt):
            if c is not None:
                c.close()
        if self.lsock is not None:
            self.lsock.close()


def trace_of_flow(log, f):
    """Events of flow f, in log order, as NDJSON-ready dicts (field f dropped)."""
    return [{k: v for k, v in e.items() if k != "f"} for e in log.events if e.get("f") == f]
