"""Fault catalogue of C08 (Service.tla's AllFaults) as injectors for Engine B, and the canaries that use the service
afterwards like a well-behaved user.  Nothing here gives a verdict: it logs Fault / CanaryTcp / CanaryUdp events."""
import asyncio
import os
import random
import resource
import socket
import ssl
import struct

from lib import e2e, udprun

NOFILE = 360


def limit_nofile():
    resource.setrlimit(resource.RLIMIT_NOFILE, (NOFILE, NOFILE))


class Ctx:
    def __init__(self, dep, conf, world, log, seed, tmb=None, umb=None):
        self.dep, self.conf, self.w, self.log, self.seed = dep, conf, world, log, seed
        self.tmb, self.umb = tmb, umb
        self.held = []
        self.crowds = set()
        self.fid = 100
        self.rnd = random.Random(seed)
        self.last_up = None        # last client->server datagram seen by the UDP middlebox (Shadowsocks)
        self.last_down = None
        self.up_link = None

    def next_fid(self):
        self.fid += 1
        return self.fid

    async def close(self):
        for c in self.held:
            c.close()
        self.held = []
        self.crowds = set()


async def _raw(port, timeout=3.0):
    return await e2e.RawConn.connect("127.0.0.1", port, timeout)


async def _flow(ctx, steps, reach="ok", kind="socks5", chunk=1 << 16):
    log = e2e.Log()
    fl = e2e.TcpFlow(ctx.next_fid(), kind, "127.0.0.1", steps, ctx.seed, log, chunk=chunk, reach=reach,
                     hostname=("no-such-host-%d.invalid" % ctx.fid) if reach == "unresolvable" else None)
    await fl.listen()
    await fl.run(ctx.dep.client_port, sync_cap=6.0, end_cap=4.0, dial_cap=4.0)
    return log


async def tcp_silent_server(ctx):
    ctx.held.append(await _raw(ctx.dep.server_port))


async def tcp_silent_client(ctx):
    ctx.held.append(await _raw(ctx.dep.client_port))


async def _crowd(ctx, port, tag, n=100):
    """A hundred peers that connect and then say nothing, or half of a TLS record, and stay connected while the
    service is used (once per run: a second crowd would exhaust the descriptors for good, which is not a per-flow fault)."""
    if tag in ctx.crowds:
        return
    ctx.crowds.add(tag)
    for i in range(n):
        try:
            c = await _raw(port, timeout=2.0)
        except (OSError, asyncio.TimeoutError):
            break
        ctx.held.append(c)
        if i % 2:
            # half of a first message: half a TLS record for the server, half a SOCKS5 greeting for the client's local port
            await c.sendall(b"\x16\x03\x01\x02\x00\x01\x00\x01\xfc\x03\x03" + ctx.rnd.randbytes(40) if tag == "s" else b"\x05")
    await asyncio.sleep(0.3)


async def silent_crowd_server(ctx):
    await _crowd(ctx, ctx.dep.server_port, "s")


async def silent_crowd_client(ctx):
    await _crowd(ctx, ctx.dep.client_port, "c")


async def tls_garbage(ctx):
    c = await _raw(ctx.dep.server_port)
    await c.sendall(ctx.rnd.randbytes(300))
    await asyncio.sleep(0.1)
    c.close()


async def ws_garbage(ctx):
    """Bytes that are not a WebSocket upgrade, after whatever the transport needs first (TLS for wss)."""
    loop = asyncio.get_event_loop()
    if ctx.conf.transport in ("wss", "tls"):
        def go():
            cx = ssl.create_default_context()
            cx.check_hostname = False
            cx.verify_mode = ssl.CERT_NONE
            try:
                with socket.create_connection(("127.0.0.1", ctx.dep.server_port), timeout=3) as s:
                    with cx.wrap_socket(s, server_hostname="localhost") as t:
                        t.sendall(b"GET /nothing HTTP/1.0\r\nX: y\r\n\r\n" + os.urandom(200))
                        t.settimeout(0.3)
                        try:
                            t.recv(100)
                        except OSError:
                            pass
            except OSError:
                pass
        await loop.run_in_executor(None, go)
    else:
        c = await _raw(ctx.dep.server_port)
        await c.sendall(b"GET /nothing HTTP/1.0\r\nX: y\r\n\r\n" + ctx.rnd.randbytes(200))
        await asyncio.sleep(0.1)
        c.close()


async def reset_at_server(ctx):
    c = await _raw(ctx.dep.server_port)
    await c.sendall(ctx.rnd.randbytes(10))
    c.abort()


async def half_local_handshake(ctx):
    c = await _raw(ctx.dep.client_port)
    await c.sendall(b"\x05")
    await asyncio.sleep(0.05)
    c.abort()


async def unresolvable_tcp(ctx):
    await _flow(ctx, [("up", 500), ("wait_end", "app")], reach="unresolvable")


async def refused_tcp(ctx):
    await _flow(ctx, [("up", 500), ("wait_end", "app")], reach="refused")


async def target_resets(ctx):
    await _flow(ctx, [("up", 1000), ("down", 120000), ("tgt_close", "rst"), ("wait_end", "app")])


async def app_resets(ctx):
    await _flow(ctx, [("up", 60000), ("down", 5000), ("app_close", "rst"), ("wait_end", "tgt")])


async def garbage_datagram(ctx):
    s = socket.socket(socket.AF_INET, socket.SOCK_DGRAM)
    for n in (1, 40, 300):
        s.sendto(ctx.rnd.randbytes(n), ("127.0.0.1", ctx.dep.server_port))
    s.close()
    await asyncio.sleep(0.05)


async def replayed_datagram(ctx):
    """A recorded datagram of the well-behaved user's own session is presented again, in both directions."""
    if ctx.umb is None or ctx.last_up is None:
        return
    ln, data = ctx.last_up
    ctx.umb.inject(ln, 0, data)
    if ctx.last_down is not None:
        ln2, d2 = ctx.last_down
        ctx.umb.inject(ln2, 1, d2)
    await asyncio.sleep(0.1)


async def unresolvable_udp(ctx):
    """The well-behaved user's own application addresses a name that does not resolve (same session / binding)."""
    hdr = b"\x00\x00\x00" + e2e.socks5_addr("no-such-host-udp.invalid", 5353)
    ctx.w.send(1, 1, 64, rep=0, must=False, raw_header=hdr)
    await asyncio.sleep(0.15)


def _local(ctx, payload):
    s = socket.socket(socket.AF_INET, socket.SOCK_DGRAM)
    s.sendto(payload, ("127.0.0.1", ctx.dep.client_port))
    s.close()


async def malformed_local_short(ctx):
    _local(ctx, b"\x00\x00")
    await asyncio.sleep(0.05)


async def malformed_local_frag(ctx):
    _local(ctx, b"\x00\x00\x01\x01\x7f\x00\x00\x01\x00\x35fragment")
    await asyncio.sleep(0.05)


async def malformed_local_type(ctx):
    _local(ctx, b"\x00\x00\x00\x09\x7f\x00\x00\x01\x00\x35badtype")
    _local(ctx, b"\x00\x00\x00\x03\x40short")
    await asyncio.sleep(0.05)


async def oversized_datagram(ctx):
    """Fits one local datagram, but not one datagram / chunk after the protocol's framing is added."""
    ctx.w.send(2, 1, 65480, rep=0, must=False)
    await asyncio.sleep(0.15)


async def oversized_reply(ctx):
    ctx.w.send(2, 1, 200, rep=1, rsize=65505, must=True)
    ctx.w.no_must_reply.add(len(ctx.w.sent))
    await asyncio.sleep(0.2)


async def empty_datagram(ctx):
    """An application sends a datagram with no payload to a target that answers with a datagram with no payload: legal in
    every protocol, and the one case in which the Shadowsocks 2022 encoders add padding."""
    loop = asyncio.get_event_loop()
    tgt = socket.socket(socket.AF_INET, socket.SOCK_DGRAM)
    tgt.bind(("127.0.0.1", 0))
    tgt.setblocking(False)
    echoed = [0]

    def echo():
        try:
            while True:
                data, peer = tgt.recvfrom(1 << 16)
                tgt.sendto(data, peer)
                echoed[0] += 1
        except (BlockingIOError, OSError):
            pass
    loop.add_reader(tgt.fileno(), echo)
    try:
        for k in range(4):
            s = socket.socket(socket.AF_INET, socket.SOCK_DGRAM)
            s.bind(("127.0.0.1", 0))
            s.sendto(b"\x00\x00\x00" + e2e.socks5_addr("127.0.0.1", tgt.getsockname()[1]), ("127.0.0.1", ctx.dep.client_port))
            await asyncio.sleep(0.08)
            s.close()
        await asyncio.sleep(0.1)
    finally:
        loop.remove_reader(tgt.fileno())
        tgt.close()


async def _exhaust(port, n=NOFILE + 60):
    conns = []
    for _ in range(n):
        try:
            conns.append(await _raw(port, timeout=1.0))
        except (OSError, asyncio.TimeoutError):
            break
    await asyncio.sleep(0.6)
    for c in conns:
        c.close()
    await asyncio.sleep(0.5)


async def fd_exhaust_server(ctx):
    await _exhaust(ctx.dep.server_port)


async def fd_exhaust_client(ctx):
    await _exhaust(ctx.dep.client_port)


INJECT = {
    "SilentCrowdServer": silent_crowd_server, "SilentCrowdClient": silent_crowd_client,
    "TcpSilentServer": tcp_silent_server, "TcpSilentClient": tcp_silent_client, "TlsGarbage": tls_garbage, "WsGarbage": ws_garbage,
    "ResetAtServer": reset_at_server, "HalfLocalHandshake": half_local_handshake, "UnresolvableTcp": unresolvable_tcp,
    "RefusedTcp": refused_tcp, "TargetResets": target_resets, "AppResets": app_resets, "GarbageDatagram": garbage_datagram,
    "ReplayedDatagram": replayed_datagram, "UnresolvableUdp": unresolvable_udp, "MalformedLocalShort": malformed_local_short,
    "MalformedLocalFrag": malformed_local_frag, "MalformedLocalType": malformed_local_type, "OversizedDatagram": oversized_datagram,
    "OversizedReply": oversized_reply, "EmptyDatagram": empty_datagram, "FdExhaustServer": fd_exhaust_server, "FdExhaustClient": fd_exhaust_client,
}


# -- canaries ---------------------------------------------------------------------------------------------------

async def canary_tcp(ctx, attempts=2):
    for k in range(attempts):
        log = await _flow(ctx, [("up", 2000), ("down", 3000), ("sync",), ("app_close", "fin"), ("wait_end", "tgt")])
        if any(e["ev"] == "Synced" and e["ok"] for e in log.events):
            return True
        await asyncio.sleep(1.0)
    return False


async def canary_udp(ctx, same, attempts=2):
    for k in range(attempts):
        if same:
            aid = 1
        else:
            aid = 1000 + len(ctx.w.apps)
            ctx.w.add_app(aid, 0)
        n0 = sum(1 for e in ctx.w.log.events if e["ev"] == "AppGot" and e["app"] == aid and e["ok"])
        ctx.w.send(aid, 1, 300 + k, rep=1, must=True)
        for _ in range(30):
            await asyncio.sleep(0.1)
            if sum(1 for e in ctx.w.log.events if e["ev"] == "AppGot" and e["app"] == aid and e["ok"]) > n0:
                return True
    return False
