"""Engine B, datagram side (C02, C08, C09, C11): scripted SOCKS5-UDP applications and scripted UDP targets around real
client and server processes, all inside the single event loop of lib.e2e, so the event list is a linearisation:
AppSent / TgtReplied are logged before the send, TgtGot / AppGot after the receive returned.

Every datagram carries its identity: 16 bytes header (magic, kind, id, declared length, reply plan) followed by
position-addressed pseudo-random fill; datagrams shorter than the header are pure fill and recognised by (kind, length),
each such length being used at most once per scenario."""
import asyncio
import socket
import struct
import time

from lib import e2e

MAGIC = b"oV"
HDR = 16
LAST_OCTET = {"127.0.0.1": 1, "127.0.0.2": 2, "127.0.0.3": 3}


def fill(seed, kind, ident, n):
    return e2e.Prf(seed, "udp-%s-%d" % (kind, ident), max(n, 1)).span(0, n)


def build(seed, kind, ident, n, rep=0, rsize=0, via=0):
    """Datagram payload of exactly n bytes."""
    if n < HDR:
        return fill(seed, kind + "tiny", n, n)
    h = MAGIC + kind.encode() + bytes([rep & 0xff]) + struct.pack(">III", ident, n, (rsize << 4) | (via & 0xf))
    return h + fill(seed, kind, ident, n - HDR)


def parse(data, kind):
    """-> (ident, declared_len, rep, rsize, via) or None"""
    if len(data) < HDR or data[:2] != MAGIC or data[2:3] != kind.encode():
        return None
    ident, n, x = struct.unpack(">III", data[4:16])
    return ident, n, data[3], x >> 4, x & 0xf


class World:
    """Applications, targets and the event log of one scenario on one deployment (plus optional further clients)."""

    def __init__(self, client_ports, log, seed):
        self.client_ports = client_ports          # index -> UDP port of that client's local listener
        self.log = log
        self.seed = seed
        self.loop = asyncio.get_event_loop()
        self.apps = {}
        self.tgts = {}
        self.tiny = {}                            # (kind, len) -> (ident, rep, rsize, via)
        self.pending = set()                      # must-datagrams not yet seen
        self.progress = asyncio.Event()
        self.next_rid = 1
        self.sent = {}                            # pid -> (app, tgt, n)
        self.replied = {}                         # rid -> (tgt, src, n)
        self.no_must_reply = set()                # pids whose replies the observer does not insist on

    # -- sockets
    def add_app(self, aid, client=0):
        s = socket.socket(socket.AF_INET, socket.SOCK_DGRAM)
        s.bind(("127.0.0.1", 0))
        s.setblocking(False)
        try:
            s.setsockopt(socket.SOL_SOCKET, socket.SO_RCVBUF, 4 << 20)
        except OSError:
            pass
        self.apps[aid] = {"sock": s, "client": client}
        self.loop.add_reader(s.fileno(), self._app_readable, aid)

    def add_target(self, tid, ip="127.0.0.1", name=None):
        s = socket.socket(socket.AF_INET, socket.SOCK_DGRAM)
        s.bind((ip, 0))
        s.setblocking(False)
        try:
            s.setsockopt(socket.SOL_SOCKET, socket.SO_RCVBUF, 4 << 20)
        except OSError:
            pass
        self.tgts[tid] = {"sock": s, "ip": ip, "port": s.getsockname()[1], "name": name}
        self.loop.add_reader(s.fileno(), self._tgt_readable, tid)

    def close(self):
        for d in list(self.apps.values()) + list(self.tgts.values()):
            try:
                self.loop.remove_reader(d["sock"].fileno())
            except Exception:
                pass
            d["sock"].close()

    def close_app(self, aid):
        d = self.apps.pop(aid)
        try:
            self.loop.remove_reader(d["sock"].fileno())
        except Exception:
            pass
        d["sock"].close()

    # -- sending
    def send(self, aid, tid, n, rep=1, rsize=None, via=0, must=True, raw_header=None, to=None):
        """Application aid sends one datagram of n payload bytes to target tid through its client."""
        pid = len(self.sent) + 1
        rsize = n if rsize is None else rsize
        t = self.tgts[tid]
        host = t["name"] or t["ip"]
        if n < HDR:
            self.tiny[("Q", n)] = (pid, rep, rsize, via)
        payload = build(self.seed, "Q", pid, n, rep, rsize, via)
        hdr = raw_header if raw_header is not None else b"\x00\x00\x00" + e2e.socks5_addr(host, t["port"])
        self.sent[pid] = (aid, tid, n)
        if not getattr(self, "reply_must", True):
            self.no_must_reply.add(pid)
        self.log.add("AppSent", app=aid, tgt=tid, pid=pid, len=n, must=bool(must))
        if must:
            self.pending.add(("Q", pid))
        a = self.apps[aid]
        try:
            a["sock"].sendto(hdr + payload, to or ("127.0.0.1", self.client_ports[a["client"]]))
        except OSError as e:
            # the application's own kernel refused the datagram (too long for one UDP datagram): it was never sent
            self.log.events.pop()
            self.pending.discard(("Q", pid))
            del self.sent[pid]
            return None
        return pid

    def _tgt_readable(self, tid):
        t = self.tgts[tid]
        while True:
            try:
                data, peer = t["sock"].recvfrom(1 << 16)
            except (BlockingIOError, InterruptedError):
                return
            except OSError:
                return
            src = peer[1] + 100000 * LAST_OCTET.get(peer[0], 9)
            info = parse(data, "Q")
            if info is None and len(data) < HDR and ("Q", len(data)) in self.tiny:
                pid, rep, rsize, via = self.tiny[("Q", len(data))]
                ok = data == build(self.seed, "Q", pid, len(data))
                info = (pid, len(data), rep, rsize, via)
            elif info is not None:
                pid, n, rep, rsize, via = info
                ok = len(data) == n and data == build(self.seed, "Q", pid, n, rep, rsize, via)
            if info is None:
                self.log.add("TgtAlien", tgt=tid, len=len(data), src=src, head=data[:24].hex())
                continue
            pid, n, rep, rsize, via = info
            self.log.add("TgtGot", tgt=tid, pid=pid, len=len(data), ok=bool(ok), src=src)
            self.pending.discard(("Q", pid))
            self.progress.set()
            if ok:
                for k in range(rep):
                    self._reply(via or tid, peer, src, rsize, must=pid not in self.no_must_reply, pid=pid)

    def _reply(self, tid, peer, src, n, must=True, pid=None):
        rid = self.next_rid
        self.next_rid += 1
        if n < HDR:
            # recognised by its length: every tiny length stands for one reply only
            n = next((k for k in [n] + list(range(HDR)) if ("R", k) not in self.tiny), HDR)
        if n < HDR:
            self.tiny[("R", n)] = (rid, 0, 0, 0)
        payload = build(self.seed, "R", rid, n)
        self.replied[rid] = (tid, src, n)
        must = must and n <= getattr(self, 'cap', 65000)
        self.log.add("TgtReplied", tgt=tid, rid=rid, src=src, len=n, must=bool(must))
        if must:
            self.pending.add(("R", rid))
        try:
            self.tgts[tid]["sock"].sendto(payload, peer)
        except OSError:
            self.log.events.pop()
            self.pending.discard(("R", rid))
            del self.replied[rid]

    def _label(self, host, port):
        for tid, t in self.tgts.items():
            if port == t["port"] and (host == t["ip"] or (t["name"] is not None and host == t["name"])
                                      or (host == "localhost" and t["ip"] == "127.0.0.1")):
                return tid
        return 0

    def _app_readable(self, aid):
        a = self.apps.get(aid)
        if a is None:
            return
        while True:
            try:
                data, peer = a["sock"].recvfrom(1 << 16)
            except (BlockingIOError, InterruptedError):
                return
            except OSError:
                return
            label = 0
            body = None
            if len(data) >= 4 and data[:3] == b"\x00\x00\x00":
                try:
                    r = e2e.parse_socks5_addr(data, 3)
                except ValueError:
                    r = None
                if r is not None:
                    host, port, off = r
                    label = self._label(host, port)
                    body = data[off:]
            if body is None:
                self.log.add("AppAlien", app=aid, len=len(data), head=data[:24].hex(), why="no SOCKS5-UDP header")
                continue
            info = parse(body, "R")
            if info is None and len(body) < HDR and ("R", len(body)) in self.tiny:
                rid = self.tiny[("R", len(body))][0]
                ok = body == build(self.seed, "R", rid, len(body))
            elif info is not None:
                rid, n = info[0], info[1]
                ok = len(body) == n and body == build(self.seed, "R", rid, n)
            else:
                self.log.add("AppAlien", app=aid, len=len(body), head=body[:24].hex(), why="unrecognised payload")
                continue
            self.log.add("AppGot", app=aid, label=label, rid=rid, len=len(body), ok=bool(ok))
            self.pending.discard(("R", rid))
            self.progress.set()

    # -- waiting
    async def drain(self, limit=0, cap=3.0):
        """Wait (bounded) until at most `limit` must-datagrams are outstanding. Returns True if reached."""
        t0 = time.time()
        while len(self.pending) > limit:
            if time.time() - t0 > cap:
                return False
            self.progress.clear()
            try:
                await asyncio.wait_for(self.progress.wait(), 0.1)
            except asyncio.TimeoutError:
                pass
        return True

    async def settle(self, cap=4.0, quiet=0.3):
        """Everything owed has arrived (or the cap passed), then a quiet period so that duplicates would show."""
        await self.drain(0, cap)
        n = len(self.log.events)
        t0 = time.time()
        while time.time() - t0 < quiet:
            await asyncio.sleep(0.05)
            if len(self.log.events) != n:
                n, t0 = len(self.log.events), time.time()
        self.log.add("Settle")
        self.pending.clear()


def capacity(conf, direction="up"):
    """Largest payload the observer insists on (`must`): comfortably inside what the path can carry."""
    if conf.proto == "vmess":
        return 16000
    return 65000
