"""Shared driver for the TCP relay checks (C01, C15, C09): turns TLC-exported scripts (RelayScripts.tla) and
randomised scripts into Engine-B runs on real processes and has TLC judge every recorded flow against
TraceRelay.tla (RelayAbs actions)."""
import asyncio
import json
import os
import random

from lib import e2e, vlib
from lib.vlib import tlc, validate_trace

BOUNDARY = {
    "vmess": [2047, 2048, 2049, 4096, 16383, 16384, 16385],
    "ss-legacy": [0x3ffe, 0x3fff, 0x4000, 0x7ffe, 0x7fff],
    "ss-2022": [65534, 65535, 65536, 65537, 131070],
    "trojan": [8191, 8192, 8193, 65535, 65536],
}


def family(conf):
    if conf.proto == "vmess":
        return "vmess"
    if conf.proto == "trojan":
        return "trojan"
    return "ss-2022" if conf.cipher in e2e.SS2022 else "ss-legacy"


def concretise(script, conf, rnd, big=(150000, 400000)):
    """TLC script (list of {op,...}) -> TcpFlow steps for this configuration."""
    fam = family(conf)
    steps = []
    reach = "ok"
    closes = []
    for st in script:
        op = st["op"]
        if op == "open":
            reach = st["reach"]
        elif op in ("up", "down"):
            c = st["size"]
            n = rnd.randint(1, 100) if c == "s" else rnd.choice(BOUNDARY[fam]) if c == "b" else rnd.randint(*big)
            steps.append((op, n))
        elif op == "sync":
            steps.append(("sync",))
        elif op == "app_close":
            steps.append(("app_close", st["how"]))
            closes.append("app")
        elif op == "tgt_close":
            steps.append(("tgt_close", st["how"]))
            closes.append("tgt")
        elif op == "cut":
            steps.append(("cut", st["how"]))
            closes += ["app", "tgt"]     # after a link failure both outer sides are watched for their end
    if reach != "ok":
        steps.append(("wait_end", "app"))
    else:
        if not closes:
            steps.append(("sync",))
        for side in closes:
            steps.append(("wait_end", "tgt" if side == "app" else "app"))
    return steps, reach


def random_script(rnd, max_steps=8, big=(100000, 600000), pauses=True):
    """A randomised traffic script (impl -> spec direction): arbitrary write sizes, pauses, both directions
    interleaved, either side closing first in any of the three ways."""
    steps = [("up", rnd.choice([1, 7, rnd.randint(1, 3000), rnd.randint(1, 70000)]))]
    for _ in range(rnd.randint(1, max_steps)):
        r = rnd.random()
        if r < 0.38:
            steps.append((rnd.choice(["up", "down"]), rnd.choice([1, rnd.randint(1, 300), rnd.randint(1, 70000), rnd.randint(*big)])))
        elif r < 0.48 and pauses:
            steps.append(("pause", rnd.choice([0.0, 0.01, 0.05, 0.2])))
        elif r < 0.62:
            steps.append(("sync",))
        else:
            steps.append((rnd.choice(["up", "down"]), rnd.choice(sum(BOUNDARY.values(), []))))
    ending = rnd.choice(["app", "tgt", "tgt", "both", "none"])
    how = lambda: rnd.choice(["fin", "close", "close", "rst"])  # noqa: E731
    if ending == "none":
        steps.append(("sync",))
    else:
        if rnd.random() < 0.6:
            steps.append(("sync",))
        if ending in ("app", "both"):
            steps.append(("app_close", how()))
        if ending in ("tgt", "both"):
            steps.append(("tgt_close", how()))
        if ending == "both" and rnd.random() < 0.5:
            steps[-1], steps[-2] = steps[-2], steps[-1]
        if ending in ("app", "both"):
            steps.append(("wait_end", "tgt"))
        if ending in ("tgt", "both"):
            steps.append(("wait_end", "app"))
    return steps


HOSTS = [("127.0.0.1", None), ("127.0.0.2", None), ("127.0.0.1", "localhost"), ("127.0.0.3", None)]


async def run_batch(dep, flows_spec, seed, log=None, fid0=1, settle_cap=9.0, mbox=None, end_cap=6.0):
    """flows_spec: list of (steps, reach, kind, chunk). Runs them concurrently on deployment `dep`.
    Returns the NDJSON-ready event list of the batch: Idle, (Reset flow)*, Settled, Panic."""
    log = log or e2e.Log()
    base = await dep.stable_fds()
    flows = []
    for i, (steps, reach, kind, chunk) in enumerate(flows_spec):
        ip, name = HOSTS[i % len(HOSTS)]
        if reach == "unresolvable":
            name = "no-such-host-%d.invalid" % i
        fl = e2e.TcpFlow(fid0 + i, kind, ip, steps, seed, log, chunk=chunk, hostname=name, reach=reach, mbox=mbox)
        await fl.listen()
        flows.append(fl)
    res = await asyncio.gather(*[f.run(dep.client_port, end_cap=end_cap) for f in flows], return_exceptions=True)
    for r in res:
        if isinstance(r, BaseException):
            raise vlib.ToolError("harness flow failed: %r" % (r,))
    ev = [{"ev": "Idle", "c": base[0][0], "s": base[1][0]}]
    for f in flows:
        ev.append({"ev": "Reset", "flow": f.f, "kind": f.kind, "conf": dep.conf.label})
        ev += e2e.trace_of_flow(log, f.f)
    fin = await dep.stable_fds(baseline=base, cap=settle_cap)
    ev.append({"ev": "Reset", "flow": 0, "kind": "process", "conf": dep.conf.label})
    ev.append({"ev": "Settled", "c": fin[0][0], "s": fin[1][0]})
    ev.append({"ev": "Panic", "n": len(dep.panics())})
    return ev


def split_flows(events):
    """-> list of event lists, one per Reset-delimited segment (the leading Idle stays with every segment)."""
    idle = events[0]
    segs, cur = [], None
    for e in events[1:]:
        if e["ev"] == "Reset":
            if cur:
                segs.append(cur)
            cur = [idle, e]
        else:
            cur.append(e)
    if cur:
        segs.append(cur)
    return segs


def judge(c, tag, batches, what):
    """batches: list of event lists (one per deployment batch). All are validated by TLC against TraceRelay; a rejected
    flow is reported and cut out, and the rest is validated again, so one rejection never hides the others."""
    wd = os.path.join(vlib.WORK, tag)
    os.makedirs(wd, exist_ok=True)
    segs = []
    for b in batches:
        segs += split_flows(b)
    flows_ok = 0
    events_ok = 0
    rejected = []
    rounds = 0
    pending = segs
    while pending and rounds < 12:
        rounds += 1
        path = os.path.join(wd, "%s_r%d.ndjson" % (what, rounds))
        flat = []
        index = []  # (start, end, seg)
        for s in pending:
            index.append((len(flat) + 1, len(flat) + len(s), s))
            flat += s
        e2e.write_ndjson(path, flat)
        acc, matched, r = validate_trace("TraceRelay", "TraceRelay.cfg", path, timeout=1200)
        c.tlc_stats(r)
        if acc:
            flows_ok += len(pending)
            events_ok += len(flat)
            break
        # first unmatched event is number matched+1 (1-based)
        bad_at = matched + 1
        nxt = []
        for a, b, s in index:
            if b < bad_at:
                flows_ok += 1
                events_ok += len(s)
            elif a <= bad_at <= b:
                ev = s[bad_at - a]
                rejected.append((s, ev, r.violated))
            else:
                nxt.append(s)
        pending = nxt
    out = []
    for s, ev, inv in rejected:
        hdr = s[1]
        desc = "%s: flow %s/%s (%s) is not a behaviour of RelayAbs at event %s%s" % (
            what, hdr.get("conf"), hdr.get("kind"), hdr.get("flow"), json.dumps(ev), (" [invariant %s]" % inv) if inv else "")
        out.append((desc, s, ev))
    c.add("traces_validated_against_impl", flows_ok)
    c.add("trace_events", events_ok)
    return out


def model(c, tier, devs=True):
    """TLC on the design: TcpRelay refines RelayAbs (+ liveness) for every link kind; each deviation is caught."""
    ideal = ["tcp", "tls", "quic", "refused"]
    if tier == "thorough":
        ideal += ["tcp2", "tls2", "quic2"]
    jobs = [dict(module="MCTcpRelay", cfg="MCTcpRelay_%s.cfg" % k, workers=4, timeout=3000, heap="6g") for k in ideal]
    res = vlib.tlc_parallel(jobs, parallel=3)
    for k, r in zip(ideal, res):
        c.tlc_stats(r)
        if not r.ok:
            c.violation("model: TcpRelay (%s) violates %s" % (k, r.violated or r.error), {"cfg": k, "tail": r.out[-3000:]})
    if devs:
        names = ["DropOnFirstClose", "DropOnFirstClose_tcp", "DropOnFirstClose_quic", "QuicNoWaitStopped", "JoinBoth", "NoSinkClose"]
        jobs = [dict(module="MCTcpRelay", cfg="MCTcpRelay_dev_%s.cfg" % k, workers=2, timeout=900) for k in names]
        res = vlib.tlc_parallel(jobs, parallel=4)
        seen = {}
        for k, r in zip(names, res):
            seen[k] = r.violated
            if not r.violated:
                raise vlib.ToolError("anti-vacuity: deviation %s not detected by the TcpRelay model" % k)
        c.cov["deviations_detected_by_model"] = seen


def scripts(c, tier):
    r = tlc("RelayScripts", "RelayScripts_%s.cfg" % ("q" if tier == "quick" else "t"), workers=4, timeout=900)
    c.tlc_stats(r)
    if not r.ok:
        c.violation("model: RelayScripts: %s" % (r.violated or r.error), {"tail": r.out[-2000:]})
    if not r.replay:
        raise vlib.ToolError("no scripts exported")
    return [x["script"] for x in r.replay]


def pick_confs(rnd, n, matrix=None):
    """A spread over protocol families x transports (every transport and every family appears)."""
    m = matrix or e2e.tcp_matrix()
    rnd.shuffle(m)
    out, seen = [], set()
    for conf in m:      # greedy pairwise-ish cover of (family, transport)
        k = (family(conf), conf.transport)
        if k not in seen:
            seen.add(k)
            out.append(conf)
    rest = [x for x in m if x not in out]
    out += rest
    return out[:n] if n < len(out) else out
