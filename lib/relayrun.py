"""Shared driver for the TCP relay checks (C01, C15, C09): turns TLC-exported scripts (RelayScripts.tla) and
randomised scripts into Engine-B runs on real processes and has TLC judge every recorded flow against
TraceRelay.tla (RelayAbs actions)."""
import asyncio
import json
import os
import random
import time

from lib import e2e, vlib
from lib.vlib import tlc, validate_trace

BOUNDARY = {
    "vmess": [2047, 2048, 2049, 4096, 16383, 16384, 16385],
    "ss-legacy": [0x3ffe, 0x3fff, 0x4000, 0x7ffe, 0x7fff],
    "ss-2022": [65534, 65535, 65536, 65537, 131070],
    "trojan": [8191, 8192, 8193, 65535, 65536],
}


def family(conf):
    if conf.proto == "vmess":
        return "vmess"
    if conf.proto == "trojan":
        return "trojan"
    return "ss-2022" if conf.cipher in e2e.SS2022 else "ss-legacy"


def concretise(script, conf, rnd, big=(150000, 400000)):
    """TLC script (list of {op,...}) -> TcpFlow steps for this configuration."""
    fam = family(conf)
    steps = []
    reach = "ok"
    closes = []
    for st in script:
        op = st["op"]
        if op == "open":
            reach = st["reach"]
        elif op in ("up", "down"):
            c = st["size"]
            n = rnd.randint(1, 100) if c == "s" else rnd.choice(BOUNDARY[fam]) if c == "b" else rnd.randint(*big)
            steps.append((op, n))
        elif op == "sync":
            steps.append(("sync",))
        elif op == "app_close":
            steps.append(("app_close", st["how"]))
            closes.append("app")
        elif op == "tgt_close":
            steps.append(("tgt_close", st["how"]))
            closes.append("tgt")
        elif op == "cut":
            steps.append(("cut", st["how"]))
            closes += ["app", "tgt"]     # after a link failure both outer sides are watched for their end
        elif op == "hold":
            # the surviving side has seen the end (waited for below), keeps its connection and stays silent
            for side in closes:
                steps.append(("wait_end", "tgt" if side == "app" else "app"))
            closes = []
            steps.append(("hold",))
    if reach != "ok":
        steps.append(("wait_end", "app"))
    else:
        if not closes:
            steps.append(("sync",))
        for side in closes:
            steps.append(("wait_end", "tgt" if side == "app" else "app"))
    return steps, reach


def random_script(rnd, max_steps=8, big=(100000, 600000), pauses=True):
    """A randomised traffic script (impl -> spec direction): arbitrary write sizes, pauses, both directions
    interleaved, either side closing first in any of the three ways."""
    steps = [("up", rnd.choice([1, 7, rnd.randint(1, 3000), rnd.randint(1, 70000)]))]
    for _ in range(rnd.randint(1, max_steps)):
        r = rnd.random()
        if r < 0.38:
            steps.append((rnd.choice(["up", "down"]), rnd.choice([1, rnd.randint(1, 300), rnd.randint(1, 70000), rnd.randint(*big)])))
        elif r < 0.48 and pauses:
            steps.append(("pause", rnd.choice([0.0, 0.01, 0.05, 0.2])))
        elif r < 0.62:
            steps.append(("sync",))
        else:
            steps.append((rnd.choice(["up", "down"]), rnd.choice(sum(BOUNDARY.values(), []))))
    ending = rnd.choice(["app", "tgt", "tgt", "both", "none"])
    how = lambda: rnd.choice(["fin", "close", "close", "rst"])  # noqa: E731
    if ending == "none":
        steps.append(("sync",))
    else:
        if rnd.random() < 0.6:
            steps.append(("sync",))
        if ending in ("app", "both"):
            steps.append(("app_close", how()))
        if ending in ("tgt", "both"):
            steps.append(("tgt_close", how()))
        if ending == "both" and rnd.random() < 0.5:
            steps[-1], steps[-2] = steps[-2], steps[-1]
        if ending in ("app", "both"):
            steps.append(("wait_end", "tgt"))
        if ending in ("tgt", "both"):
            steps.append(("wait_end", "app"))
    return steps


def halfclose_script(rnd, big=(100000, 400000)):
    """One side finishes SENDING (half-close) and goes on reading; the other side answers after it has seen that end and then
    closes.  RelayAbs: the half-closed side is still owed the complete answer (HalfCloseComplete) unless the flow lapsed."""
    sizes = lambda: rnd.choice([1, rnd.randint(1, 3000), rnd.choice(sum(BOUNDARY.values(), [])), rnd.randint(*big)])  # noqa: E731
    if rnd.random() < 0.7:
        steps = [("up", rnd.choice([1, rnd.randint(1, 3000), rnd.randint(1, 70000)])), ("app_close", "fin"), ("wait_end", "tgt")]
        for _ in range(rnd.randint(1, 3)):
            steps.append(("down", sizes()))
            if rnd.random() < 0.3:
                steps.append(("pause", rnd.choice([0.02, 0.2])))
        steps += [("tgt_close", rnd.choice(["close", "fin"])), ("wait_end", "app")]
    else:
        steps = [("up", rnd.randint(1, 3000)), ("down", sizes()), ("tgt_close", "fin"), ("wait_end", "app")]
        for _ in range(rnd.randint(1, 3)):
            steps.append(("up", sizes()))
            if rnd.random() < 0.3:
                steps.append(("pause", rnd.choice([0.02, 0.2])))
        steps += [("app_close", rnd.choice(["close", "fin"])), ("wait_end", "tgt")]
    return steps


def pressure_script(rnd, mb=(20, 26)):
    """Back-pressure: the reader of one direction is slow (and its socket buffer small), the writer sends far more than the
    kernels and the two processes can hold and closes at once, so the relay learns of the end while every buffer of that
    direction is still full.  Everything written must still arrive, followed by the end."""
    d = rnd.choice(["down", "down", "up"])
    reader, closer = ("app", "tgt_close") if d == "down" else ("tgt", "app_close")
    n = rnd.randint(mb[0] << 20, mb[1] << 20)
    return [("up", rnd.randint(1, 2000)), ("sync",), ("throttle", reader, 0.004), (d, n), (closer, rnd.choice(["close", "fin"])),
            ("wait_end", reader)]


def slow_link_script(rnd, direction=None):
    """The link between client and server is slow (middlebox with small buffers that pauses after every chunk): the sending
    process's link socket is full when the end of that direction reaches it, so its sink is closed while the flush of what
    it still holds cannot complete at once.  Everything written must still arrive, followed by the end."""
    d = direction or rnd.choice(["down", "up"])
    reader, closer = ("app", "tgt_close") if d == "down" else ("tgt", "app_close")
    n = rnd.randint(9 << 20, 11 << 20)
    return [("up", rnd.randint(1, 2000)), ("sync",), ("link_slow", 0.008), (d, n), (closer, rnd.choice(["close", "fin"])),
            ("wait_end", reader)]


def slow_drain_script(rnd, direction=None):
    """The reader is so slow that what the kernels still hold for it when the writer closes takes longer to drain than the
    relay's close grace: the relay gives the silent opposite direction up and drops its sockets while the tail is still
    queued in them.  An orderly drop leaves the delivery to the kernel; everything written must still arrive."""
    d = direction or rnd.choice(["down", "up"])
    reader, closer = ("app", "tgt_close") if d == "down" else ("tgt", "app_close")
    n = rnd.randint(5 << 20, 6 << 20)
    return [("up", rnd.randint(1, 2000)), ("sync",), ("throttle", reader, 0.05), (d, n), (closer, "close"), ("wait_end", reader)]


def hold_script(rnd, big=(100000, 300000)):
    """One outer side closes for good, the other sees the end, keeps its connection open and stays silent (a peer that ignores
    end-of-stream, or one that is gone without a trace): both processes have to let go of the flow on their own."""
    steps = [("up", rnd.choice([1, rnd.randint(1, 3000), rnd.randint(1, 70000)]))]
    if rnd.random() < 0.6:
        steps.append((rnd.choice(["up", "down"]), rnd.choice([rnd.randint(1, 3000), rnd.randint(*big)])))
    steps.append(("sync",))
    if rnd.random() < 0.5:
        steps += [("app_close", rnd.choice(["close", "rst"])), ("wait_end", "tgt")]
    else:
        steps += [("tgt_close", rnd.choice(["close", "rst"])), ("wait_end", "app")]
    steps.append(("hold",))
    return steps


HOSTS = [("127.0.0.1", None), ("127.0.0.2", None), ("127.0.0.1", "localhost"), ("127.0.0.3", None)]


SETTLE_TIMES = []   # seconds each batch needed to come back to the idle baseline (evidence only)
HOLD_S = 5.0        # close grace of both relays (2 s) and a margin


async def run_batch(dep, flows_spec, seed, log=None, fid0=1, settle_cap=9.0, mbox=None, end_cap=6.0):
    """flows_spec: list of (steps, reach, kind, chunk). Runs them concurrently on deployment `dep`.
    Returns the NDJSON-ready event list of the batch: Idle, (Reset flow)*, Settled, Panic."""
    log = log or e2e.Log()
    base = await dep.stable_fds()
    flows = []
    for i, (steps, reach, kind, chunk) in enumerate(flows_spec):
        ip, name = HOSTS[i % len(HOSTS)]
        if reach == "unresolvable":
            name = "no-such-host-%d.invalid" % i
        fl = e2e.TcpFlow(fid0 + i, kind, ip, steps, seed, log, chunk=chunk, hostname=name, reach=reach, mbox=mbox)
        await fl.listen()
        flows.append(fl)
    holders = [f for f in flows if any(st[0] == "hold" for st in f.steps)]
    release = asyncio.Event()
    for f in holders:
        f.hold = (asyncio.Event(), release)
    held = []

    async def warden():
        # every holding flow has reached its hold (or ended on the way); the harness keeps all those connections open and
        # silent for HOLD_S, reads the socket counts of both processes (poll until they equal the idle baseline, bounded),
        # and only then lets the flows go on to close their sockets
        await asyncio.gather(*[asyncio.wait([asyncio.ensure_future(f.hold[0].wait()), f._done], return_when=asyncio.FIRST_COMPLETED)
                               for f in holders])
        await asyncio.sleep(HOLD_S)
        cur = await dep.stable_fds(baseline=base, cap=3.0 if dep.conf.transport != "quic" else 12.0)
        held.append(cur)
        release.set()

    for f in flows:
        f._done = asyncio.ensure_future(f.run(dep.client_port, end_cap=end_cap))
    w = asyncio.ensure_future(warden()) if holders else None
    res = await asyncio.gather(*[f._done for f in flows], return_exceptions=True)
    if w is not None:
        await w
    for r in res:
        if isinstance(r, BaseException):
            raise vlib.ToolError("harness flow failed: %r" % (r,))
    ws = dep.conf.transport in ("ws", "wss")
    ev = [{"ev": "Idle", "c": base[0][0], "s": base[1][0]}]
    for f in flows:
        ev.append({"ev": "Reset", "flow": f.f, "kind": f.kind, "conf": dep.conf.label, "ws": ws})
        ev += [e for e in e2e.trace_of_flow(log, f.f) if e["ev"] != "Released"]
    if held:
        ev.append({"ev": "Reset", "flow": 0, "kind": "process", "conf": dep.conf.label, "ws": ws})
        ev.append({"ev": "Held", "c": held[0][0][0], "s": held[0][1][0], "flows": len(holders)})
    t_settle = time.time()
    fin = await dep.stable_fds(baseline=base, cap=settle_cap)
    SETTLE_TIMES.append(round(time.time() - t_settle, 2))
    ev.append({"ev": "Reset", "flow": 0, "kind": "process", "conf": dep.conf.label, "ws": ws})
    ev.append({"ev": "Settled", "c": fin[0][0], "s": fin[1][0]})
    ev.append({"ev": "Panic", "n": len(dep.panics())})
    return ev


def split_flows(events):
    """-> list of event lists, one per Reset-delimited segment (the leading Idle stays with every segment)."""
    idle = events[0]
    segs, cur = [], None
    for e in events[1:]:
        if e["ev"] == "Reset":
            if cur:
                segs.append(cur)
            cur = [idle, e]
        else:
            cur.append(e)
    if cur:
        segs.append(cur)
    return segs


def judge(c, tag, batches, what):
    """batches: list of event lists (one per deployment batch). All are validated by TLC against TraceRelay; a rejected
    flow is reported and cut out, and the rest is validated again, so one rejection never hides the others."""
    wd = os.path.join(vlib.WORK, tag)
    os.makedirs(wd, exist_ok=True)
    segs = []
    for b in batches:
        segs += split_flows(b)
    flows_ok = 0
    events_ok = 0
    rejected = []
    rounds = 0
    pending = segs
    # open findings (known_findings.json, never the trace) switch the matching deviation steps of TraceRelay on
    env = {"DEV_" + f["deviation"]: "1" for f in c.open_findings() if f.get("deviation")}
    dev_seen = set()
    while pending and rounds < 12:
        rounds += 1
        path = os.path.join(wd, "%s_r%d.ndjson" % (what, rounds))
        flat = []
        index = []  # (start, end, seg)
        for s in pending:
            index.append((len(flat) + 1, len(flat) + len(s), s))
            flat += s
        e2e.write_ndjson(path, flat)
        acc, matched, r = validate_trace("TraceRelay", "TraceRelay.cfg", path, timeout=1200, env=env)
        c.tlc_stats(r)
        import re
        for m in re.finditer(r'"DEV-USED", "(\w+)", (\d+)', r.out):
            at = int(m.group(2))
            seg = [sg for a, b, sg in index if a <= at <= b]
            key = (m.group(1), id(seg[0]) if seg else (rounds, at))
            if key in dev_seen:
                continue
            dev_seen.add(key)
            f = c.match_known(m.group(1))
            if f:
                c.known_hit(f, seg[0][1].get("conf") if seg else None)
        if acc:
            flows_ok += len(pending)
            events_ok += len(flat)
            break
        # first unmatched event is number matched+1 (1-based)
        bad_at = matched + 1
        nxt = []
        for a, b, s in index:
            if b < bad_at:
                flows_ok += 1
                events_ok += len(s)
            elif a <= bad_at <= b:
                ev = s[bad_at - a]
                rejected.append((s, ev, r.violated))
            else:
                nxt.append(s)
        pending = nxt
    out = []
    for s, ev, inv in rejected:
        hdr = s[1]
        desc = "%s: flow %s/%s (%s) is not a behaviour of RelayAbs at event %s%s" % (
            what, hdr.get("conf"), hdr.get("kind"), hdr.get("flow"), json.dumps(ev), (" [invariant %s]" % inv) if inv else "")
        out.append((desc, s, ev))
    c.add("traces_validated_against_impl", flows_ok)
    c.add("trace_events", events_ok)
    return out


def model(c, tier, devs=True):
    """TLC on the design: TcpRelay refines RelayAbs (+ liveness) for every link kind; each deviation is caught."""
    ideal = ["tcp", "tls", "quic", "refused"]
    if tier == "thorough":
        ideal += ["tcp2", "tls2", "quic2"]
    jobs = [dict(module="MCTcpRelay", cfg="MCTcpRelay_%s.cfg" % k, workers=4, timeout=3000, heap="6g") for k in ideal]
    res = vlib.tlc_parallel(jobs, parallel=3)
    for k, r in zip(ideal, res):
        c.tlc_stats(r)
        if not r.ok:
            c.violation("model: TcpRelay (%s) violates %s" % (k, r.violated or r.error), {"cfg": k, "tail": r.out[-3000:]})
    if devs:
        names = ["DropOnFirstClose", "DropOnFirstClose_tcp", "DropOnFirstClose_quic", "QuicNoWaitStopped", "JoinBoth", "NoSinkClose", "WsCloseEndsBoth", "CloseSkipsFlush", "NoKeepAlive", "ServerForwardsErr"]
        jobs = [dict(module="MCTcpRelay", cfg="MCTcpRelay_dev_%s.cfg" % k, workers=2, timeout=900) for k in names]
        res = vlib.tlc_parallel(jobs, parallel=4)
        seen = {}
        for k, r in zip(names, res):
            seen[k] = r.violated
            if not r.violated:
                raise vlib.ToolError("anti-vacuity: deviation %s not detected by the TcpRelay model" % k)
        c.cov["deviations_detected_by_model"] = seen


def scripts(c, tier):
    r = tlc("RelayScripts", "RelayScripts_%s.cfg" % ("q" if tier == "quick" else "t"), workers=4, timeout=900)
    c.tlc_stats(r)
    if not r.ok:
        c.violation("model: RelayScripts: %s" % (r.violated or r.error), {"tail": r.out[-2000:]})
    if not r.replay:
        raise vlib.ToolError("no scripts exported")
    return [x["script"] for x in r.replay]


def pick_confs(rnd, n, matrix=None):
    """A spread over protocol families x transports (every transport and every family appears)."""
    m = matrix or e2e.tcp_matrix()
    rnd.shuffle(m)
    out, seen = [], set()
    for conf in m:      # greedy pairwise-ish cover of (family, transport)
        k = (family(conf), conf.transport)
        if k not in seen:
            seen.add(k)
            out.append(conf)
    rest = [x for x in m if x not in out]
    out += rest
    return out[:n] if n < len(out) else out
