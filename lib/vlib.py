"""Shared machinery of the checks: harness build, TLC driver, trace validation, verdicts, evidence.

Exit codes (DESIGN 2.5): 0 = property held on everything explored (KNOWN-FINDING lines allowed),
1 = VIOLATION line printed with a replay file, 2 = tool error / timeout (never a verdict).
"""
import fcntl
import json
import os
import re
import shutil
import subprocess
import sys
import time

ROOT = os.path.dirname(os.path.dirname(os.path.abspath(__file__)))
SPEC = os.path.join(ROOT, "spec")
HARNESS = os.path.join(ROOT, "harness")
WORK = os.path.join(ROOT, "work")
EVID = os.path.join(ROOT, "evidence")
VH = os.path.join(HARNESS, "target", "debug", "vh")
CLIENT_BIN = os.path.join(HARNESS, "target", "debug", "octo-client")
SERVER_BIN = os.path.join(HARNESS, "target", "debug", "octo-server")


class ToolError(Exception):
    pass


def log(*a):
    print(*a, file=sys.stderr, flush=True)


def seed():
    try:
        return int(os.environ.get("VERIF_SEED", "1"))
    except ValueError:
        return 1


def workdir(name):
    d = os.path.join(WORK, name)
    shutil.rmtree(d, ignore_errors=True)
    os.makedirs(d, exist_ok=True)
    return d


# ---------------------------------------------------------------------------------------------
# build

def build_harness():
    """Incrementally rebuild the harness (and the real client/server mains) from /repo's working tree."""
    os.makedirs(WORK, exist_ok=True)
    lock = open(os.path.join(WORK, ".build.lock"), "w")
    fcntl.flock(lock, fcntl.LOCK_EX)
    try:
        if not os.path.exists(os.path.join(HARNESS, "Cargo.lock")):
            shutil.copy("/repo/Cargo.lock", os.path.join(HARNESS, "Cargo.lock"))
        env = dict(os.environ, CARGO_NET_OFFLINE="true")
        t = time.time()
        p = subprocess.run(["cargo", "build", "--offline"], cwd=HARNESS, env=env, stdout=subprocess.PIPE,
                           stderr=subprocess.STDOUT, text=True)
        if p.returncode != 0:
            log(p.stdout[-4000:])
            raise ToolError("harness build failed (code under test does not compile with hooks on?)")
        log("[build] harness ok in %.1fs" % (time.time() - t))
    finally:
        fcntl.flock(lock, fcntl.LOCK_UN)
        lock.close()


def vh(args, stdin=None, timeout=3600, env=None):
    """Run the harness binary; returns stdout text. A non-zero exit is a tool error."""
    e = dict(os.environ)
    e.setdefault("RUST_BACKTRACE", "0")
    if env:
        e.update(env)
    p = subprocess.run([VH] + [str(a) for a in args], input=stdin, stdout=subprocess.PIPE, stderr=subprocess.PIPE,
                       text=True, timeout=timeout, env=e)
    if p.returncode != 0:
        log(p.stderr[-4000:])
        raise ToolError("vh %s exited %d" % (" ".join(map(str, args[:3])), p.returncode))
    return p.stdout


def vh_json_lines(args, stdin=None, timeout=3600, env=None):
    out = vh(args, stdin=stdin, timeout=timeout, env=env)
    return [json.loads(l) for l in out.splitlines() if l.startswith("{")]


# ---------------------------------------------------------------------------------------------
# TLC

_RE_STATES = re.compile(r"(\d+) states generated, (\d+) distinct states found, (\d+) states left on queue")
_RE_INV = re.compile(r"Error: Invariant (\S+) is violated")
_RE_PROP = re.compile(r"Error: (Action property|Temporal properties|Property) (\S+)?")
_RE_COV = re.compile(r"^<(\w+) line (\d+), col (\d+) to line (\d+), col (\d+) of module (\w+)>: (\d+):(\d+)")


class TlcResult:
    def __init__(self):
        self.rc = None
        self.out = ""
        self.generated = 0
        self.distinct = 0
        self.violated = None       # invariant / property name
        self.error = None          # other error text
        self.replay = []           # decoded REPLAY json objects
        self.coverage = {}         # action name -> (distinct, taken)
        self.post_ok = None
        self.wall = 0.0

    @property
    def ok(self):
        return self.violated is None and self.error is None


def tlc(module, cfg, workers=8, simulate=None, depth=None, env=None, timeout=1800, coverage=False, heap="4g",
        deque=False, tag=None, seed_=None, extra=None):
    """Run TLC on spec/<module>.tla with spec/cfg/<cfg>. Returns TlcResult. Timeouts/tool failures raise ToolError."""
    tag = tag or (module + "_" + os.path.splitext(os.path.basename(cfg))[0])
    meta = os.path.join(WORK, "tlc", tag + "_%d" % os.getpid())
    shutil.rmtree(meta, ignore_errors=True)
    os.makedirs(meta, exist_ok=True)
    cfgpath = cfg if os.path.isabs(cfg) else os.path.join(SPEC, "cfg", cfg)
    cmd = ["tlc", "-workers", str(workers), "-metadir", meta, "-cleanup", "-noGenerateSpecTE", "-config", cfgpath]
    if coverage:
        cmd += ["-coverage", "1"]
    if simulate:
        cmd += ["-simulate", "num=%d" % simulate]
        if depth:
            cmd += ["-depth", str(depth)]
    elif depth:
        cmd += ["-depth", str(depth)]
    if seed_ is not None:
        cmd += ["-seed", str(seed_)]
    if extra:
        cmd += extra
    cmd.append(module + ".tla")
    e = dict(os.environ)
    jopts = "-Xss1g -Xmx%s" % heap
    if deque:
        jopts += " -Dtlc2.tool.queue.IStateQueue=StateDeque"
    e["JAVA_TOOL_OPTIONS"] = jopts
    if env:
        e.update(env)
    t = time.time()
    try:
        p = subprocess.run(cmd, cwd=SPEC, env=e, stdout=subprocess.PIPE, stderr=subprocess.STDOUT, text=True,
                           timeout=timeout)
    except subprocess.TimeoutExpired:
        shutil.rmtree(meta, ignore_errors=True)
        raise ToolError("TLC timeout on %s/%s" % (module, cfg))
    shutil.rmtree(meta, ignore_errors=True)
    r = TlcResult()
    r.rc = p.returncode
    r.out = p.stdout
    r.wall = time.time() - t
    for line in p.stdout.splitlines():
        m = _RE_STATES.search(line)
        if m:
            r.generated, r.distinct = int(m.group(1)), int(m.group(2))
        m = _RE_INV.search(line)
        if m:
            r.violated = m.group(1)
        elif line.startswith("Error:") and r.violated is None and r.error is None:
            if "is violated" in line or "violated" in line:
                r.violated = line[len("Error:"):].strip()
            elif "Deadlock" in line:
                r.violated = "Deadlock"
            else:
                r.error = line
        if line.startswith('"REPLAY '):
            try:
                s = json.loads(line)
                r.replay.append(json.loads(s[len("REPLAY "):]))
            except Exception as ex:  # noqa
                r.error = "unparsable REPLAY line: %r" % line[:200]
        m = _RE_COV.match(line)
        if m:
            r.coverage[m.group(1)] = (int(m.group(7)), int(m.group(8)))
        if "POSTCONDITION" in line.upper() and "false" in line.lower():
            r.post_ok = False
    if simulate and r.generated == 0:
        m = re.search(r"(\d+) states checked", p.stdout)
        if m:
            r.generated = r.distinct = int(m.group(1))
    if r.rc not in (0, 12, 13) and r.violated is None and r.error is None:
        r.error = "TLC exit code %d" % r.rc
    if r.error and ("Parsing or semantic analysis failed" in p.stdout or "java.lang" in (r.error or "")
                    or "unexpected exception" in r.error or "ConfigFileException" in p.stdout):
        log(p.stdout[-3000:])
        raise ToolError("TLC failed on %s/%s: %s" % (module, cfg, r.error))
    return r


def sany(module):
    p = subprocess.run(["tla-sany", module + ".tla"], cwd=SPEC, stdout=subprocess.PIPE, stderr=subprocess.STDOUT, text=True)
    if p.returncode != 0 or "Semantic errors" in p.stdout or "*** Errors" in p.stdout:
        log(p.stdout[-2000:])
        raise ToolError("SANY rejects " + module)


def validate_trace(trace_module, cfg, ndjson_path, timeout=900, heap="3g", env=None):
    """TLC trace validation: the trace spec reads IOEnv.TRACE; POSTCONDITION prints TRACE-ACCEPTED / TRACE-REJECTED <n>.
    Returns (accepted: bool, matched_events: int, result)."""
    e = {"TRACE": ndjson_path}
    if env:
        e.update(env)
    r = tlc(trace_module, cfg, workers=1, env=e, timeout=timeout, heap=heap, deque=True,
            tag=trace_module + "_" + os.path.basename(ndjson_path))
    acc = None
    matched = 0
    m = re.search(r"TRACE-ACCEPTED\D+?(\d+)", r.out, re.S)
    if m:
        acc, matched = True, int(m.group(1))
    m = re.search(r"TRACE-REJECTED\D+?(\d+)", r.out, re.S)
    if m:
        acc, matched = False, int(m.group(1))
    if acc is None:
        if r.violated:
            # an invariant of the trace spec was violated on the recorded execution
            return False, matched, r
        log(r.out[-3000:])
        raise ToolError("trace validation produced no verdict for %s" % ndjson_path)
    return acc, matched, r


# ---------------------------------------------------------------------------------------------
# verdicts, known findings, evidence

def load_known():
    path = os.path.join(ROOT, "known_findings.json")
    if not os.path.exists(path):
        return {"open": [], "fixed": []}
    return json.load(open(path))


class Check:
    """Collects outcomes for one property run and writes evidence + verdict lines."""

    def __init__(self, prop, tier, level):
        self.prop = prop
        self.tier = tier
        self.level = level
        self.t0 = time.time()
        self.cov = {"samples": []}
        self.assumptions = []
        self.violations = []      # (description, replay_obj)
        self.known_hits = {}      # finding id -> count
        self.known = load_known()
        self._replay_n = 0
        os.makedirs(os.path.join(WORK, "replays"), exist_ok=True)

    # -- coverage helpers
    def add(self, key, n):
        self.cov[key] = self.cov.get(key, 0) + n

    def sample(self, obj, limit=6):
        if len(self.cov["samples"]) < limit:
            self.cov["samples"].append(obj)

    def tlc_stats(self, r):
        self.add("states", r.distinct)
        self.add("transitions", r.generated)

    # -- findings
    def open_findings(self):
        return [f for f in self.known.get("open", []) if f.get("property") == self.prop or self.prop in f.get("also_seen_by", [])]

    def match_known(self, deviation, trigger=None):
        """Return the open finding matching this (deviation, trigger) or None."""
        for f in self.open_findings():
            if f.get("deviation") != deviation:
                continue
            pat = f.get("trigger_match")
            if pat is None or trigger is None or re.search(pat, trigger):
                return f
        return None

    def known_hit(self, f, what=None):
        self.known_hits[f["id"]] = self.known_hits.get(f["id"], 0) + 1
        if what and "example" not in f:
            f = dict(f)
        self._kexample = getattr(self, "_kexample", {})
        self._kexample.setdefault(f["id"], what)

    def violation(self, desc, replay_obj):
        self._replay_n += 1
        path = os.path.join(WORK, "replays", "%s-%s-%d.json" % (self.prop, self.tier, self._replay_n))
        with open(path, "w") as fh:
            json.dump({"property": self.prop, "what": desc, "replay": replay_obj}, fh, indent=1, default=str)
        self.violations.append((desc, path))
        if len(self.violations) <= 20:
            log("[%s] violation: %s" % (self.prop, desc))

    # -- finish
    def finish(self):
        wall = time.time() - self.t0
        cov = self.cov
        ev = {
            "property_id": self.prop, "tier": self.tier, "seed": seed(), "level": self.level,
            "coverage": cov, "assumptions": self.assumptions, "wall_s": round(wall, 2),
            "violations": len(self.violations),
        }
        if self.known_hits:
            cov["known_findings_hit"] = self.known_hits
        os.makedirs(EVID, exist_ok=True)
        with open(os.path.join(EVID, self.prop + ".json"), "w") as fh:
            json.dump(ev, fh, indent=1, default=str)
        for fid, n in sorted(self.known_hits.items()):
            f = [x for x in self.known.get("open", []) if x["id"] == fid][0]
            print("KNOWN-FINDING: property=%s %s %s (%d occurrence(s) this run)" % (self.prop, fid, f["what"], n))
        if self.violations:
            seen = set()
            for desc, path in self.violations[:10]:
                print("VIOLATION property=%s replay=%s" % (self.prop, path))
                if desc not in seen:
                    print("  what: %s" % desc)
                    seen.add(desc)
            sys.stdout.flush()
            return 1
        print("OK property=%s tier=%s wall=%.1fs" % (self.prop, self.tier, wall))
        sys.stdout.flush()
        return 0


def apalache(module, cinit, init, inv, length, timeout=1800, tag=None):
    """apalache-mc check on spec/<module>.tla. Returns "ok" | "error" (an invariant violation was found); anything else raises."""
    out = os.path.join(WORK, "apalache", (tag or module) + "_%d" % os.getpid())
    shutil.rmtree(out, ignore_errors=True)
    os.makedirs(out, exist_ok=True)
    cmd = ["timeout", str(timeout), "apalache-mc", "check", "--out-dir=" + out, "--cinit=" + cinit, "--init=" + init, "--inv=" + inv,
           "--length=%d" % length, module + ".tla"]
    for attempt in (1, 2):
        p = subprocess.run(cmd, cwd=SPEC, stdout=subprocess.PIPE, stderr=subprocess.STDOUT, text=True)
        shutil.rmtree(out, ignore_errors=True)
        if "EXITCODE: OK" in p.stdout:
            return "ok"
        if "EXITCODE: ERROR (12)" in p.stdout:
            return "error"
        # no verdict at all (the parser's scratch directory under /tmp swept away by something else, say): once more
        log(p.stdout[-2000:])
        if attempt == 1:
            os.makedirs(out, exist_ok=True)
    raise ToolError("apalache-mc gave no verdict for %s (%s/%s)" % (module, init, inv))


def tlc_parallel(jobs, parallel=5):
    """jobs: list of dicts of tlc() keyword arguments (module, cfg, ...). Returns results in order."""
    from concurrent.futures import ThreadPoolExecutor
    with ThreadPoolExecutor(max_workers=parallel) as ex:
        futs = [ex.submit(tlc, **j) for j in jobs]
        return [f.result() for f in futs]
