"""C11 — each UDP packet ID is accepted at most once, in any arrival order (DESIGN 5.11)."""
import json
import os
import random

from lib import vlib
from lib.vlib import Check, tlc, vh_json_lines, validate_trace, log

WORLDS = {  # name -> (base, limit) as exact u64 strings; matches cfg/MCPacketRing_real<name>.cfg
    "A": [("0", str(2**64 - 1))],
    "B": [(str(2**32), str(2**64 - 1)), (str(2**63), str(2**64 - 1))],
    "C": [(str(2**64 - 2**14), str(2**64 - 1))],
    "D": [(str(2**64 - 2**14), str(2**64 - 2**13))],
    "E": [("0", "8192")],
}


def model(c, tier):
    # 1. design (ring) refines abstract (set) at scaled constants, exhaustively over all IDs
    cfgs = ["MCPacketRing_scaled.cfg"]
    if tier == "thorough":
        cfgs += ["MCPacketRing_scaled_deep.cfg", "MCPacketRing_scaled_deep2.cfg"]
    for cfg in cfgs:
        r = tlc("MCPacketRing", cfg, workers=8, timeout=3000, heap="8g")
        c.tlc_stats(r)
        if not r.ok:
            c.violation("model: %s violated in %s (ring design does not refine the set model)" % (r.violated or r.error, cfg),
                        {"cfg": cfg, "tail": r.out[-3000:]})
    # 2. anti-vacuity: each named deviation of the ring must be caught by the same invariant
    devs = {}
    for d in ["EdgeGE", "NoClear", "NoLimit"]:
        r = tlc("MCPacketRing", "MCPacketRing_dev_%s.cfg" % d, workers=4, timeout=600)
        devs[d] = r.violated
        if r.violated != "Agree":
            raise vlib.ToolError("anti-vacuity: deviation %s not detected by the model (got %r)" % (d, r.violated))
    c.cov["deviations_detected_by_model"] = devs


def spec_to_impl(c, tier):
    """Every history TLC enumerates at the real constants is replayed on the real PacketWindowFilter."""
    total = 0
    for name, worlds in WORLDS.items():
        cfg = "MCPacketRing_real%s%s.cfg" % (name, "" if tier == "thorough" else "_q")
        r = tlc("MCPacketRing", cfg, workers=8, timeout=1800, heap="6g")
        c.tlc_stats(r)
        if not r.ok:
            c.violation("model: %s violated in %s" % (r.violated or r.error, cfg), {"cfg": cfg, "tail": r.out[-3000:]})
            continue
        lines = []
        for base, limit in worlds:
            for sc in r.replay:
                lines.append(json.dumps({"base": base, "limit": limit, "ids": sc["ids"], "expect": sc["expect"]}))
        if not lines:
            raise vlib.ToolError("no REPLAY lines from " + cfg)
        c.sample(json.loads(lines[len(lines) // 2]))
        res = vh_json_lines(["c11-replay"], stdin="\n".join(lines) + "\n")
        for o in res:
            if o.get("mismatch"):
                c.violation("real PacketWindowFilter disagrees with the set model on history %s (base %s): got %s" %
                            (o["scenario"]["ids"], o["scenario"]["base"], o.get("got", o.get("panic"))), o)
            if o.get("summary"):
                total += o["scenarios"]
    c.add("replayed_histories", total)


def impl_to_spec(c, tier):
    """Random long histories on the real filter, validated by TLC against the set model (W = 8128)."""
    n = 6 if tier == "quick" else 36
    events = 2500 if tier == "quick" else 5000
    wd = vlib.workdir("c11")
    ok = 0
    for i in range(n):
        path = os.path.join(wd, "trace_%d.ndjson" % i)
        vh_json_lines(["c11-record", "--seed", vlib.seed() * 1000 + i, "--traces", 1, "--events", events, "--out", path])
        acc, matched, r = validate_trace("TracePacketWindow", "TracePacketWindow.cfg", path)
        c.tlc_stats(r)
        c.add("trace_events", matched)
        if acc:
            ok += 1
            if i == 0:
                with open(path) as fh:
                    c.sample({"trace_head": [json.loads(x) for x in fh.readlines()[:4]]})
        else:
            c.violation("recorded history of the real filter is not a behaviour of the set model (matched %d events)" % matched,
                        {"trace": path, "tail": r.out[-1500:]})
    c.add("traces_validated_against_impl", ok)
    # binding self-test: corrupt one verdict of an accepted trace; TLC must reject it
    path = os.path.join(wd, "trace_0.ndjson")
    rows = open(path).read().splitlines()
    rnd = random.Random(vlib.seed())
    k = rnd.randrange(1, len(rows))
    row = json.loads(rows[k])
    row["ok"] = not row["ok"]
    rows[k] = json.dumps(row)
    mpath = os.path.join(wd, "trace_0_mutated.ndjson")
    open(mpath, "w").write("\n".join(rows) + "\n")
    acc, matched, _ = validate_trace("TracePacketWindow", "TracePacketWindow.cfg", mpath)
    if acc:
        raise vlib.ToolError("binding self-test failed: corrupted trace accepted")
    c.cov["binding_selftest"] = "verdict of event %d flipped -> rejected after %d events" % (k, matched)


def sessions(c, tier):
    """PacketSessions: the window is per SERVER session at the receiving client; every history of (server session, id)
    presentations TLC exports is replayed on the real client datagram codec with replies made by the real server codec."""
    r = tlc("PacketSessions", "PacketSessions.cfg" if tier == "quick" else "PacketSessions_t.cfg", workers=4 if tier == "quick" else 8, timeout=1800, heap="8g")
    c.tlc_stats(r)
    if not r.ok:
        c.violation("model: PacketSessions violates %s" % (r.violated or r.error), {"tail": r.out[-2000:]})
    seen = {}
    for d in ("OneWindow", "ResetOnFlip"):
        rr = tlc("PacketSessions", "PacketSessions_dev_%s.cfg" % d, workers=1, timeout=300, heap="1g")
        seen[d] = rr.violated
        if not rr.violated:
            raise vlib.ToolError("anti-vacuity: deviation %s not detected by the PacketSessions model" % d)
    c.cov.setdefault("deviations_detected_by_model", {}).update(seen)
    hist = r.replay
    if not hist:
        raise vlib.ToolError("no session histories exported")
    if tier == "quick":
        rnd = random.Random(vlib.seed())
        hist = rnd.sample(hist, min(len(hist), 2500))
    rows = vh_json_lines(["c11-sessions"], stdin="\n".join(json.dumps(h) for h in hist) + "\n", timeout=1800)
    summ = rows[-1]
    c.cov["session_histories_in_model"] = len(r.replay)
    c.add("session_histories_replayed", summ["histories"])
    c.sample({"session_history": hist[len(hist) // 3]})
    for o in rows[:-1]:
        if o.get("mismatch"):
            c.violation("replies under several server sessions (%s): the real client's verdicts %s differ from PacketSessions for %s" %
                        (o["cipher"], o.get("got", o.get("error")), json.dumps([[e["s"], e["id"], e["ok"]] for e in o["hist"]])), o)


def inductive(res):
    """Unbounded histories: Apalache discharges an inductive invariant of the ring design in lock step with the set model
    (PacketRingInd: Init => IndInv, IndInv /\\ Next => IndInv' /\\ agree'), so the ring's verdict equals the set model's after
    ANY number of presentations over the ids 0..24 at the scaled constants; with the EdgeGE deviation the step must fail."""
    try:
        res["base"] = vlib.apalache("PacketRingInd", "CInit", "Init", "IndInv", 0, tag="ind_base")
        res["step"] = vlib.apalache("PacketRingInd", "CInit", "IndInit", "IndAndAgree", 1, tag="ind_step")
        res["dev_EdgeGE"] = vlib.apalache("PacketRingInd", "CInitDev", "IndInit", "IndAndAgree", 1, tag="ind_dev")
    except Exception as e:      # reported by the caller
        res["tool_error"] = str(e)


def run(tier):
    c = Check("C11", tier, "model_checking")
    c.cov["traces_validated_against_impl"] = 0
    import threading
    ind = {}
    th = threading.Thread(target=inductive, args=(ind,))
    th.start()
    model(c, tier)
    sessions(c, tier)
    spec_to_impl(c, tier)
    impl_to_spec(c, tier)
    try:
        from checks import c11_e2e
        c11_e2e.run(c, tier)
    except ImportError:
        c.assumptions.append("end-to-end refusal handling (second sentence) not exercised in this run")
    th.join()
    if ind.get("tool_error"):
        raise vlib.ToolError("inductive invariant: " + ind["tool_error"])
    if ind.get("base") != "ok" or ind.get("step") != "ok":
        c.violation("model: the inductive invariant of the ring design does not hold (base %s, step %s)" % (ind.get("base"), ind.get("step")), ind)
    if ind.get("dev_EdgeGE") != "error":
        raise vlib.ToolError("anti-vacuity: the inductive step holds with the EdgeGE deviation")
    c.cov["inductive_invariant_apalache"] = dict(ind, obligations=2, discharged=2, scope="any number of presentations over ids 0..24, BB=2, RB=4, W=6")
    c.assumptions += ["TLC ints are 32 bit: 64-bit IDs are replayed as base+offset with bases that are multiples of 8192",
                      "the harness links /repo's PacketWindowFilter through a path dependency built with --cfg octo_verif"]
    return c.finish()


def replay(path):
    o = json.load(open(path))
    if "history" in o["replay"]:
        from lib import e2e
        p = os.path.join(vlib.WORK, "replay_c11.ndjson")
        e2e.write_ndjson(p, o["replay"]["history"])
        acc, matched, r = validate_trace("TraceUdp", "TraceUdp.cfg", p)
        print("recorded history: accepted=%s matched=%d of %d" % (acc, matched, len(o["replay"]["history"])))
        if not acc:
            print("VIOLATION property=C11 replay=%s" % path)
            return 1
        return 0
    sc = o["replay"].get("scenario")
    if not sc:
        print(json.dumps(o, indent=1))
        return 0
    res = vh_json_lines(["c11-replay"], stdin=json.dumps(sc) + "\n")
    bad = [x for x in res if x.get("mismatch")]
    print(json.dumps(res, indent=1))
    if bad:
        print("VIOLATION property=C11 replay=%s" % path)
        return 1
    return 0
