"""C01 — TCP relay is byte-transparent end to end for every supported configuration (DESIGN 5.1).

model:  TcpRelay (design: kernel pipes, four pumps, two relays, grace, link kinds) refines RelayAbs; deviations caught.
spec -> impl: every environment script TLC exports from RelayScripts is executed on real client+server processes.
impl -> spec: randomised traffic scripts (sizes 1 B .. MiB, pauses, both directions, concurrent flows);
every recorded flow is judged by TLC against TraceRelay (RelayAbs guards + PrefixUp/PrefixDown/DialedExactly)."""
import asyncio
import json
import random

from lib import e2e, relayrun, vlib
from lib.vlib import Check

KINDS = e2e.LOCAL_KINDS


IDLE_S = 32.0       # longer than the 30 s in which a Shadowsocks 2022 header stays acceptable


async def idle_flows(c, tier, rnd):
    """Flows whose first payload of a direction comes long after the flow was set up: the application is silent for IDLE_S
    after its local handshake and only then sends its request; the target is silent for IDLE_S after the dial and only
    then answers.  Nothing in RelayAbs depends on when bytes are written.  Runs beside the other batches."""
    ss = [x for x in e2e.tcp_matrix() if x.proto == "shadowsocks" and x.cipher in e2e.SS2022]
    other = [x for x in e2e.tcp_matrix() if not (x.proto == "shadowsocks" and x.cipher in e2e.SS2022)]
    rnd.shuffle(ss)
    rnd.shuffle(other)
    confs = ss[:1] + other[:1] if tier == "quick" else ss[:8] + other[:4]
    c.cov["idle_configurations"] = [x.label for x in confs]

    async def one(i, conf):
        dep = e2e.Deployment(conf, "c01idle%d" % i)
        try:
            await dep.start()
            late_request = [("pause", IDLE_S), ("up", rnd.randint(1, 3000)), ("sync",), ("down", rnd.randint(1, 100000)), ("sync",),
                            ("tgt_close", "close"), ("wait_end", "app")]
            late_answer = [("up", rnd.randint(1, 3000)), ("sync",), ("pause", IDLE_S), ("down", rnd.randint(1, 100000)), ("sync",),
                           ("up", rnd.randint(1, 3000)), ("sync",), ("app_close", "close"), ("wait_end", "tgt")]
            spec = [(late_request, "ok", "socks5", 1 << 16), (late_answer, "ok", "connect", 1 << 16),
                    (late_request, "ok", "connect", 1 << 16), (late_answer, "ok", "http", 1 << 16)]
            return await relayrun.run_batch(dep, spec, vlib.seed() * 1000 + 900 + i, fid0=4000, settle_cap=45.0 if conf.transport == "quic" else 9.0)
        finally:
            dep.stop()
    res = await asyncio.gather(*[one(i, conf) for i, conf in enumerate(confs)])
    c.add("idle_flows", 4 * len(confs))
    return list(res)


async def drive(c, tier, scripts, rnd):
    batches = []
    idle = asyncio.ensure_future(idle_flows(c, tier, random.Random(rnd.random())))
    n_conf = 15 if tier == "quick" else 50
    per_conf = 16 if tier == "quick" else 60
    confs = relayrun.pick_confs(rnd, n_conf)
    c.cov["configurations"] = [x.label for x in confs]
    used = 0
    for ci, conf in enumerate(confs):
        dep = e2e.Deployment(conf, "c01")
        try:
            await dep.start()
            sel = rnd.sample(scripts, min(per_conf, len(scripts)))
            spec = []
            for i, sc in enumerate(sel):
                steps, reach = relayrun.concretise(sc, conf, rnd, big=(150000, 300000) if tier == "quick" else (150000, 1200000))
                spec.append((steps, reach, KINDS[(i + ci) % 3], rnd.choice([1 << 16, 1 << 16, 4096, 1500])))
            used += len(sel)
            # descriptors: poll until back at the idle baseline; the cap is the one C15 uses (a QUIC connection whose end was
            # not passed on explicitly is released by its idle timeout, 30 s)
            cap = 45.0 if conf.transport == "quic" else 12.0
            ev = await relayrun.run_batch(dep, spec, vlib.seed() * 1000 + ci, settle_cap=cap)
            batches.append(ev)
            # impl -> spec: randomised scripts, run concurrently
            spec = [(relayrun.random_script(rnd, big=(100000, 500000) if tier == "quick" else (100000, 3000000)), "ok",
                     KINDS[i % 3], rnd.choice([1 << 16, 1 << 14, 1000, 65537])) for i in range(8 if tier == "quick" else 32)]
            ev = await relayrun.run_batch(dep, spec, vlib.seed() * 1000 + 500 + ci, fid0=1000, settle_cap=cap)
            batches.append(ev)
            c.add("random_scripts", len(spec))
            # HalfCloseComplete: one side finishes sending and goes on reading; the other answers after it has seen that end
            spec = [(relayrun.halfclose_script(rnd, big=(100000, 400000) if tier == "quick" else (100000, 2000000)), "ok",
                     KINDS[(i + ci) % 3], rnd.choice([1 << 16, 4096])) for i in range(4 if tier == "quick" else 12)]
            ev = await relayrun.run_batch(dep, spec, vlib.seed() * 1000 + 700 + ci, fid0=2000, settle_cap=cap)
            batches.append(ev)
            c.add("halfclose_scripts", len(spec))
            # back-pressure: slow reader, far more data than the buffers hold, the writer closes at once
            if tier != "quick" or ci < 5:
                spec = [(relayrun.pressure_script(rnd), "ok", KINDS[(i + ci) % 3], 1 << 16) for i in range(2 if tier == "quick" else 4)]
                spec += [(relayrun.slow_drain_script(rnd, d), "ok", KINDS[(i + ci) % 3], 1 << 16) for i, d in enumerate(["up", "down"])]
                ev = await relayrun.run_batch(dep, spec, vlib.seed() * 1000 + 800 + ci, fid0=3000, end_cap=25.0, settle_cap=cap)
                batches.append(ev)
                c.add("pressure_scripts", len(spec))
        finally:
            dep.stop()
    c.add("replayed_scripts", used)
    batches += await idle
    return batches


def run(tier):
    c = Check("C01", tier, "model_checking")
    c.cov["traces_validated_against_impl"] = 0
    rnd = random.Random(vlib.seed())
    relayrun.model(c, tier)
    scripts = relayrun.scripts(c, tier)
    c.cov["scripts_in_model"] = len(scripts)
    c.sample({"script": scripts[len(scripts) // 2]})
    batches = asyncio.run(drive(c, tier, scripts, rnd))
    for desc, seg, ev in relayrun.judge(c, "c01", batches, "relay"):
        c.violation(desc, {"flow": seg})
    c.sample({"flow_trace": relayrun.split_flows(batches[0])[0][:14]})
    c.cov["max_seconds_to_idle_baseline"] = max(relayrun.SETTLE_TIMES or [0])
    self_test(c, batches)
    c.assumptions += [
        "loopback only (no loss, no MTU), IPv4 only as the README says; domain targets resolve through /etc/hosts (localhost)",
        "TcpRelay's timing assumption (maximal progress): the 2 s grace timer fires only when kernels and tasks have nothing left to do",
        "completeness towards a side is demanded while that side has not closed or has only finished sending (half-close), no "
        "reset-producing close happened (RelayAbs Close rules) and - for a half-closed side - the flow was not silent for longer than "
        "the close grace (Lapse: logged by the observer after 1 s without any event on the flow, half of the relay's 2 s)",
        "bounded waits in the observer: 20 s for 'everything written has arrived', 6 s for an end to be passed on, 6 s for a dial",
    ]
    return c.finish()


def self_test(c, batches):
    """binding self-test: corrupt one recorded field -> TLC must reject"""
    import copy
    import os
    seg = None
    for b in batches:
        for s in relayrun.split_flows(b):
            if any(e["ev"] == "AppGot" for e in s):
                seg = copy.deepcopy(s)
                break
        if seg:
            break
    if not seg:
        return
    for e in seg:
        if e["ev"] == "AppGot":
            e["n"] += 1
            break
    path = os.path.join(vlib.WORK, "c01", "selftest.ndjson")
    e2e.write_ndjson(path, seg + [{"ev": "Reset"}, {"ev": "Quiesce", "wa": False, "wt": False}])
    # one extra byte delivered: either PrefixDown breaks at once or the totals no longer add up at the end
    seg2 = [x for x in seg]
    acc, matched, r = vlib.validate_trace("TraceRelay", "TraceRelay.cfg", path)
    if acc:
        # the extra byte may be covered by bytes still in flight; make it unambiguous: deliver more than was ever sent
        for e in seg2:
            if e["ev"] == "AppGot":
                e["n"] += 10 ** 8
                break
        e2e.write_ndjson(path, seg2)
        acc, matched, r = vlib.validate_trace("TraceRelay", "TraceRelay.cfg", path)
    if acc:
        raise vlib.ToolError("binding self-test failed: corrupted trace accepted")
    c.cov["binding_selftest"] = "AppGot length inflated -> rejected after %d events" % matched


def replay(path):
    o = json.load(open(path))
    seg = o["replay"].get("flow")
    if not seg:
        print(json.dumps(o, indent=1)[:3000])
        return 0
    import os
    p = os.path.join(vlib.WORK, "replay_c01.ndjson")
    e2e.write_ndjson(p, seg)
    acc, matched, r = vlib.validate_trace("TraceRelay", "TraceRelay.cfg", p)
    print("recorded flow: accepted=%s matched=%d of %d" % (acc, matched, len(seg)))
    if not acc:
        print("VIOLATION property=C01 replay=%s" % path)
        return 1
    return 0
