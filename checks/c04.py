"""C04 — decoding is independent of segmentation and never stalls (DESIGN 5.4)."""
import json
import os
import random

from lib import vlib
from lib.vlib import Check, tlc, tlc_parallel, vh_json_lines, validate_trace

LAYOUTS = ["ss-legacy-req", "ss-legacy-resp", "ss2022-req", "ss2022-req-eih", "ss2022-resp", "vmess-req", "vmess-resp",
           "vmess-udp-req", "vmess-udp-resp", "trojan-req", "trojan-udp-req", "dgrams", "raw"]
DEVS = ["SaltNone", "ConnectLost", "NoGuard", "ShortGuard", "OnePerMessage"]


def model(c, tier):
    jobs = [dict(module="MCStreamCodec", cfg="MCStreamCodec_%s_%s.cfg" % (l, a), workers=2, timeout=900, heap="2g")
            for l in LAYOUTS for a in ("framed", "ws")]
    for j, r in zip(jobs, tlc_parallel(jobs, 6)):
        c.tlc_stats(r)
        if not r.ok:
            c.violation("model: %s violated in %s" % (r.violated or r.error, j["cfg"]), {"cfg": j["cfg"], "tail": r.out[-3000:]})
    jobs = [dict(module="MCStreamCodec", cfg="MCStreamCodec_dev_%s.cfg" % d, workers=2, timeout=600, heap="2g") for d in DEVS]
    seen = {}
    for d, r in zip(DEVS, tlc_parallel(jobs, 5)):
        seen[d] = r.violated
        if not r.violated:
            raise vlib.ToolError("anti-vacuity: deviation %s not detected by the model" % d)
    c.cov["deviations_detected_by_model"] = seen


def spec_to_impl(c, tier):
    num = 30 if tier == "quick" else 400
    jobs = [dict(module="MCStreamCodec", cfg="MCStreamCodec_%s_%s_sim.cfg" % (l, a), workers=1, simulate=num, depth=80, timeout=900,
                 heap="2g", seed_=vlib.seed() * 1000 + i)
            for i, (l, a) in enumerate((l, a) for l in LAYOUTS for a in ("framed", "ws"))]
    scen = []
    for j, r in zip(jobs, tlc_parallel(jobs, 6)):
        if not r.ok:
            c.violation("model (simulation): %s violated in %s" % (r.violated or r.error, j["cfg"]), {"cfg": j["cfg"], "tail": r.out[-3000:]})
        if not r.replay:
            raise vlib.ToolError("no scenarios from " + j["cfg"])
        c.add("transitions", r.generated)
        scen += r.replay
    c.sample(scen[0]); c.sample(scen[len(scen) // 2])
    rows = vh_json_lines(["c04-replay", "--seed", vlib.seed()], stdin="\n".join(json.dumps(s) for s in scen) + "\n", timeout=3000)
    n = 0
    for o in rows:
        if "tool_error" in o:
            raise vlib.ToolError(o["tool_error"])
        if o.get("summary"):
            continue
        n += 1
        if not o["ok"]:
            c.violation("spec->impl %s/%s (%s producer) cuts %s: %s" % (o["proto"], o["scenario"]["adapter"], o.get("producer"),
                                                                       o.get("real_cuts"), "; ".join(o["why"])), o)
    c.add("replayed_segmentations", n)


def impl_to_spec(c, tier):
    wd = vlib.workdir("c04")
    plan = [("mixed", 500), ("tiny", 60)] if tier == "quick" else [("mixed", 2500), ("mixed", 2500), ("mixed", 2500), ("tiny", 400), ("tiny", 400)]
    ok = 0
    first = None
    for i, (mode, runs) in enumerate(plan):
        path = os.path.join(wd, "runs_%d.ndjson" % i)
        res = vh_json_lines(["c04-record", "--seed", vlib.seed() * 100 + i, "--runs", runs, "--mode", mode, "--out", path], timeout=3000)[-1]
        c.add("recorded_runs", res["runs"])
        acc, matched, r = validate_trace("TraceStreamCodec", "TraceStreamCodec.cfg", path, timeout=3000, heap="6g")
        c.tlc_stats(r)
        c.add("trace_events", matched if acc else 0)
        if acc:
            ok += 1
            first = first or path
        else:
            ex = res.get("examples") or []
            why = ex[0] if ex else {"tail": r.out[-1500:]}
            c.violation("a recorded run of the real adapters is not a behaviour of the StreamCodec design (%s; first unmatched line %d): %s" %
                        (r.violated or "released data differs", matched, json.dumps(why)[:600]), {"trace": path, "harness_view": ex[:5], "tail": r.out[-1500:]})
        if res["harness_disagreements"] and acc:
            raise vlib.ToolError("harness judgement and TLC disagree on " + path)
    c.add("traces_validated_against_impl", ok)
    if first:
        rows = open(first).read().splitlines()
        c.sample({"trace_head": [json.loads(x) for x in rows[:3]]})
        cand = [i for i, x in enumerate(rows) if '"Quiet"' in x and '"plain": 0' not in x and '"plain":0' not in x]
        k = random.Random(vlib.seed()).choice(cand)
        row = json.loads(rows[k]); row["plain"] = max(0, row["plain"] - 1); rows[k] = json.dumps(row)
        mpath = os.path.join(wd, "mutated.ndjson")
        open(mpath, "w").write("\n".join(rows[:k + 50]) + "\n")
        acc, matched, _ = validate_trace("TraceStreamCodec", "TraceStreamCodec.cfg", mpath, timeout=900)
        if acc:
            raise vlib.ToolError("binding self-test failed: corrupted trace accepted")
        c.cov["binding_selftest"] = "released byte count of line %d lowered by one -> rejected at line %d" % (k + 1, matched)


def run(tier):
    c = Check("C04", tier, "model_checking")
    c.cov["traces_validated_against_impl"] = 0
    model(c, tier)
    spec_to_impl(c, tier)
    impl_to_spec(c, tier)
    c.assumptions += [
        "transports are in-memory (scripted AsyncRead; tokio duplex under a real tokio-websockets stream): TLS records and QUIC reads are covered as byte segmentations of the same FramedRead",
        "Shadowsocks 2022: runs whose first delivery does not hold salt + fixed header are exempt from NoErrorOnValid (they must still not panic)",
        "field boundaries of real streams come from the reference opener (harness/src/refcodec.rs, refvmess.rs)",
    ]
    return c.finish()


def replay(path):
    o = json.load(open(path))
    print(json.dumps(o, indent=1)[:4000])
    return 0
