"""C06 — no relaying without the configured credential; users stay separated (DESIGN 5.6)."""
import json

from lib import vlib
from lib.vlib import Check, tlc, tlc_parallel, vh_json_lines

DEVS = ["FirstUser", "ServerKeyOnly", "ReplyServerKey", "AcceptWrong", "ShapeAccepted", "SessionCipherCached", "SharedKeyTable"]


def run(tier):
    c = Check("C06", tier, "model_checking")
    c.cov["traces_validated_against_impl"] = 0
    r = tlc("MCAuth", "MCAuth.cfg", workers=2, timeout=600)
    c.tlc_stats(r)
    if not r.ok:
        c.violation("model: %s violated in MCAuth" % (r.violated or r.error), {"tail": r.out[-3000:]})
    seen = {}
    for d, rr in zip(DEVS, tlc_parallel([dict(module="MCAuth", cfg="MCAuth_dev_%s.cfg" % d, workers=1, timeout=300, heap="1g") for d in DEVS], 4)):
        seen[d] = rr.violated
        if not rr.violated:
            raise vlib.ToolError("anti-vacuity: deviation %s not detected by the model" % d)
    c.cov["deviations_detected_by_model"] = seen
    if not r.replay:
        raise vlib.ToolError("no scenarios")
    c.sample(r.replay[3]); c.sample(r.replay[len(r.replay) // 2])
    rows = vh_json_lines(["c06-replay", "--seed", vlib.seed(), "--reps", 3 if tier == "quick" else 60],
                         stdin="\n".join(json.dumps(s) for s in r.replay) + "\n", timeout=3000)
    per = {}
    for o in rows:
        sc = o["scenario"]
        per[sc["cfg"]] = per.get(sc["cfg"], 0) + 1
        if not o["ok"]:
            if str(o["obs"].get("detail", "")).startswith("TOOL:"):
                raise vlib.ToolError(o["obs"]["detail"])
            c.violation("%s: peer with server-level secret '%s', user-level secret '%s', naming %s user%s, %s message (%s): %s [%s]" %
                        (sc["cfg"], sc["sk"], sc["uk"], "its own" if sc.get("claim") != "other" else "the OTHER registered",
                         (" after a valid datagram of the same session" if sc.get("prior") else "") + {"here": "", "elsewhere": ", a credential of ANOTHER listener of the process", "elsewhere-used": ", a credential of ANOTHER listener that has already served it"}.get(sc.get("at", "here"), ""), sc["form"], o["variant"], "; ".join(o["why"]), o["obs"]["detail"]), o)
    c.add("credential_cases_replayed", len(rows))
    c.cov["cases_per_configuration"] = per
    c.assumptions += [
        "attacker messages are built by the reference codec from the keys the attacker is said to know (wrong key, one bit different, another registered user's, unregistered, none = another protocol's valid handshake or random bytes, shape = a credential field of the right length that holds no key: 56 non-hexadecimal characters for Trojan in seven fillings, an all-zero key / empty password for Shadowsocks)",
        "a message that names the other registered user (its identity header copied from that user's traffic) while sealed under the sender's own key, alone and right after a valid datagram of the same session (one server codec for both, as in the datagram loop)",
        "the key an answer is sealed under is identified by opening the real server's output with the reference opener under each candidate key",
        "the server's UDP association table (which user a later reply is sealed for) is a server-loop matter and is exercised end to end under C02/C09",
    ]
    return c.finish()


def replay(path):
    o = json.load(open(path))
    sc = o["replay"].get("scenario")
    rows = vh_json_lines(["c06-replay"], stdin=json.dumps(sc) + "\n", timeout=600)
    print(json.dumps(rows, indent=1)[:4000])
    if any(not r["ok"] for r in rows):
        print("VIOLATION property=C06 replay=%s" % path)
        return 1
    return 0
