"""C09 — concurrent flows are independent of one another (DESIGN 5.9).

model:  SharedState.tla - the process-wide datagram cipher cache as Call / Acquire / Body / Exit / Use steps of 2-4 threads:
        MutexOnCache, NoCorruption, RightCipher, LockHeldInside, Termination; "Unsynchronised" (what the code used to do)
        must violate them.  The per-server salt cache under concurrent identical handshakes is Handshake.tla's concurrent
        configurations (AcceptedAtMostOnce; TryLock / NonAtomicSet must violate it).
spec -> impl: every behaviour TLC exports (who calls, who gets in first, hits and inserts, where the others are meanwhile) is
        replayed on REAL threads going through the REAL get_cipher with the sync-point controller; while one thread is
        parked inside the cache, the next one the schedule lets in is released early and must not get in.
impl -> spec: (a) 2-16 OS threads encode and decode datagrams through one shared codec with no controller; the enter/exit
        events of the Region marker are validated by TLC against TraceSharedState, every datagram is cross-checked with the
        reference codec; (b) real client + server on 2-16 tokio worker threads carry dozens of TCP flows and several
        datagram sessions at the same time: every flow is validated against TraceRelay, every datagram session against
        TraceUdp (its projection is a behaviour of the single-flow specification), the cache events recorded inside both
        processes against TraceSharedState, each deterministic flow's result is compared with the same flow run alone, and
        one Shadowsocks 2022 request presented on many connections at once must be accepted exactly once."""
import asyncio
import copy
import json
import os
import random
import subprocess

from checks import c02
from lib import e2e, relayrun, udprun, vlib
from lib.vlib import Check

KINDS = e2e.LOCAL_KINDS


# ---------------------------------------------------------------------------------------------------------------
# model

def model(c, tier):
    ideal = ["same22", "distinct22", "mixed32"] + (["distinct42"] if tier == "thorough" else [])
    jobs = [dict(module="MCSharedState", cfg="MCSharedState_%s.cfg" % k, workers=2, timeout=900) for k in ideal]
    for k, r in zip(ideal, vlib.tlc_parallel(jobs, parallel=4)):
        c.tlc_stats(r)
        if not r.ok:
            c.violation("model: SharedState (%s) violates %s" % (k, r.violated or r.error), {"cfg": k, "tail": r.out[-2000:]})
    seen = {}
    devs = [("MCSharedState", "MCSharedState_dev_Unsynchronised.cfg"), ("MCSharedState", "MCSharedState_dev_Unsynchronised_same.cfg"),
            ("MCHandshake", "MCHandshake_dev_TryLock.cfg"), ("MCHandshake", "MCHandshake_dev_NonAtomicSet.cfg")]
    jobs = [dict(module=m, cfg=f, workers=2, timeout=600) for m, f in devs]
    for (m, f), r in zip(devs, vlib.tlc_parallel(jobs, parallel=4)):
        seen[f[:-4]] = r.violated
        if not r.violated:
            raise vlib.ToolError("anti-vacuity: deviation %s not detected by the model" % f)
    c.cov["deviations_detected_by_model"] = seen
    # the salt cache with 2 (thorough: 3) concurrent copies of one request, ideal design
    for f in ["MCHandshake_conc2.cfg"] + (["MCHandshake_conc3.cfg"] if tier == "thorough" else []):
        r = vlib.tlc("MCHandshake", f, workers=4, timeout=1800)
        c.tlc_stats(r)
        if not r.ok:
            c.violation("model: Handshake (%s) violates %s" % (f, r.violated or r.error), {"cfg": f, "tail": r.out[-2000:]})
    scheds = []
    exports = ["exp_mixed21", "exp_distinct21", "exp_mixed22", "exp_distinct31"]
    jobs = [dict(module="MCSharedState", cfg="MCSharedState_%s.cfg" % k, workers=2, timeout=900) for k in exports]
    for k, r in zip(exports, vlib.tlc_parallel(jobs, parallel=4)):
        c.tlc_stats(r)
        if not r.ok:
            c.violation("model: SharedState (%s) violates %s" % (k, r.violated or r.error), {"cfg": k, "tail": r.out[-2000:]})
        scheds.append(r.replay)
    if not all(scheds):
        raise vlib.ToolError("no schedules exported")
    c.cov["schedules_in_model"] = {k: len(s) for k, s in zip(exports, scheds)}
    return scheds


# ---------------------------------------------------------------------------------------------------------------
# spec -> impl: schedules on real threads

def replay_schedules(c, sel):
    """Runs the schedules through vh c09-replay in chunks (a crash of the process under an unsynchronised cache is an
    outcome: the chunk is bisected down to the schedule that kills it)."""
    def run_chunk(chunk):
        p = subprocess.run([vlib.VH, "c09-replay", "--seed", str(vlib.seed())], input="\n".join(json.dumps(s) for s in chunk) + "\n",
                           stdout=subprocess.PIPE, stderr=subprocess.PIPE, text=True, timeout=1800)
        rows = [json.loads(l) for l in p.stdout.splitlines() if l.startswith("{")]
        return p.returncode, rows, p.stderr[-300:]
    pending = [sel[i:i + 50] for i in range(0, len(sel), 50)]
    done = 0
    probes = 0
    while pending:
        chunk = pending.pop(0)
        rc, rows, err = run_chunk(chunk)
        for r in rows:
            done += 1
            probes += r.get("probes", 0)
            if not r["ok"]:
                c.violation("schedule %s on real threads: %s" % (json.dumps(r["scenario"]["sched"]),
                            r.get("overlap") or r.get("diverged") or ("output errors %s" % r.get("output_errors")) or "max inside %s" % r.get("max_inside")), r)
        if rc != 0:
            rest = chunk[len(rows):]
            if rest:
                c.violation("the process replaying schedule %s died (exit %s): %s" % (json.dumps(rest[0]["sched"]), rc, err.strip()[-160:]),
                            {"scenario": rest[0], "exit": rc, "stderr": err})
                if len(rest) > 1:
                    pending.insert(0, rest[1:])
    c.add("schedules_replayed", done)
    c.add("early_release_probes", probes)


# ---------------------------------------------------------------------------------------------------------------
# impl -> spec (a): free-running OS threads

def stress(c, tier):
    wd = os.path.join(vlib.WORK, "c09")
    os.makedirs(wd, exist_ok=True)
    plans = [(2, 3000), (8, 2000)] if tier == "quick" else [(2, 20000), (3, 20000), (4, 20000), (8, 10000), (16, 6000), (16, 6000)]
    for i, (th, ops) in enumerate(plans):
        out = os.path.join(wd, "stress_%d.ndjson" % i)
        args = [vlib.VH, "c09-stress", "--seed", str(vlib.seed() * 100 + i), "--threads", str(th), "--ops", str(ops), "--sessions", str(8 * th), "--out", out]
        p = subprocess.run(args, stdout=subprocess.PIPE, stderr=subprocess.PIPE, text=True, timeout=1800)
        desc = "%d threads x %d datagram encodes/decodes through one shared codec" % (th, ops)
        if p.returncode != 0:
            c.violation("%s: the process died (exit %s): %s" % (desc, p.returncode, p.stderr.strip()[-200:]), {"stress": args[2:], "exit": p.returncode})
            continue
        row = next((json.loads(l) for l in p.stdout.splitlines() if l.startswith("{")), None)
        if row is None:
            raise vlib.ToolError("c09-stress printed nothing")
        c.add("stress_operations", th * ops)
        if row["bad_outputs"] or row["threads_panicked"]:
            c.violation("%s: corrupted output or panic: %s" % (desc, json.dumps(row["bad_outputs"][:3])), {"stress": args[2:], "row": row})
        acc, matched, r = vlib.validate_trace("MCTraceSharedState", "TraceSharedState.cfg", out, timeout=1800)
        c.tlc_stats(r)
        if acc:
            c.add("traces_validated_against_impl", 1)
            c.add("cache_events_validated", matched)
        else:
            ev = open(out).read().splitlines()[matched:matched + 1]
            c.violation("%s: the recorded cache events are not a behaviour of SharedState at event %d %s (two threads inside the cache region)" % (desc, matched + 1, ev),
                        {"stress": args[2:], "trace": out, "at": matched + 1})
        if i == 0:
            c.sample({"cache_trace_head": [json.loads(l) for l in open(out).read().splitlines()[:6]]})
    # the salt cache: the same request on every connection of one server at the same moment, round after round
    for i, (th, rounds) in enumerate([(8, 1500)] if tier == "quick" else [(2, 20000), (4, 10000), (8, 10000), (16, 4000)]):
        out = os.path.join(wd, "salt_%d.ndjson" % i)
        args = ["c09-salt", "--seed", str(vlib.seed() * 100 + i), "--threads", str(th), "--rounds", str(rounds), "--out", out]
        p = subprocess.run([vlib.VH] + args, stdout=subprocess.PIPE, stderr=subprocess.PIPE, text=True, timeout=3000)
        if p.returncode != 0:
            c.violation("%d connections presenting the same request at once: the process died (exit %s): %s" % (th, p.returncode, p.stderr.strip()[-200:]), {"salt": args[1:]})
            continue
        row = next(json.loads(l) for l in p.stdout.splitlines() if l.startswith("{"))
        c.add("same_handshake_rounds", row["rounds"])
        acc, matched, r = vlib.validate_trace("MCTraceSharedState", "TraceSharedState.cfg", out, timeout=1800)
        c.tlc_stats(r)
        if acc:
            c.add("traces_validated_against_impl", 1)
        else:
            ev = open(out).read().splitlines()[matched:matched + 1]
            c.violation("%d connections of one server presented the same Shadowsocks 2022 request at the same moment: round %d %s - not exactly one accepted (%d such rounds of %d, up to %d copies accepted)" %
                        (th, matched + 1, ev, row["bad_rounds"], row["rounds"], row["most_accepted"]), {"salt": args[1:], "row": row})


# ---------------------------------------------------------------------------------------------------------------
# impl -> spec (b): real processes, many flows at once

def det_script(rnd, big):
    """A transfer whose observable result is determined by the script: everything is awaited (sync) before the one orderly end."""
    steps = [("up", rnd.choice([1, rnd.randint(1, 3000), rnd.randint(1, 70000)]))]
    for _ in range(rnd.randint(1, 5)):
        steps.append((rnd.choice(["up", "down"]), rnd.choice([1, rnd.randint(1, 3000), rnd.randint(1, 70000), rnd.choice(sum(relayrun.BOUNDARY.values(), [])), rnd.randint(*big)])))
        if rnd.random() < 0.3:
            steps.append(("sync",))
    steps.append(("sync",))
    e = rnd.choice(["app", "tgt", "none"])
    if e == "app":
        steps += [("app_close", rnd.choice(["fin", "close"])), ("wait_end", "tgt")]
    elif e == "tgt":
        steps += [("tgt_close", rnd.choice(["fin", "close"])), ("wait_end", "app")]
    return steps


def summary(seg):
    """The observable result of one flow (events of its segment)."""
    up = [e for e in seg if e["ev"] == "TgtGot"]
    down = [e for e in seg if e["ev"] == "AppGot"]
    waited = next((e for e in seg if e["ev"] == "Quiesce"), {})
    out = {"dials": sum(1 for e in seg if e["ev"] == "Dial"), "up": sum(e["n"] for e in up), "up_ok": all(e["ok"] for e in up),
           "down": sum(e["n"] for e in down), "down_ok": all(e["ok"] for e in down),
           "synced": [e["ok"] for e in seg if e["ev"] == "Synced"]}
    if waited.get("wt"):
        out["tgt_end"] = next((e["how"] for e in seg if e["ev"] == "TgtEnd"), "none")
    if waited.get("wa"):
        out["app_end"] = next((e["how"] for e in seg if e["ev"] == "AppEnd"), "none")
    return out


async def small_udp(dep, conf, d, events, ports):
    """A datagram session of its own (own applications, own targets) with small datagrams, a few in flight."""
    rnd = random.Random(d["seed"])
    s = c02.Scenario(dep, conf, d["seed"], ports)
    napps = d["napps"]
    for a in range(1, napps + 1):
        s.w.add_app(a, 0)
    s.w.add_target(1, "127.0.0.1")
    s.w.add_target(2, "127.0.0.2")
    s.w.add_target(3, "127.0.0.1", name="localhost")
    for i in range(d["n"]):
        a, t = rnd.randint(1, napps), rnd.randint(1, 3)
        n = rnd.choice([rnd.randint(16, 200), rnd.randint(16, 1400)])
        s.send(a, t, n, rep=rnd.choice([1, 1, 2]), rsize=rnd.randint(16, 1400))
        await s.w.drain(rnd.choice([1, 2, 3]), 2.0)
    await s.end(events, d)


async def rude_udp(dep, conf, d, events, ports):
    """A session of its own whose traffic is legal but awkward: a reply too long to be passed on whole (the path drops it),
    a datagram with no payload answered by one with no payload, a datagram to a name that does not resolve.  Whatever that
    costs, it costs THIS session: the sessions running beside it are owed every one of their datagrams (independence)."""
    s = c02.Scenario(dep, conf, d["seed"], ports)
    s.w.add_app(1, 0)
    s.w.add_target(1, "127.0.0.1")
    s.send(1, 1, 100, rep=1)
    await s.w.drain(0, 2.0)
    await asyncio.sleep(0.15)
    s.w.send(1, 1, 200, rep=1, rsize=65506, must=True)
    s.w.no_must_reply.add(len(s.w.sent))
    await asyncio.sleep(0.1)
    s.send(1, 1, 0, rep=1, rsize=0)
    hdr = b"\x00\x00\x00" + e2e.socks5_addr("no-such-host-c09.invalid", 5353)
    s.w.send(1, 1, 48, rep=0, must=False, raw_header=hdr)
    await s.w.drain(0, 2.0)
    await s.end(events, d)


async def same_handshake(dep, conf, copies, target_port_holder):
    """One Shadowsocks 2022 request, built by the reference codec, presented on `copies` connections at the same moment."""
    dials = []

    async def on_conn(r, w):
        dials.append(1)
        try:
            await r.read(100)
        except OSError:
            pass
        w.close()
    srv = await asyncio.start_server(on_conn, "127.0.0.1", 0)
    port = srv.sockets[0].getsockname()[1]
    spw, _, _ = conf.secrets()
    out = subprocess.run([vlib.VH, "c09-request", "--cipher", conf.cipher, "--password", spw, "--target-port", str(port), "--payload", b"same-handshake".hex(),
                          "--seed", str(vlib.seed())], stdout=subprocess.PIPE, text=True, timeout=60).stdout
    req = bytes.fromhex(json.loads(out.strip().splitlines()[-1])["hex"])
    conns = []
    try:
        for _ in range(copies):
            conns.append(await e2e.RawConn.connect("127.0.0.1", dep.server_port, 5.0))
        await asyncio.gather(*[k.sendall(req) for k in conns])
        # poll until the number of dials has been stable for a while
        last, since = -1, asyncio.get_running_loop().time()
        t0 = since
        while True:
            now = asyncio.get_running_loop().time()
            if len(dials) != last:
                last, since = len(dials), now
            if (now - since > 0.6 and last >= 1) or now - t0 > 5.0:
                break
            await asyncio.sleep(0.05)
    finally:
        for k in conns:
            k.close()
        srv.close()
    return len(dials)


def cache_events(path):
    out = []
    try:
        for l in open(path):
            try:
                v = json.loads(l)
            except ValueError:
                continue
            if v.get("ev") in ("enter", "exit") and v.get("region") == "cache":
                out.append({"ev": v["ev"], "th": v.get("th", 0), "inside": v["inside"], "seq": v["seq"]})
    except OSError:
        pass
    return out


async def concurrent_run(c, conf, workers, n_flows, n_udp, rnd, big, tag):
    """-> (tcp batches, udp events, process events [Flow / SameHandshake / Panic / Alive], cache traces)"""
    dep = e2e.Deployment(conf, "c09", workers=workers, trace=True)
    proc_ev = [{"ev": "Note", "conf": conf.label, "what": "%s workers=%d" % (tag, workers)}]
    tcp_batches, udp_events = [], []
    try:
        await dep.start()
        scripts = [det_script(rnd, big) for _ in range(n_flows)]
        kinds = [KINDS[i % 3] for i in range(n_flows)]
        chunks = [rnd.choice([1 << 16, 1 << 14, 1500]) for _ in range(n_flows)]
        solo_n = min(4 if n_flows <= 24 else 8, n_flows)
        alone = {}
        for i in range(solo_n):
            ev = await relayrun.run_batch(dep, [(scripts[i], "ok", kinds[i], chunks[i])], vlib.seed() * 1000 + i, fid0=5000 + i)
            tcp_batches.append(ev)
            seg = [s for s in relayrun.split_flows(ev) if s[1].get("flow") == 5000 + i][0]
            alone[i] = summary(seg)
        udp_on = conf.client_mode in ("udp", "tcp_and_udp")
        spec = [(scripts[i], "ok", kinds[i], chunks[i]) for i in range(n_flows)]
        ports = {0: dep.client_port}
        jobs = [relayrun.run_batch(dep, spec, vlib.seed() * 1000 + 77, fid0=1, settle_cap=12.0 if conf.transport != "quic" else 45.0)]
        if udp_on:
            for k in range(n_udp):
                jobs.append(small_udp(dep, conf, {"kind": "small", "seed": vlib.seed() * 100000 + workers * 100 + k, "napps": rnd.randint(1, 3), "n": 30}, udp_events, ports))
            jobs.append(rude_udp(dep, conf, {"kind": "rude", "seed": vlib.seed() * 100000 + workers * 100 + 90}, udp_events, ports))
        res = await asyncio.gather(*jobs)
        ev = res[0]
        tcp_batches.append(ev)
        for seg in relayrun.split_flows(ev):
            f = seg[1].get("flow")
            if isinstance(f, int) and 1 <= f <= solo_n:
                proc_ev.append({"ev": "Flow", "id": f, "conf": conf.label, "alone": alone[f - 1], "together": summary(seg)})
        c.add("concurrent_tcp_flows", n_flows)
        c.add("concurrent_udp_sessions", n_udp if udp_on else 0)
        if conf.proto == "shadowsocks" and conf.cipher in e2e.SS2022 and not conf.users and conf.transport in ("tcp", "udp"):
            copies = 16
            acc = await same_handshake(dep, conf, copies, None)
            proc_ev.append({"ev": "SameHandshake", "copies": copies, "accepted": acc, "conf": conf.label})
            c.add("same_handshake_bursts", 1)
        proc_ev.append({"ev": "Panic", "n": len(dep.panics()), "lines": dep.panics()[:3]})
        proc_ev.append({"ev": "Alive", "c": dep.client.alive(), "s": dep.server.alive()})
    finally:
        dep.stop()
    traces = []
    for name in ("client", "server"):
        evs = cache_events(os.path.join(dep.dir, name + ".trace"))
        if evs:
            traces.append((name, conf.label, workers, evs))
    return tcp_batches, udp_events, proc_ev, traces


def e2e_confs(tier):
    m = {x.label: x for x in e2e.udp_matrix()}
    t = {x.label: x for x in e2e.tcp_matrix()}
    quick = [(m["shadowsocks/2022-blake3-aes-128-gcm/udp"], 4), (m["shadowsocks/2022-blake3-chacha20-poly1305/udp"], 2),
             (m["vmess/aes-128-gcm/ws"], 8), (m["trojan/-/tls"], 16)]
    if tier == "quick":
        return quick
    out = []
    for lab in ["shadowsocks/2022-blake3-aes-128-gcm/udp", "shadowsocks/2022-blake3-aes-256-gcm/udp", "shadowsocks/2022-blake3-chacha8-poly1305/udp",
                "shadowsocks/2022-blake3-chacha20-poly1305/udp", "shadowsocks/2022-blake3-aes-256-gcm+eih/udp", "shadowsocks/aes-256-gcm/udp",
                "vmess/aes-128-gcm/ws", "vmess/chacha20-poly1305/tcp", "vmess/aes-128-gcm/quic", "trojan/-/tls", "trojan/-/wss"]:
        for w in (2, 4, 16):
            out.append((m[lab], w))
    out.append((t["shadowsocks/2022-blake3-aes-256-gcm/quic"], 4))
    out.append((t["shadowsocks/chacha20-poly1305/wss"], 8))
    return out


def judge_proc(c, proc_events, traces):
    """Process-level events and in-process cache traces against TraceSharedState; returns rejected items."""
    wd = os.path.join(vlib.WORK, "c09")
    os.makedirs(wd, exist_ok=True)
    bad = []
    pending = list(proc_events)
    rounds = 0
    while pending and rounds < 30:
        rounds += 1
        p = os.path.join(wd, "proc_r%d.ndjson" % rounds)
        e2e.write_ndjson(p, pending)
        acc, matched, r = vlib.validate_trace("MCTraceSharedState", "TraceSharedState.cfg", p, timeout=900)
        c.tlc_stats(r)
        if acc:
            c.add("process_events_validated", len(pending))
            break
        c.add("process_events_validated", matched)
        bad.append(("event", pending[matched]))
        pending = pending[matched + 1:]
    for i, (name, label, workers, evs) in enumerate(traces):
        p = os.path.join(wd, "cache_%d_%s.ndjson" % (i, name))
        e2e.write_ndjson(p, evs)
        acc, matched, r = vlib.validate_trace("MCTraceSharedState", "TraceSharedState.cfg", p, timeout=1800)
        c.tlc_stats(r)
        if acc:
            c.add("traces_validated_against_impl", 1)
            c.add("cache_events_validated", matched)
        else:
            bad.append(("cache", {"process": name, "conf": label, "workers": workers, "at": matched + 1, "event": evs[matched] if matched < len(evs) else None,
                                  "before": evs[max(0, matched - 3):matched]}))
    return bad


def run(tier):
    c = Check("C09", tier, "model_checking")
    c.cov["traces_validated_against_impl"] = 0
    rnd = random.Random(vlib.seed() + 9)
    scheds = model(c, tier)
    sel = []
    per = 60 if tier == "quick" else 1500
    for s in scheds:
        sel += s if len(s) <= per else rnd.sample(s, per)
    c.sample({"schedule": sel[len(sel) // 2]})
    replay_schedules(c, sel)
    stress(c, tier)
    # real processes
    big = (100000, 300000) if tier == "quick" else (100000, 1200000)
    n_flows, n_udp = (24, 4) if tier == "quick" else (64, 8)
    tcp_batches, udp_events, proc_events, traces = [], [], [], []
    confs = e2e_confs(tier)
    c.cov["configurations"] = ["%s workers=%d" % (x.label, w) for x, w in confs]
    for conf, w in confs:
        tb, ue, pe, tr = asyncio.run(concurrent_run(c, conf, w, n_flows, n_udp, rnd, big, "concurrent"))
        tcp_batches += tb
        udp_events += ue
        proc_events += pe
        traces += tr
    for desc, seg, ev in relayrun.judge(c, "c09", tcp_batches, "concurrent"):
        c.violation(desc, {"flow": seg})
    if udp_events:
        for what, seg in c02.judge(c, "c09", udp_events, prop="C09"):
            c.violation("among concurrent flows: " + what, {"history": seg})
    for kind, item in judge_proc(c, proc_events, traces):
        if kind == "cache":
            c.violation("%s process on %s (%d workers): the cache events recorded inside get_cipher are not a behaviour of SharedState at event %d: %s after %s" %
                        (item["process"], item["conf"], item["workers"], item["at"], json.dumps(item["event"]), json.dumps(item["before"])), item)
        elif item["ev"] == "Flow":
            c.violation("flow %s on %s: result among %d concurrent flows %s differs from its result alone %s" %
                        (item["id"], item["conf"], n_flows, json.dumps(item["together"]), json.dumps(item["alone"])), {"event": item})
        elif item["ev"] == "SameHandshake":
            c.violation("%d connections presented the same Shadowsocks 2022 request at once on %s: %d were accepted" % (item["copies"], item["conf"], item["accepted"]), {"event": item})
        else:
            c.violation("after the concurrent run: %s" % json.dumps(item), {"event": item})
    flows = [e for e in proc_events if e["ev"] == "Flow"]
    if flows:
        c.sample({"flow_alone_vs_together": flows[0]})
    c.cov["solo_vs_concurrent_comparisons"] = len(flows)
    # binding self-tests: an overlapping enter and a differing flow result must be rejected
    wd = os.path.join(vlib.WORK, "c09")
    p = os.path.join(wd, "selftest_overlap.ndjson")
    e2e.write_ndjson(p, [{"ev": "enter", "th": 1, "inside": 1}, {"ev": "enter", "th": 2, "inside": 2}, {"ev": "exit", "th": 1, "inside": 1}, {"ev": "exit", "th": 2, "inside": 0}])
    acc, matched, r = vlib.validate_trace("MCTraceSharedState", "TraceSharedState.cfg", p)
    if acc or matched != 1:
        raise vlib.ToolError("binding self-test failed: overlapping cache entries accepted")
    if flows:
        f2 = copy.deepcopy(flows[0])
        f2["together"]["down"] += 1
        p = os.path.join(wd, "selftest_flow.ndjson")
        e2e.write_ndjson(p, [f2])
        acc, matched, r = vlib.validate_trace("MCTraceSharedState", "TraceSharedState.cfg", p)
        if acc:
            raise vlib.ToolError("binding self-test failed: differing flow result accepted")
    c.cov["binding_selftest"] = "overlapping enter rejected at event 2; flow result differing from the solo run rejected"
    c.assumptions += [
        "loopback; worker threads set with TOKIO_WORKER_THREADS; schedules inside the processes are whatever the runtime produced (not chosen), which is why the in-process cache events are validated too",
        "replayed schedules: a thread released early counts as kept out if it has not reached the cache region after 50 ms while the holder is parked inside",
        "solo-vs-concurrent comparison uses flows whose result is a function of their script (everything awaited before one orderly end)",
        "concurrent datagram sessions use payloads <= 1400 bytes, at most 3 outstanding per session, so that loopback buffers cannot overflow",
        "tables owned by one task (client binding table, server association table) are covered by UdpDesign / TraceUdp: every concurrent session's history is validated on its own",
    ]
    return c.finish()


def replay(path):
    o = json.load(open(path))
    rp = o["replay"]
    if "scenario" in rp:
        p = subprocess.run([vlib.VH, "c09-replay"], input=json.dumps(rp["scenario"]) + "\n", stdout=subprocess.PIPE, stderr=subprocess.PIPE, text=True, timeout=600)
        print(p.stdout[-2000:], p.stderr[-300:])
        rows = [json.loads(l) for l in p.stdout.splitlines() if l.startswith("{")]
        if p.returncode != 0 or any(not r["ok"] for r in rows):
            print("VIOLATION property=C09 replay=%s" % path)
            return 1
        return 0
    if "salt" in rp:
        p = subprocess.run([vlib.VH, "c09-salt"] + rp["salt"], stdout=subprocess.PIPE, stderr=subprocess.PIPE, text=True, timeout=1800)
        print(p.stdout[-800:], p.stderr[-300:])
        row = next((json.loads(l) for l in p.stdout.splitlines() if l.startswith("{")), None)
        if p.returncode != 0 or row is None or row["bad_rounds"]:
            print("VIOLATION property=C09 replay=%s" % path)
            return 1
        return 0
    if "stress" in rp:
        p = subprocess.run([vlib.VH, "c09-stress"] + rp["stress"], stdout=subprocess.PIPE, stderr=subprocess.PIPE, text=True, timeout=1800)
        print(p.stdout[-1500:], p.stderr[-300:])
        row = next((json.loads(l) for l in p.stdout.splitlines() if l.startswith("{")), None)
        if p.returncode != 0 or row is None or row["bad_outputs"] or row["threads_panicked"] or row["max_inside"] > 1:
            print("VIOLATION property=C09 replay=%s" % path)
            return 1
        return 0
    for key, mod, cfg in (("flow", "TraceRelay", "TraceRelay.cfg"), ("history", "TraceUdp", "TraceUdp.cfg")):
        if key in rp:
            p = os.path.join(vlib.WORK, "replay_c09.ndjson")
            e2e.write_ndjson(p, rp[key])
            acc, matched, r = vlib.validate_trace(mod, cfg, p)
            print("recorded %s: accepted=%s matched=%d of %d" % (key, acc, matched, len(rp[key])))
            if not acc:
                print("VIOLATION property=C09 replay=%s" % path)
                return 1
            return 0
    if "event" in rp:
        p = os.path.join(vlib.WORK, "replay_c09.ndjson")
        e2e.write_ndjson(p, [rp["event"]])
        acc, matched, r = vlib.validate_trace("MCTraceSharedState", "TraceSharedState.cfg", p)
        print("recorded event: accepted=%s" % acc)
        if not acc:
            print("VIOLATION property=C09 replay=%s" % path)
            return 1
        return 0
    print(json.dumps(o, indent=1)[:3000])
    return 0
