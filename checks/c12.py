"""C12 — no key ever encrypts two messages with the same nonce (DESIGN 5.12, reduced scope: distinctness and counter rules, not unpredictability)."""
import json
import os
import random

from lib import vlib
from lib.vlib import Check, tlc, tlc_parallel, vh_json_lines, validate_trace

DEVS = ["LenNoStep", "KeyReuse", "IdStuck", "OverLimit"]


def record_and_validate(c, tier, tag, what):
    wd = vlib.workdir(tag)
    rounds = 12 if tier == "quick" else 150
    res = vh_json_lines(["c12-record", "--seed", vlib.seed(), "--rounds", rounds, "--out", os.path.join(wd, "wire"), "--batch", 4000], timeout=3000)[-1]
    if res["errors"]:
        for e in res["examples"]:
            c.violation("%s: %s" % (what, e), {"error": e})
    c.add("sessions_recorded", res["sessions"])
    c.add("units_recorded", res["units"])
    c.cov["fresh_values_recorded"] = res["fresh_values"]
    ok = 0
    files = [f for f in res["files"] + [res["fresh_file"], res["stamp_file"]] if os.path.getsize(f) > 0]
    c.cov["timestamps_recorded_after_idle"] = res["stamps"]
    for path in files:
        acc, matched, r = validate_trace("TraceWire", "TraceWire.cfg", path, timeout=3000, heap="6g")
        c.tlc_stats(r)
        if acc:
            ok += 1
            c.add("trace_events", matched)
        else:
            c.violation("%s: the units the real encoders put on the wire are not a behaviour of the Wire design (first unmatched event %d: counter, ledger, grammar, limit or freshness rule)" %
                        (what, matched), {"trace": path, "tail": r.out[-1500:]})
    c.add("traces_validated_against_impl", ok)
    # one connection that outlives its 16-bit chunk counter (VMess): counter rule for every unit, wrap to 0 at 65536
    lr = vh_json_lines(["c12-long", "--seed", vlib.seed(), "--out", os.path.join(wd, "long"), "--chunks", 66000], timeout=3000)[-1]
    for e in lr["errors"]:
        c.violation("%s, long session: %s" % (what, e), {"error": e})
    for path in lr["files"]:
        acc, matched, r = validate_trace("TraceWire", "TraceWireLong.cfg", path, timeout=3000, heap="6g")
        c.tlc_stats(r)
        if acc:
            c.add("traces_validated_against_impl", 1)
            c.add("trace_events", matched)
        else:
            c.violation("%s: long VMess session: unit %d is not a behaviour of the Wire design (counter does not step by one / wrap at 65536)" % (what, matched), {"trace": path, "tail": r.out[-1500:]})
    c.add("long_session_units", lr["units"])
    rows = open(files[0]).read().splitlines()
    c.sample({"trace_head": [json.loads(x) for x in rows[:6]]})
    return files


async def _wire_sessions(conf, seed, napps, nsend):
    """Real client and server with a passing UDP middlebox that records every datagram of the link: several client sessions
    (one per local application socket), each with several datagrams and replies."""
    import asyncio
    from checks import c02
    from lib import e2e
    dep = e2e.Deployment(conf, "c12wire")
    mbox = None
    seen = {0: [], 1: []}
    try:
        mbox = e2e.Middlebox(dep.server_port, udp=True)
        dep.link_port = mbox.port

        def hook(ln, d, data):
            seen[d].append(bytes(data))
            return [data]
        mbox.hook = hook
        await dep.start()
        s = c02.Scenario(dep, conf, seed, {0: dep.client_port})
        for a in range(1, napps + 1):
            s.w.add_app(a, 0)
        s.w.add_target(1, "127.0.0.1")
        s.w.add_target(2, "127.0.0.2")
        for i in range(nsend):
            for a in range(1, napps + 1):
                s.send(a, 1 + (a + i) % 2, 40 + 7 * i + a, rep=1, rsize=50 + 3 * i + a)
            await s.w.drain(0, 2.0)
        await asyncio.sleep(0.2)
        s.w.close()
        return seen
    finally:
        dep.stop()
        if mbox:
            await mbox.close()


def wire_sessions(c, tier):
    """FreshPerSession on the wire, end to end: what identifies (key, nonce) in a Shadowsocks 2022 datagram is visible without
    any key - the first 16 bytes (AES: the encrypted block of session id and packet id; one value = one key and one nonce)
    or the first 24 bytes (XChaCha: the nonce under the pre-shared key).  Over several client sessions served by ONE server
    process those values are pairwise distinct in each direction: TraceWire's Fresh rule."""
    import asyncio
    from lib import e2e
    m = {x.label: x for x in e2e.udp_matrix()}
    labels = ["shadowsocks/2022-blake3-aes-128-gcm/udp", "shadowsocks/2022-blake3-chacha20-poly1305/udp"]
    if tier != "quick":
        labels += ["shadowsocks/2022-blake3-aes-256-gcm/udp", "shadowsocks/2022-blake3-chacha8-poly1305/udp", "shadowsocks/2022-blake3-aes-128-gcm+eih/udp"]
    wd = os.path.join(vlib.WORK, "c12")
    os.makedirs(wd, exist_ok=True)
    total = 0
    for k, lab in enumerate(labels):
        conf = m[lab]
        seen = asyncio.run(_wire_sessions(conf, vlib.seed() * 100 + k, 3 if tier == "quick" else 6, 3 if tier == "quick" else 8))
        n = 16 if "aes" in lab else 24
        ids = {}
        rows = [{"ev": "Session", "proto": "ss-udp:" + lab, "dir": "wire", "fmt": "datagram", "limit": 0}]
        for d, what in ((0, "wire-c2s-key-nonce"), (1, "wire-s2c-key-nonce")):
            if len(seen[d]) < 4:
                raise vlib.ToolError("the middlebox saw only %d datagrams in direction %d on %s" % (len(seen[d]), d, lab))
            for dg in seen[d]:
                rows.append({"ev": "Fresh", "what": what, "id": ids.setdefault((d, dg[:n]), len(ids) + 1)})
        path = os.path.join(wd, "wire_sessions_%d.ndjson" % k)
        with open(path, "w") as fh:
            fh.write("\n".join(json.dumps(r) for r in rows) + "\n")
        acc, matched, r = validate_trace("TraceWire", "TraceWire.cfg", path, timeout=900)
        c.tlc_stats(r)
        total += len(rows) - 1
        if acc:
            c.add("traces_validated_against_impl", 1)
            c.add("trace_events", matched)
        else:
            c.violation("on the wire of %s two different datagrams of one direction start with the same %d bytes (datagram %d of the recording): "
                        "the same key and nonce twice, across the sessions of one server process" % (lab, n, matched), {"trace": path})
    c.cov["wire_datagrams_checked"] = total


def run(tier):
    c = Check("C12", tier, "model_checking")
    c.cov["traces_validated_against_impl"] = 0
    r = tlc("Wire", "Wire.cfg", workers=4, timeout=600)
    c.tlc_stats(r)
    if not r.ok:
        c.violation("model: %s violated in Wire" % (r.violated or r.error), {"tail": r.out[-3000:]})
    seen = {}
    for d, rr in zip(DEVS, tlc_parallel([dict(module="Wire", cfg="Wire_dev_%s.cfg" % d, workers=1, timeout=300, heap="1g") for d in DEVS], 4)):
        seen[d] = rr.violated
        if rr.violated != "NoReuse":
            raise vlib.ToolError("anti-vacuity: deviation %s not detected by the model" % d)
    rr = tlc("Wire", "Wire_dev_StampAtCreate.cfg", workers=1, timeout=300, heap="1g")
    seen["StampAtCreate"] = rr.violated
    if rr.violated != "SentFresh":
        raise vlib.ToolError("anti-vacuity: deviation StampAtCreate not detected by the model")
    c.cov["deviations_detected_by_model"] = seen
    files = record_and_validate(c, tier, "c12", "nonce ledger")
    wire_sessions(c, tier)
    # binding self-test: make one counter repeat -> TLC must reject
    rows = open(files[0]).read().splitlines()
    cand = [i for i, x in enumerate(rows) if '"counted":true' in x.replace(" ", "") and '"nonce":1' in x.replace(" ", "")]
    k = random.Random(vlib.seed()).choice(cand)
    row = json.loads(rows[k]); row["nonce"] = 0; rows[k] = json.dumps(row)
    mpath = files[0].replace(".ndjson", "_mutated.ndjson")
    open(mpath, "w").write("\n".join(rows[:k + 20]) + "\n")
    acc, matched, _ = validate_trace("TraceWire", "TraceWire.cfg", mpath, timeout=900)
    if acc:
        raise vlib.ToolError("binding self-test failed: a repeated counter was accepted")
    c.cov["binding_selftest"] = "counter of event %d set back to 0 -> rejected at event %d" % (k + 1, matched)
    c.assumptions += [
        "nonces are recovered from the wire: the reference opener finds the counter that opens each unit (no hook in the seal path)",
        "unpredictability of the randomness is not observable; distinctness over the recorded sessions is",
        "VMess seals the authenticated length of both directions under the request key and IV (as v2ray does): the ledger keeps the two directions apart, that reuse is the protocol's own",
        "the client's UDP packet id wraps (wrapping_add) only after 2^64 datagrams and the server's association ends at the top (checked_add): neither end is reachable in a run; the server rule is exercised end to end under C02",
    ]
    return c.finish()


def replay(path):
    print(json.dumps(json.load(open(path)), indent=1)[:4000])
    return 0
