"""C12 — no key ever encrypts two messages with the same nonce (DESIGN 5.12, reduced scope: distinctness and counter rules, not unpredictability)."""
import json
import os
import random

from lib import vlib
from lib.vlib import Check, tlc, tlc_parallel, vh_json_lines, validate_trace

DEVS = ["LenNoStep", "KeyReuse", "IdStuck", "OverLimit"]


def record_and_validate(c, tier, tag, what):
    wd = vlib.workdir(tag)
    rounds = 12 if tier == "quick" else 150
    res = vh_json_lines(["c12-record", "--seed", vlib.seed(), "--rounds", rounds, "--out", os.path.join(wd, "wire"), "--batch", 4000], timeout=3000)[-1]
    if res["errors"]:
        for e in res["examples"]:
            c.violation("%s: %s" % (what, e), {"error": e})
    c.add("sessions_recorded", res["sessions"])
    c.add("units_recorded", res["units"])
    c.cov["fresh_values_recorded"] = res["fresh_values"]
    ok = 0
    files = [f for f in res["files"] + [res["fresh_file"], res["stamp_file"]] if os.path.getsize(f) > 0]
    c.cov["timestamps_recorded_after_idle"] = res["stamps"]
    for path in files:
        acc, matched, r = validate_trace("TraceWire", "TraceWire.cfg", path, timeout=3000, heap="6g")
        c.tlc_stats(r)
        if acc:
            ok += 1
            c.add("trace_events", matched)
        else:
            c.violation("%s: the units the real encoders put on the wire are not a behaviour of the Wire design (first unmatched event %d: counter, ledger, grammar, limit or freshness rule)" %
                        (what, matched), {"trace": path, "tail": r.out[-1500:]})
    c.add("traces_validated_against_impl", ok)
    # one connection that outlives its 16-bit chunk counter (VMess): counter rule for every unit, wrap to 0 at 65536
    lr = vh_json_lines(["c12-long", "--seed", vlib.seed(), "--out", os.path.join(wd, "long"), "--chunks", 66000], timeout=3000)[-1]
    for e in lr["errors"]:
        c.violation("%s, long session: %s" % (what, e), {"error": e})
    for path in lr["files"]:
        acc, matched, r = validate_trace("TraceWire", "TraceWireLong.cfg", path, timeout=3000, heap="6g")
        c.tlc_stats(r)
        if acc:
            c.add("traces_validated_against_impl", 1)
            c.add("trace_events", matched)
        else:
            c.violation("%s: long VMess session: unit %d is not a behaviour of the Wire design (counter does not step by one / wrap at 65536)" % (what, matched), {"trace": path, "tail": r.out[-1500:]})
    c.add("long_session_units", lr["units"])
    rows = open(files[0]).read().splitlines()
    c.sample({"trace_head": [json.loads(x) for x in rows[:6]]})
    return files


def run(tier):
    c = Check("C12", tier, "model_checking")
    c.cov["traces_validated_against_impl"] = 0
    r = tlc("Wire", "Wire.cfg", workers=4, timeout=600)
    c.tlc_stats(r)
    if not r.ok:
        c.violation("model: %s violated in Wire" % (r.violated or r.error), {"tail": r.out[-3000:]})
    seen = {}
    for d, rr in zip(DEVS, tlc_parallel([dict(module="Wire", cfg="Wire_dev_%s.cfg" % d, workers=1, timeout=300, heap="1g") for d in DEVS], 4)):
        seen[d] = rr.violated
        if rr.violated != "NoReuse":
            raise vlib.ToolError("anti-vacuity: deviation %s not detected by the model" % d)
    rr = tlc("Wire", "Wire_dev_StampAtCreate.cfg", workers=1, timeout=300, heap="1g")
    seen["StampAtCreate"] = rr.violated
    if rr.violated != "SentFresh":
        raise vlib.ToolError("anti-vacuity: deviation StampAtCreate not detected by the model")
    c.cov["deviations_detected_by_model"] = seen
    files = record_and_validate(c, tier, "c12", "nonce ledger")
    # binding self-test: make one counter repeat -> TLC must reject
    rows = open(files[0]).read().splitlines()
    cand = [i for i, x in enumerate(rows) if '"counted":true' in x.replace(" ", "") and '"nonce":1' in x.replace(" ", "")]
    k = random.Random(vlib.seed()).choice(cand)
    row = json.loads(rows[k]); row["nonce"] = 0; rows[k] = json.dumps(row)
    mpath = files[0].replace(".ndjson", "_mutated.ndjson")
    open(mpath, "w").write("\n".join(rows[:k + 20]) + "\n")
    acc, matched, _ = validate_trace("TraceWire", "TraceWire.cfg", mpath, timeout=900)
    if acc:
        raise vlib.ToolError("binding self-test failed: a repeated counter was accepted")
    c.cov["binding_selftest"] = "counter of event %d set back to 0 -> rejected at event %d" % (k + 1, matched)
    c.assumptions += [
        "nonces are recovered from the wire: the reference opener finds the counter that opens each unit (no hook in the seal path)",
        "unpredictability of the randomness is not observable; distinctness over the recorded sessions is",
        "VMess seals the authenticated length of both directions under the request key and IV (as v2ray does): the ledger keeps the two directions apart, that reuse is the protocol's own",
        "the client's UDP packet id wraps (wrapping_add) only after 2^64 datagrams and the server's association ends at the top (checked_add): neither end is reachable in a run; the server rule is exercised end to end under C02",
    ]
    return c.finish()


def replay(path):
    print(json.dumps(json.load(open(path)), indent=1)[:4000])
    return 0
