"""C08 — one failing or hostile flow never takes the service down for others (DESIGN 5.8).

model:  Service.tla - the four long-lived loops (server accept, server datagram loop + association tasks, client accept,
        client datagram loop + reply tasks) and their reaction to every entry of the fault catalogue; with Dev = {} the
        canaries succeed in every reachable state; each named deviation (the `?` / inline await / break the code used to
        have) must violate CanariesSucceed.  TLC enumerates every fault sequence up to 2 (thorough: 3) per family.
spec -> impl: each exported sequence is injected into real client + server processes (silent peers stay connected,
        descriptor limit lowered for the exhaustion faults), then the service is used again: a fresh TCP flow, a fresh
        datagram exchange, and a datagram exchange on the very session the faults touched.
impl -> spec: the recorded run (Fault / CanaryTcp / CanaryUdp / Alive / Panic) is validated by TLC against TraceService:
        every canary result must equal what Service with Dev = {} allows in that state."""
import asyncio
import copy
import json
import os
import random
import time

from lib import e2e, faults, udprun, vlib
from lib.vlib import Check

FAMILY = {
    "ss": ["shadowsocks/2022-blake3-aes-128-gcm/udp", "shadowsocks/aes-256-gcm/udp", "shadowsocks/2022-blake3-chacha20-poly1305/udp",
           "shadowsocks/2022-blake3-aes-256-gcm+eih/udp"],
    "tls": ["trojan/-/tls", "vmess/aes-128-gcm/wss", "trojan/-/wss", "vmess/chacha20-poly1305/tls"],
    "plain": ["vmess/aes-128-gcm/tcp", "vmess/chacha20-poly1305/ws"],
}


class Service:
    """One running client + server (+ middleboxes for Shadowsocks, so that datagrams can be recorded and replayed)."""

    def __init__(self, conf, fam):
        self.conf, self.fam = conf, fam
        self.dep = self.tmb = self.umb = None

    async def start(self):
        self.dep = e2e.Deployment(self.conf, "c08", server_preexec=faults.limit_nofile, client_preexec=faults.limit_nofile)
        if self.fam == "ss":
            for _ in range(20):
                self.tmb = e2e.Middlebox(self.dep.server_port, udp=False)
                try:
                    self.umb = e2e.Middlebox(self.dep.server_port, udp=True, port=self.tmb.port)
                    break
                except OSError:
                    await self.tmb.close()
                    self.tmb = None
            if self.umb is None:
                raise vlib.ToolError("no port free for both middleboxes")
            self.dep.link_port = self.tmb.port
        await self.dep.start()

    async def stop(self):
        if self.dep:
            self.dep.stop()
        for m in (self.tmb, self.umb):
            if m:
                await m.close()


async def run_script(svc, script, seed, events):
    conf, dep = svc.conf, svc.dep
    log = e2e.Log()
    w = udprun.World({0: dep.client_port}, log, seed)
    w.cap = udprun.capacity(conf)
    ctx = faults.Ctx(dep, conf, w, log, seed, svc.tmb, svc.umb)
    if svc.umb is not None:
        def hook(ln, d, data):
            if d == 0:
                ctx.last_up = (ln, data)
            else:
                ctx.last_down = (ln, data)
            return [data]
        svc.umb.hook = hook
    base_fds = (dep.client.fds(), dep.server.fds())
    events.append({"ev": "Reset", "udploop": svc.fam == "ss", "udp": True})
    events.append({"ev": "Note", "conf": conf.label, "what": json.dumps(script)})
    try:
        w.add_app(1)
        w.add_app(2)
        w.add_target(1, "127.0.0.1")
        # the well-behaved user's session exists before anything goes wrong
        w.send(1, 1, 100, rep=1)
        await w.drain(0, 3.0)
        if svc.umb is not None:
            svc.umb.hook = None if False else hook
        for f in script:
            events.append({"ev": "Fault", "f": f})
            try:
                await faults.INJECT[f](ctx)
            except (OSError, asyncio.TimeoutError) as e:
                events.append({"ev": "Note", "conf": conf.label, "what": "injector %s: %s" % (f, type(e).__name__)})
        ok_t = await faults.canary_tcp(ctx)
        events.append({"ev": "CanaryTcp", "ok": bool(ok_t)})
        ok_s = await faults.canary_udp(ctx, same=True)
        events.append({"ev": "CanaryUdp", "ok": bool(ok_s), "same": True})
        ok_f = await faults.canary_udp(ctx, same=False)
        events.append({"ev": "CanaryUdp", "ok": bool(ok_f), "same": False})
        events.append({"ev": "Alive", "c": dep.client.alive(), "s": dep.server.alive()})
        events.append({"ev": "Panic", "n": len(dep.panics())})
        return ok_t and ok_s and ok_f and dep.client.alive() and dep.server.alive()
    finally:
        if svc.umb is not None:
            svc.umb.hook = None
        await ctx.close()
        w.close()
        # the hostile peers of this sequence are gone now; let both processes drop what they held for them before the
        # next sequence starts (a crowd on top of a crowd would exhaust the descriptors for good - not a per-flow fault)
        # (a local connection that sent half a request line and left is held until the client's 30 s handshake deadline)
        t0 = time.time()
        while time.time() - t0 < 36.0:
            cur = (dep.client.fds(), dep.server.fds())
            if None in cur or None in base_fds or all(cur[i][0] <= base_fds[i][0] + 12 for i in (0, 1)):
                break           # what is left are the bindings / associations of the well-behaved user's own datagrams
            await asyncio.sleep(0.1)


async def drive(c, tier, scripts_by_fam, rnd):
    events = []
    quick = tier == "quick"
    per = 22 if quick else 150
    for fam, labels in FAMILY.items():
        m = {x.label: x for x in e2e.udp_matrix()}
        confs = [m[l] for l in (labels[:2] if quick else labels)]
        scripts = [s for s in scripts_by_fam[fam] if s]
        # every single fault once, then sampled longer sequences
        singles = [s for s in scripts if len(s) == 1]
        longer = [s for s in scripts if len(s) > 1]
        for ci, conf in enumerate(confs):
            sel = (singles if ci == 0 or not quick else rnd.sample(singles, min(6, len(singles)))) + rnd.sample(longer, min(per, len(longer)))
            svc = Service(conf, fam)
            await svc.start()
            try:
                for i, sc in enumerate(sel):
                    healthy = await run_script(svc, sc, vlib.seed() * 1000 + i, events)
                    c.add("fault_sequences_injected", 1)
                    if not healthy:
                        # judged by TLC below; later sequences get a healthy service again
                        await svc.stop()
                        svc = Service(conf, fam)
                        await svc.start()
            finally:
                await svc.stop()
            c.cov.setdefault("configurations", []).append(conf.label)
    return events


def split(events):
    segs, cur = [], []
    for e in events:
        if e["ev"] == "Reset" and cur:
            segs.append(cur)
            cur = []
        cur.append(e)
    if cur:
        segs.append(cur)
    return segs


def judge(c, events):
    wd = os.path.join(vlib.WORK, "c08")
    os.makedirs(wd, exist_ok=True)
    pending = split(events)
    bad = []
    rounds = 0
    while pending and rounds < 20:
        rounds += 1
        flat, index = [], []
        for s in pending:
            index.append((len(flat) + 1, len(flat) + len(s), s))
            flat += s
        path = os.path.join(wd, "svc_r%d.ndjson" % rounds)
        e2e.write_ndjson(path, flat)
        acc, matched, r = vlib.validate_trace("TraceService", "TraceService.cfg", path, timeout=900)
        c.tlc_stats(r)
        if acc:
            c.add("traces_validated_against_impl", len(pending))
            c.add("trace_events", len(flat))
            break
        at = matched + 1
        nxt = []
        for a, b, s in index:
            if b < at:
                c.add("traces_validated_against_impl", 1)
                c.add("trace_events", len(s))
            elif a <= at <= b:
                bad.append((s, s[at - a]))
            else:
                nxt.append(s)
        pending = nxt
    return bad


def model(c, tier):
    out = {}
    t = "q" if tier == "quick" else "t"
    for fam in FAMILY:
        r = vlib.tlc("Service", "Service_%s_%s.cfg" % (fam, t), workers=4, timeout=900)
        c.tlc_stats(r)
        if not r.ok:
            c.violation("model: Service (%s) violates %s" % (fam, r.violated or r.error), {"tail": r.out[-2000:]})
        out[fam] = [x["script"] for x in r.replay]
        if not out[fam]:
            raise vlib.ToolError("no fault sequences exported for " + fam)
    devs = ["BoundedHandshakes", "InlineTls", "ExitOnAcceptErr", "AssocEnds_PropagateSend", "PropagateSendTo", "StuckLocal", "PropagateBind", "ReplyTaskEnds", "AssocEnds", "EncoderPanics"]
    jobs = [dict(module="Service", cfg="Service_dev_%s.cfg" % k, workers=2, timeout=600) for k in devs]
    seen = {}
    for k, r in zip(devs, vlib.tlc_parallel(jobs, parallel=4)):
        seen[k] = r.violated
        if not r.violated:
            raise vlib.ToolError("anti-vacuity: deviation %s not detected by the Service model" % k)
    c.cov["deviations_detected_by_model"] = seen
    return out


def run(tier):
    c = Check("C08", tier, "model_checking")
    c.cov["traces_validated_against_impl"] = 0
    rnd = random.Random(vlib.seed() + 8)
    scripts = model(c, tier)
    c.cov["fault_sequences_in_model"] = {k: len(v) for k, v in scripts.items()}
    events = asyncio.run(drive(c, tier, scripts, rnd))
    for seg, ev in judge(c, events):
        note = next((e for e in seg if e["ev"] == "Note"), {})
        c.violation("after fault sequence %s on %s the service is not what Service.tla allows: %s" % (note.get("what"), note.get("conf"), json.dumps(ev)),
                    {"run": seg})
    fc = {}
    for e in events:
        if e["ev"] == "Fault":
            fc[e["f"]] = fc.get(e["f"], 0) + 1
    c.cov["faults_injected"] = fc
    c.cov["canaries"] = {"tcp": sum(1 for e in events if e["ev"] == "CanaryTcp"), "udp": sum(1 for e in events if e["ev"] == "CanaryUdp")}
    c.sample({"run": split(events)[len(split(events)) // 2]})
    # binding self-test: a failed canary must be rejected
    seg = copy.deepcopy(split(events)[0])
    for e in seg:
        if e["ev"] == "CanaryTcp":
            e["ok"] = False
    p = os.path.join(vlib.WORK, "c08", "selftest.ndjson")
    e2e.write_ndjson(p, seg)
    acc, matched, r = vlib.validate_trace("TraceService", "TraceService.cfg", p)
    if acc:
        raise vlib.ToolError("binding self-test failed: a failed canary was accepted")
    c.cov["binding_selftest"] = "canary result flipped -> rejected at event %d" % (matched + 1)
    c.assumptions += [
        "loopback; hostile peers are scripted sockets of the harness; silent peers stay connected while the canaries run",
        "descriptor exhaustion: both processes run with RLIMIT_NOFILE = %d; a burst of idle connections exceeds it for about 0.6 s and is then closed" % faults.NOFILE,
        "a canary gets two attempts (6 s / 3 s each) before it counts as failed",
        "replayed datagrams are taken from the well-behaved user's own Shadowsocks session by a middlebox on the client-server link",
    ]
    return c.finish()


def replay(path):
    o = json.load(open(path))
    seg = o["replay"].get("run")
    if not seg:
        print(json.dumps(o, indent=1)[:3000])
        return 0
    p = os.path.join(vlib.WORK, "replay_c08.ndjson")
    e2e.write_ndjson(p, seg)
    acc, matched, r = vlib.validate_trace("TraceService", "TraceService.cfg", p)
    print("recorded run: accepted=%s matched=%d of %d" % (acc, matched, len(seg)))
    if not acc:
        print("VIOLATION property=C08 replay=%s" % path)
        return 1
    return 0
