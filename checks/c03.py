"""C03 — wire format interoperates with the published protocol specifications (DESIGN 5.3, reduced scope)."""
import json

from lib import vlib
from lib.vlib import Check, tlc, vh_json_lines
from checks import c12


def run(tier):
    c = Check("C03", tier, "model_checking")
    c.cov["traces_validated_against_impl"] = 0
    r = tlc("MCWireScripts", "MCWireScripts.cfg", workers=4, timeout=900)
    c.tlc_stats(r)
    if not r.ok:
        c.violation("model: %s violated in MCWireScripts" % (r.violated or r.error), {"tail": r.out[-3000:]})
    d = tlc("MCWireScripts", "MCWireScripts_dev_BigChunk.cfg", workers=2, timeout=600)
    if d.violated != "LimitsRespected":
        raise vlib.ToolError("anti-vacuity: deviation BigChunk not detected by the model")
    c.cov["deviations_detected_by_model"] = {"BigChunk": d.violated}
    scen = r.replay
    if not scen:
        raise vlib.ToolError("no scripts")
    c.sample(scen[0]); c.sample(scen[len(scen) // 2]); c.sample(scen[-1])
    reps = 1 if tier == "quick" else 6
    n = 0
    for rep in range(reps):
        rows = vh_json_lines(["c03-replay", "--seed", vlib.seed() + rep], stdin="\n".join(json.dumps(s) for s in scen) + "\n", timeout=3000)
        for o in rows:
            n += 1
            if not o["ok"]:
                sc = o["scenario"]
                c.violation("%s %s, %s encoder, writes %s, mask %s (%s): the two implementations disagree: %s" %
                            (sc["family"], sc["dir"], sc["producer"], sc["sizes"], sc["mask"], o["proto"], "; ".join(o["why"])), o)
    c.add("scripts_replayed", n)
    # impl -> spec: the wire of the real encoders as units (grammar, key class, counters, limits) through TraceWire
    c12.record_and_validate(c, tier, "c03", "wire grammar")
    c.assumptions += [
        "the reference codec (harness/src/refcodec.rs, refvmess.rs) is an independent implementation written offline from SIP004/SIP007, SIP022/SIP023, the VMess AEAD format of v2ray-core and the Trojan protocol; bit-exact KDFs and ciphers are its business, not TLC's",
        "self-consistency only: VMess authenticated-length key/IV in the response direction (request key/IV, believed to match v2ray) and the upper bound of a VMess chunk (16 384)",
        "identity-key chains (two and three iPSKs, SIP023) are generated for the TCP client and judged header by header by the reference; the UDP client with more than one iPSK is not",
    ]
    return c.finish()


def replay(path):
    o = json.load(open(path))
    sc = o["replay"].get("scenario")
    rows = vh_json_lines(["c03-replay"], stdin=json.dumps(sc) + "\n", timeout=600)
    print(json.dumps(rows, indent=1)[:4000])
    if any(not r["ok"] for r in rows):
        print("VIOLATION property=C03 replay=%s" % path)
        return 1
    return 0
