"""C15 — closing or failing one side tears the whole flow down and frees it (DESIGN 5.15).

model:  TcpRelay with the link-failure action LinkCut: PromptAppEnd / PromptTgtEnd / Released / RefusedEnds and
        FaultAppEnd / FaultTgtEnd / FaultReleased as liveness under weak fairness, for tcp, tls and quic links and failing
        dials; deviations JoinBoth, NoSinkClose, IgnoreLinkErr must violate them.
spec -> impl: every ending script TLC exports from RelayScripts (who closes first and how - fin / close / reset -, where in
        the transfer, link cut by reset or by orderly close, target refused / unresolvable) is executed on real client
        and server processes behind a middlebox that can fail the link of one chosen flow.
impl -> spec: batches of concurrent flows ending in random ways at random points of the transfer (with data in flight);
        socket counts of both processes before the batch (Idle) and after it (Settled).
Every recorded flow and the Idle/Settled pair are judged by TLC against TraceRelay: DeliveredFirst (the CompleteUp /
CompleteDown clauses of AppEnd / TgtEnd), PromptEnd (Quiesce), Released (Settled = Idle), NoPanic."""
import asyncio
import copy
import json
import os
import random

from lib import e2e, relayrun, vlib
from lib.vlib import Check

KINDS = e2e.LOCAL_KINDS


def ending_script(rnd, cuts, big):
    """impl -> spec: a transfer that ends in one of the ways C15 lists, at a random point (data may be in flight)."""
    steps = [("up", rnd.choice([1, rnd.randint(1, 3000), rnd.randint(1, 70000)]))]
    for _ in range(rnd.randint(0, 3)):
        r = rnd.random()
        if r < 0.7:
            steps.append((rnd.choice(["up", "down"]), rnd.choice([1, rnd.randint(1, 3000), rnd.randint(1, 70000), rnd.randint(*big)])))
        elif r < 0.85:
            steps.append(("sync",))
        else:
            steps.append(("pause", rnd.choice([0.0, 0.02, 0.1])))
    if rnd.random() < 0.5:
        steps.append(("sync",))
    else:
        steps.append((rnd.choice(["up", "down"]), rnd.randint(*big)))      # in flight when the end comes
    how = lambda: rnd.choice(["fin", "close", "close", "rst"])  # noqa: E731
    ends = ["app", "tgt", "both", "tgt", "app"] + (["cut", "cut"] if cuts else [])
    e = rnd.choice(ends)
    if e == "app":
        steps += [("app_close", how()), ("wait_end", "tgt")]
    elif e == "tgt":
        steps += [("tgt_close", how()), ("wait_end", "app")]
    elif e == "both":
        a, b = ("app_close", how()), ("tgt_close", how())
        steps += [a, b] if rnd.random() < 0.5 else [b, a]
        steps += [("wait_end", "tgt"), ("wait_end", "app")]
    else:
        steps += [("cut", rnd.choice(cuts)), ("wait_end", "app"), ("wait_end", "tgt")]
    return steps


def has_end(sc):
    return any(st["op"] in ("app_close", "tgt_close", "cut") for st in sc) or sc[0].get("reach") != "ok"


async def drive(c, tier, scripts, rnd):
    batches = []
    quick = tier == "quick"
    n_conf = 8 if quick else 30
    per_conf = 14 if quick else 40
    n_rand = 24 if quick else 64
    confs = relayrun.pick_confs(rnd, n_conf)
    c.cov["configurations"] = [x.label for x in confs]
    ending = [s for s in scripts if has_end(s)]
    c.cov["ending_scripts_in_model"] = len(ending)
    dark_done = 0
    for ci, conf in enumerate(confs):
        quic = conf.transport == "quic"
        # a dark QUIC link is noticed by the idle timeout (30 s): thorough tier only, a few flows
        use_mbox = (not quic) or (not quick and dark_done < 2)
        big = (100000, 300000) if quick else (100000, 1500000)
        dep = mbox = None
        try:
            dep = e2e.Deployment(conf, "c15")
            if use_mbox:
                mbox = e2e.Middlebox(dep.server_port, udp=quic)
                dep.link_port = mbox.port
            await dep.start()
            cuts = [] if mbox is None else (["dark"] if quic else ["rst", "fin"])
            end_cap = 55.0 if (quic and mbox) else 6.0    # dark QUIC link: idle timeout (30 s) after the last keep-alive (every 10 s)
            sel = [s for s in rnd.sample(ending, min(per_conf * 3, len(ending)))
                   if mbox is not None or not any(st["op"] == "cut" for st in s)][:per_conf if not (quic and mbox) else 6]
            spec = []
            for i, sc in enumerate(sel):
                if quic:
                    sc = [dict(st, how="dark") if st["op"] == "cut" else st for st in sc]
                steps, reach = relayrun.concretise(sc, conf, rnd, big=big)
                spec.append((steps, reach, KINDS[(i + ci) % 3], rnd.choice([1 << 16, 1 << 16, 4096, 1500])))
            ev = await relayrun.run_batch(dep, spec, vlib.seed() * 1000 + ci, mbox=mbox, end_cap=end_cap, settle_cap=12.0 if not quic else 60.0)
            batches.append(ev)
            c.add("replayed_scripts", len(spec))
            c.add("link_cuts", sum(1 for e in ev if e["ev"] == "Fault"))
            if quic and mbox:
                dark_done += 1
            # impl -> spec: a batch of concurrent flows ending in random ways
            n = n_rand if not (quic and mbox) else 6
            spec = []
            for i in range(n):
                reach = "ok" if rnd.random() < 0.85 else rnd.choice(["refused", "unresolvable"])
                st = ending_script(rnd, cuts, big) if reach == "ok" else [("up", rnd.randint(1, 5000)), ("wait_end", "app")]
                spec.append((st, reach, KINDS[i % 3], rnd.choice([1 << 16, 1 << 14, 1000])))
            ev = await relayrun.run_batch(dep, spec, vlib.seed() * 1000 + 500 + ci, fid0=1000, mbox=mbox, end_cap=end_cap,
                                          settle_cap=12.0 if not quic else 60.0)
            batches.append(ev)
            c.add("random_ending_flows", n)
            c.add("link_cuts", sum(1 for e in ev if e["ev"] == "Fault"))
            # Released without the survivor's help: one side closes for good, the other keeps its connection open and silent
            n = 6 if quick else 16
            spec = [(relayrun.hold_script(rnd, big), "ok", KINDS[(i + ci) % 3], 1 << 16) for i in range(n)]
            ev = await relayrun.run_batch(dep, spec, vlib.seed() * 1000 + 700 + ci, fid0=2000, mbox=mbox, end_cap=end_cap,
                                          settle_cap=12.0 if not quic else 60.0)
            batches.append(ev)
            c.add("held_flows", n)
            # the end comes while the closing side's data is still backed up behind a slow reader
            if not quick or ci < 4:
                spec = [(relayrun.pressure_script(rnd), "ok", KINDS[(i + ci) % 3], 1 << 16) for i in range(2 if quick else 4)]
                spec += [(relayrun.slow_drain_script(rnd, d), "ok", KINDS[(i + ci) % 3], 1 << 16) for i, d in enumerate(["up", "down"])]
                if mbox is not None and not quic:
                    spec += [(relayrun.slow_link_script(rnd, d), "ok", KINDS[(i + ci) % 3], 1 << 16) for i, d in enumerate(["down", "up"])]
                ev = await relayrun.run_batch(dep, spec, vlib.seed() * 1000 + 800 + ci, fid0=3000, mbox=mbox, end_cap=max(end_cap, 25.0),
                                              settle_cap=12.0 if not quic else 60.0)
                batches.append(ev)
                c.add("pressure_flows", len(spec))
        finally:
            if dep:
                dep.stop()
            if mbox:
                await mbox.close()
    return batches


def model(c, tier):
    ideal = ["tcp", "refused", "cut_tcp"]
    if tier == "thorough":
        ideal += ["tls", "quic", "cut_tls", "cut_quic"]
    jobs = [dict(module="MCTcpRelay", cfg="MCTcpRelay_%s.cfg" % k, workers=4, timeout=3000, heap="6g") for k in ideal]
    res = vlib.tlc_parallel(jobs, parallel=3)
    for k, r in zip(ideal, res):
        c.tlc_stats(r)
        if not r.ok:
            c.violation("model: TcpRelay (%s) violates %s" % (k, r.violated or r.error), {"cfg": k, "tail": r.out[-3000:]})
    names = ["JoinBoth", "NoSinkClose", "IgnoreLinkErr", "DropOnFirstClose", "ServerForwardsErr"]
    jobs = [dict(module="MCTcpRelay", cfg="MCTcpRelay_dev_%s.cfg" % k, workers=2, timeout=900) for k in names]
    res = vlib.tlc_parallel(jobs, parallel=4)
    seen = {}
    for k, r in zip(names, res):
        seen[k] = r.violated
        if not r.violated:
            raise vlib.ToolError("anti-vacuity: deviation %s not detected by the TcpRelay model" % k)
    c.cov["deviations_detected_by_model"] = seen


def sink_contract(c, tier):
    """SinkClose: TLC enumerates every schedule of sends, close polls and peer reads over a bounded transport (the design's
    wb / Flush / SrcEof in isolation); each is replayed on the real WebSocketFramed sink in-process and the recorded
    observations are validated against TraceSinkClose (CloseReadyMeansWritten)."""
    r = vlib.tlc("SinkClose", "SinkClose.cfg", workers=2, timeout=600)
    c.tlc_stats(r)
    if not r.ok:
        c.violation("model: SinkClose violates %s" % (r.violated or r.error), {"tail": r.out[-2000:]})
    d = vlib.tlc("SinkClose", "SinkClose_dev_CloseSkipsFlush.cfg", workers=1, timeout=300)
    if d.violated != "CloseReadyMeansWritten":
        raise vlib.ToolError("anti-vacuity: deviation CloseSkipsFlush not detected by the SinkClose model")
    scen = r.replay
    if not scen:
        raise vlib.ToolError("no sink schedules exported")
    wd = os.path.join(vlib.WORK, "c15")
    os.makedirs(wd, exist_ok=True)
    path = os.path.join(wd, "sink.ndjson")
    res = vlib.vh_json_lines(["c15-sink", "--out", path], stdin="\n".join(json.dumps(x) for x in scen) + "\n", timeout=900)[-1]
    c.cov["sink_schedules_in_model"] = len(scen)
    c.cov["sink_runs_replayed"] = res["runs"]
    c.cov["sink_close_polls"] = {"ready": res["close_ready"], "pending": res["close_pending"]}
    if res["close_pending"] == 0 or res["close_ready"] == 0:
        raise vlib.ToolError("sink replay never saw both a pending and a completed close: back-pressure not reached")
    acc, matched, tr = vlib.validate_trace("TraceSinkClose", "TraceSinkClose.cfg", path, timeout=900)
    c.tlc_stats(tr)
    if acc:
        c.add("traces_validated_against_impl", res["runs"])
        c.add("trace_events", matched)
    else:
        rows = open(path).read().splitlines()
        lo = max(i for i in range(matched + 1) if json.loads(rows[i])["ev"] == "Reset")
        seg = [json.loads(x) for x in rows[lo:matched + 1]]
        c.violation("sink contract: poll_close of the real WebSocketFramed reported Ready while what it had accepted (or its Close frame) was "
                    "not in the transport: %s" % json.dumps(seg[-1]), {"sink_run": seg})
    # binding self-test: a Final that misses bytes must be rejected
    rows = [json.loads(x) for x in open(path).read().splitlines()]
    k = next(i for i, e in enumerate(rows) if e["ev"] == "Final" and e["n"] > 0)
    lo = max(i for i in range(k + 1) if rows[i]["ev"] == "Reset")
    seg = copy.deepcopy(rows[lo:k + 1])
    seg[-1]["n"] -= 1
    mp = os.path.join(wd, "sink_mutated.ndjson")
    e2e.write_ndjson(mp, seg)
    acc2, _, _ = vlib.validate_trace("TraceSinkClose", "TraceSinkClose.cfg", mp)
    if acc2:
        raise vlib.ToolError("binding self-test failed: a Final one byte short was accepted")
    c.cov["sink_binding_selftest"] = "Final one byte short -> rejected"


def run(tier):
    c = Check("C15", tier, "model_checking")
    c.cov["traces_validated_against_impl"] = 0
    rnd = random.Random(vlib.seed() + 15)
    model(c, tier)
    sink_contract(c, tier)
    r = vlib.tlc("RelayScripts", "RelayScripts_c15%s.cfg" % ("q" if tier == "quick" else "t"), workers=4, timeout=1800)
    c.tlc_stats(r)
    if not r.ok:
        c.violation("model: RelayScripts: %s" % (r.violated or r.error), {"tail": r.out[-2000:]})
    scripts = [x["script"] for x in r.replay]
    if not scripts:
        raise vlib.ToolError("no scripts exported")
    c.cov["scripts_in_model"] = len(scripts)
    batches = asyncio.run(drive(c, tier, scripts, rnd))
    for desc, seg, ev in relayrun.judge(c, "c15", batches, "teardown"):
        c.violation(desc, {"flow": seg})
    ends = {}
    for b in batches:
        for e in b:
            if e["ev"] in ("AppEnd", "TgtEnd", "AppClose", "TgtClose", "Fault"):
                k = e["ev"] + ":" + e.get("how", "")
                ends[k] = ends.get(k, 0) + 1
    c.cov["end_events_observed"] = ends
    c.cov["batches_settled_at_idle_baseline"] = sum(1 for b in batches if any(e["ev"] == "Settled" for e in b))
    c.cov["batches_held_at_idle_baseline"] = sum(1 for b in batches if any(e["ev"] == "Held" for e in b))
    cutseg = [s for b in batches for s in relayrun.split_flows(b) if any(e["ev"] == "Fault" for e in s)]
    c.sample({"flow_trace_with_link_cut": cutseg[0][:16]} if cutseg else {"flow_trace": relayrun.split_flows(batches[0])[0][:14]})
    c.cov["max_seconds_to_idle_baseline"] = max(relayrun.SETTLE_TIMES or [0])
    self_test(c, batches)
    c.assumptions += [
        "loopback only; link failures are produced by a middlebox between client and server: reset of both link connections, orderly "
        "close of both, and (QUIC, thorough tier) silence until the 30 s idle timeout",
        "TcpRelay's timing assumption (maximal progress): the 2 s grace timer fires only when kernels and tasks have nothing left to do",
        "bounded waits in the observer: 6 s for an end to be passed on (55 s behind a dark QUIC link: 30 s idle timeout counted from the last of the keep-alive packets sent every 10 s), 12 s (60 s) for the socket counts "
        "of both processes to return to the idle baseline; poll-until-stable",
        "tasks are observed through the sockets they hold (/proc/<pid>/fd); a task that holds no descriptor is not visible",
    ]
    return c.finish()


def self_test(c, batches):
    """binding self-test: (a) a Settled count that differs from Idle is rejected, (b) a waited-for end that is missing is rejected"""
    wd = os.path.join(vlib.WORK, "c15")
    b = copy.deepcopy(batches[0])
    for e in b:
        if e["ev"] == "Settled":
            e["c"] += 1
    p = os.path.join(wd, "selftest_a.ndjson")
    e2e.write_ndjson(p, b)
    acc, matched, r = vlib.validate_trace("TraceRelay", "TraceRelay.cfg", p)
    if acc:
        raise vlib.ToolError("binding self-test failed: leaked descriptor accepted")
    done = "Settled != Idle rejected"
    for bb in batches:
        for s in relayrun.split_flows(bb):
            q = [e for e in s if e["ev"] == "Quiesce"]
            if q and q[0]["wa"] and any(e["ev"] == "AppEnd" for e in s) and any(e["ev"] == "TgtClose" for e in s):
                s2 = [e for e in copy.deepcopy(s) if e["ev"] != "AppEnd"]
                p = os.path.join(wd, "selftest_b.ndjson")
                e2e.write_ndjson(p, s2)
                acc, matched, r = vlib.validate_trace("TraceRelay", "TraceRelay.cfg", p)
                if acc:
                    raise vlib.ToolError("binding self-test failed: missing end accepted")
                c.cov["binding_selftest"] = done + "; flow without the application's end rejected at event %d" % (matched + 1)
                return
    c.cov["binding_selftest"] = done


def replay(path):
    o = json.load(open(path))
    if o["replay"].get("sink_run"):
        p = os.path.join(vlib.WORK, "replay_c15_sink.ndjson")
        e2e.write_ndjson(p, o["replay"]["sink_run"])
        acc, matched, r = vlib.validate_trace("TraceSinkClose", "TraceSinkClose.cfg", p)
        print("recorded sink run: accepted=%s matched=%d of %d" % (acc, matched, len(o["replay"]["sink_run"])))
        if not acc:
            print("VIOLATION property=C15 replay=%s" % path)
            return 1
        return 0
    seg = o["replay"].get("flow")
    if not seg:
        print(json.dumps(o, indent=1)[:3000])
        return 0
    p = os.path.join(vlib.WORK, "replay_c15.ndjson")
    e2e.write_ndjson(p, seg)
    acc, matched, r = vlib.validate_trace("TraceRelay", "TraceRelay.cfg", p)
    print("recorded flow: accepted=%s matched=%d of %d" % (acc, matched, len(seg)))
    if not acc:
        print("VIOLATION property=C15 replay=%s" % path)
        return 1
    return 0
