"""C05 — tampered or reflected ciphertext is never delivered as plaintext (DESIGN 5.5)."""
import json
import os
import random

from lib import vlib
from lib.vlib import Check, tlc, tlc_parallel, vh_json_lines, validate_trace

ENC = ["ss-legacy-req", "ss-legacy-resp", "ss2022-req", "ss2022-req-eih", "ss2022-resp", "vmess-req", "vmess-resp", "vmess-udp-req", "vmess-udp-resp"]


def model(c, tier):
    jobs = [dict(module="MCStreamCodec", cfg="MCStreamCodec_%s_%s_tamper.cfg" % (l, a), workers=2, timeout=1200, heap="3g")
            for l in ENC for a in ("framed", "ws")]
    for j, r in zip(jobs, tlc_parallel(jobs, 6)):
        c.tlc_stats(r)
        if not r.ok:
            c.violation("model: %s violated in %s" % (r.violated or r.error, j["cfg"]), {"cfg": j["cfg"], "tail": r.out[-3000:]})
    r = tlc("MCDatagramTamper", "MCDatagramTamper.cfg", workers=2, timeout=300)
    c.tlc_stats(r)
    if not r.ok:
        c.violation("model: %s violated in MCDatagramTamper" % (r.violated or r.error), {"tail": r.out[-2000:]})
    dgram = r.replay
    seen = {}
    for d, (mod, cfg) in {"GoOnAfterErr": ("MCStreamCodec", "MCStreamCodec_dev_GoOnAfterErr.cfg"),
                          "ReleaseFirst": ("MCStreamCodec", "MCStreamCodec_dev_ReleaseFirst.cfg"),
                          "NoTag": ("MCDatagramTamper", "MCDatagramTamper_dev_NoTag.cfg")}.items():
        rr = tlc(mod, cfg, workers=2, timeout=600)
        seen[d] = rr.violated
        if not rr.violated:
            raise vlib.ToolError("anti-vacuity: deviation %s not detected by the model" % d)
    c.cov["deviations_detected_by_model"] = seen
    return dgram


def spec_to_impl(c, tier, dgram):
    num = 25 if tier == "quick" else 300
    jobs = [dict(module="MCStreamCodec", cfg="MCStreamCodec_%s_%s_tamper_sim.cfg" % (l, a), workers=1, simulate=num, depth=80, timeout=900,
                 heap="2g", seed_=vlib.seed() * 1000 + i)
            for i, (l, a) in enumerate((l, a) for l in ENC for a in ("framed", "ws"))]
    scen = []
    for j, r in zip(jobs, tlc_parallel(jobs, 6)):
        if not r.ok:
            c.violation("model (simulation): %s violated in %s" % (r.violated or r.error, j["cfg"]), {"cfg": j["cfg"], "tail": r.out[-3000:]})
        if not r.replay:
            raise vlib.ToolError("no scenarios from " + j["cfg"])
        c.add("transitions", r.generated)
        scen += r.replay
    c.sample(scen[1]); c.sample(scen[len(scen) // 2])
    rows = vh_json_lines(["c05-replay", "--seed", vlib.seed()], stdin="\n".join(json.dumps(s) for s in scen) + "\n", timeout=3000)
    n = 0
    ops = {}
    for o in rows:
        if o.get("summary"):
            continue
        n += 1
        ops[o.get("op")] = ops.get(o.get("op"), 0) + 1
        if not o["ok"]:
            c.violation("spec->impl %s/%s op=%s at field %s: %s" % (o["proto"], o["scenario"]["adapter"], o.get("op"), o["scenario"]["badFrom"],
                                                                    "; ".join(o["why"])), o)
    c.add("replayed_stream_attacks", n)
    c.cov["attack_ops_replayed"] = ops
    # datagrams
    c.sample(dgram[0])
    rows = vh_json_lines(["c05-udp", "--seed", vlib.seed(), "--reps", 2 if tier == "quick" else 12],
                         stdin="\n".join(json.dumps(s) for s in dgram) + "\n", timeout=3000)
    for o in rows:
        if not o["ok"]:
            sc = o["scenario"]
            c.violation("datagram %s %s unit %s (%s) %s %s: model says %s, real codec: %s (%s)" %
                        (sc["kind"], sc["op"], sc["unit"], sc["uname"], o["cipher"], o["dir"], sc["expect"], o["got"], o["detail"]), o)
    c.add("replayed_datagram_attacks", len(rows))


def impl_to_spec(c, tier):
    wd = vlib.workdir("c05")
    plan = [600] if tier == "quick" else [3000, 3000, 3000]
    ok = 0
    first = None
    for i, runs in enumerate(plan):
        path = os.path.join(wd, "runs_%d.ndjson" % i)
        res = vh_json_lines(["c05-record", "--seed", vlib.seed() * 100 + i, "--runs", runs, "--out", path], timeout=3000)[-1]
        c.add("recorded_runs", res["runs"])
        c.cov.setdefault("attack_ops_recorded", {})
        for k, v in res["ops"].items():
            c.cov["attack_ops_recorded"][k] = c.cov["attack_ops_recorded"].get(k, 0) + v
        acc, matched, r = validate_trace("TraceStreamCodec", "TraceStreamCodec.cfg", path, timeout=3000, heap="6g")
        c.tlc_stats(r)
        if acc:
            ok += 1
            c.add("trace_events", matched)
            first = first or path
        else:
            ex = res.get("examples") or []
            c.violation("a recorded tampered/truncated run is not a behaviour of the StreamCodec design (%s; first unmatched line %d): %s" %
                        (r.violated or "released data differs", matched, json.dumps(ex[:1])[:600]), {"trace": path, "harness_view": ex[:5], "tail": r.out[-1500:]})
        for e in res.get("examples") or []:
            c.violation("tampered run %s/%s op=%s at field %s: %s" % (e.get("proto"), e.get("adapter"), e.get("op"), e.get("bad_from"), "; ".join(e["why"])), e)
    c.add("traces_validated_against_impl", ok)
    if first:
        rows = open(first).read().splitlines()
        cand = [i for i, x in enumerate(rows) if '"Quiet"' in x and '"failed":true' in x.replace(" ", "")]
        k = random.Random(vlib.seed()).choice(cand)
        row = json.loads(rows[k]); row["plain"] += 5; rows[k] = json.dumps(row)
        mpath = os.path.join(wd, "mutated.ndjson")
        open(mpath, "w").write("\n".join(rows[:k + 30]) + "\n")
        acc, matched, _ = validate_trace("TraceStreamCodec", "TraceStreamCodec.cfg", mpath, timeout=900)
        if acc:
            raise vlib.ToolError("binding self-test failed: corrupted trace accepted")
        c.cov["binding_selftest"] = "5 extra released bytes claimed at the failing step (line %d) -> rejected at line %d" % (k + 1, matched)


def long_stream(c):
    """A VMess stream longer than its 16-bit chunk counter: chunk-level edits near the end must still be refused (the
    model's nothing-past-the-prefix rule holds at every position; position classes below the wrap are covered above)."""
    rows = vh_json_lines(["c05-long"], timeout=900)
    for o in rows:
        if not o["ok"]:
            c.violation("long stream %s: %s at chunk %d of %d: %s" % (o["proto"], o["op"], o["chunk"], o["of"], "; ".join(o["why"])), o)
    c.add("long_stream_edits", len(rows))
    if not rows:
        raise vlib.ToolError("c05-long produced nothing")


def run(tier):
    c = Check("C05", tier, "model_checking")
    c.cov["traces_validated_against_impl"] = 0
    dgram = model(c, tier)
    spec_to_impl(c, tier, dgram)
    impl_to_spec(c, tier)
    long_stream(c)
    c.assumptions += [
        "ideal AEAD: any edit of a sealed unit, or any shift of the unit sequence, makes every later unit fail to open (the harness applies concrete edits: bit flips, drop, duplicate, swap, insert, splice from another session, reflection, truncation)",
        "Trojan carries no integrity of its own (TLS is expected underneath) and legacy Shadowsocks has no direction binding: both are outside the statement",
        "VMess streams are made with the option mask the real client uses (authenticated length); edits are placed in sealed bytes, not in the unauthenticated random padding",
    ]
    return c.finish()


def replay(path):
    o = json.load(open(path))
    print(json.dumps(o, indent=1)[:4000])
    if "chunk" in o.get("replay", {}):
        rows = vh_json_lines(["c05-long"], timeout=900)
        if any(not r["ok"] for r in rows):
            print("VIOLATION property=C05 replay=%s" % path)
            return 1
    return 0
