"""C16 — configuration names select exactly the documented behaviour (DESIGN 5.16).

model:  Config.tla - the README as a function Documented(cfg) over tuples of NAMES (side, protocol, cipher, mode, credential
        form, link sections), and the start-up code as a decision function Impl(cfg) shaped like the code (serde names, the
        shared Mode enum, enable_tcp/enable_udp/enable_quic, key parsing into an N-byte buffer).  TLC checks
        Conforms(cfg, Impl(cfg)) for every tuple, that the table is sane, and that each named deviation (what the code used
        to do) breaks it; it exports every tuple with its promise.
spec -> impl: the REAL binary is started on every exported tuple (thorough: also on every key length 0..2N+1, on random
        undocumented names and on several password lengths, each mapped to its tuple class); bound sockets are read from
        /proc/net, then the promised exchanges are run: an independent reference client that knows only the cipher NAME and
        the PASSWORD STRING (vh c16-probe) over TCP and over UDP, and real peers configured with the documented name.
impl -> spec: every observation record is validated by TLC against TraceConfig (Conforms evaluated per record)."""
import asyncio
import base64
import copy
import hashlib
import json
import os
import random
import socket
import time

from lib import e2e, vlib
from lib.vlib import Check

CANON = {"chacha20-ietf-poly1305": "chacha20-poly1305"}
PARALLEL = 8


# ---------------------------------------------------------------------------------------------------------------
# echo targets (one pair for the whole run)

class Echo:
    def __init__(self):
        self.tcp = self.udp = None
        self.tcp_port = self.udp_port = 0

    async def start(self):
        self.tcp = await asyncio.start_server(self._serve, "127.0.0.1", 0)
        self.tcp_port = self.tcp.sockets[0].getsockname()[1]
        loop = asyncio.get_running_loop()
        outer = self

        class P(asyncio.DatagramProtocol):
            def connection_made(self, tr):
                outer.udp = tr

            def datagram_received(self, data, addr):
                outer.udp.sendto(b"R:" + data, addr)
        await loop.create_datagram_endpoint(P, local_addr=("127.0.0.1", 0))
        self.udp_port = self.udp.get_extra_info("sockname")[1]

    async def _serve(self, r, w):
        try:
            while True:
                d = await r.read(65536)
                if not d:
                    break
                w.write(b"R:" + d)
                await w.drain()
        except (OSError, asyncio.IncompleteReadError):
            pass
        finally:
            try:
                w.close()
            except OSError:
                pass

    def close(self):
        if self.tcp:
            self.tcp.close()
        if self.udp:
            self.udp.close()


class RefClient:
    """The reference client process (vh c16-probe): one request line in, one answer line out."""

    def __init__(self):
        self.p = None
        self.lock = asyncio.Lock()
        self.n = 0

    async def start(self):
        self.p = await asyncio.create_subprocess_exec(vlib.VH, "c16-probe", "--seed", str(vlib.seed()), stdin=asyncio.subprocess.PIPE,
                                                       stdout=asyncio.subprocess.PIPE, stderr=asyncio.subprocess.DEVNULL)

    async def probe(self, **kw):
        async with self.lock:
            self.n += 1
            kw["id"] = self.n
            self.p.stdin.write((json.dumps(kw) + "\n").encode())
            await self.p.stdin.drain()
            try:
                line = await asyncio.wait_for(self.p.stdout.readline(), 15.0)
            except asyncio.TimeoutError:
                raise vlib.ToolError("reference client does not answer")
            if not line:
                raise vlib.ToolError("reference client exited")
            return json.loads(line)

    async def stop(self):
        if self.p:
            self.p.stdin.close()
            try:
                await asyncio.wait_for(self.p.wait(), 5.0)
            except asyncio.TimeoutError:
                self.p.kill()


# ---------------------------------------------------------------------------------------------------------------
# configuration files from a tuple

def keylen(cipher):
    return 16 if cipher in ("aes-128-gcm", "2022-blake3-aes-128-gcm") else 32


def raw_key(n, tag):
    out = b""
    i = 0
    while len(out) < n:
        out += hashlib.sha256(("octo-verif-c16-%s-%d" % (tag, i)).encode()).digest()
        i += 1
    return base64.b64encode(out[:n]).decode()


def concrete_len(form, n, pick=None):
    """Byte length of the key for a credential form (pick overrides with a specific length of the same class)."""
    if pick is not None:
        return pick
    return {"exact": n, "short1": n - 1, "half": n // 2, "long1": n + 1, "double": 2 * n, "userShort": n - 1, "userLong": n + 1}.get(form, n)


def credentials(t, pick=None, legacy_pw=None):
    """(password of the side under test, user list of a server under test or None)"""
    proto, cipher, form, side = t["proto"], t["cipher"], t["key"], t["side"]
    if proto == "shadowsocks" and cipher.startswith("2022-"):
        n = keylen(cipher)
        good = raw_key(n, "srv-" + CANON.get(cipher, cipher))
        if form == "notbase64":
            return "not*base64!key", None
        if form == "empty":
            return "", None
        if form in ("userShort", "userLong"):
            bad = raw_key(concrete_len(form, n, pick), "user")
            if side == "server":
                return good, [{"name": "u0", "password": bad}]
            return bad + ":" + good, None
        return raw_key(concrete_len(form, n, pick), "srv-" + CANON.get(cipher, cipher)), None
    if proto == "vmess":
        if form == "notuuid":
            return "not-a-uuid-at-all", ([{"name": "u0", "password": "not-a-uuid-at-all"}] if side == "server" else None)
        return e2e.UUIDS[0], None
    if proto == "shadowsocks" or proto not in ("trojan",):
        return legacy_pw or "correct horse battery", None
    return "trojan-pass-1", None


def base_conf(t):
    """A documented configuration as close to the tuple as possible (the peer uses it unchanged)."""
    proto = t["proto"] if t["proto"] in ("shadowsocks", "vmess", "trojan") else "trojan"
    cipher = CANON.get(t["cipher"], t["cipher"])
    if proto == "shadowsocks" and cipher not in e2e.SS_CIPHERS:
        cipher = "aes-128-gcm"
    if proto == "vmess" and cipher not in e2e.VMESS_CIPHERS:
        cipher = "aes-128-gcm"
    if proto == "trojan":
        cipher = None
    return e2e.Conf(proto, cipher, t["link"], client_mode="tcp_and_udp")


def sections(obj, link, server):
    for k in ("ssl", "ws", "quic"):
        obj.pop(k, None)
    ssl = {"certificateFile": e2e.CERT, "serverName": "localhost"}
    if server:
        ssl["keyFile"] = e2e.KEY
    if link in ("tls", "wss"):
        obj["ssl"] = ssl
    if link in ("ws", "wss"):
        obj["ws"] = {"path": "/ws"} if server else {"path": "/ws", "header": {"Host": "localhost"}}
    if link == "quic":
        obj["quic"] = ssl


def server_json(t, port, pick=None, legacy_pw=None, names=None):
    names = names or {}
    pw, users = credentials(t, pick, legacy_pw)
    c = {"host": "127.0.0.1", "port": port, "password": pw, "protocol": names.get("proto", t["proto"]), "cipher": names.get("cipher", t["cipher"])}
    if t["mode"] != "absent":
        c["mode"] = names.get("mode", t["mode"])
    if t["proto"] == "vmess":
        c["user"] = [{"name": "u0", "password": e2e.UUIDS[0]}]
    if users:
        c["user"] = users
    sections(c, t["link"], True)
    return [c]


def client_json(t, port, server_port, pick=None, legacy_pw=None, names=None):
    names = names or {}
    pw, _ = credentials(t, pick, legacy_pw)
    s = {"host": "127.0.0.1", "port": server_port, "password": pw, "protocol": names.get("proto", t["proto"]), "cipher": names.get("cipher", t["cipher"])}
    sections(s, t["link"], False)
    c = {"port": port, "index": 0, "logger": {"level": "debug"}, "servers": [s]}
    if t["mode"] != "absent":
        c["mode"] = names.get("mode", t["mode"])
    return c


def peer_cipher(t):
    """The documented cipher name a real peer of `t` is configured with."""
    c = CANON.get(t["cipher"], t["cipher"])
    if t["proto"] in ("vmess", "trojan") and c not in e2e.VMESS_CIPHERS:
        c = "aes-128-gcm"       # the cipher field selects nothing on a VMess server / a Trojan peer; the peer uses a documented name
    return c


def peer_server_json(t, port, legacy_pw=None):
    """A real, documented server for a client under test (same credentials, every listener the client may need)."""
    tt = dict(t, side="server", key="exact" if t["cipher"].startswith("2022-") and t["proto"] == "shadowsocks" else "password",
              cipher=peer_cipher(t))
    tt["mode"] = "tcp_and_udp" if (t["proto"] == "shadowsocks" and t["link"] == "tcp") else ("quic" if t["proto"] == "shadowsocks" and t["link"] == "quic" else "absent")
    return server_json(tt, port, legacy_pw=legacy_pw)


def peer_client_json(t, port, server_port, legacy_pw=None):
    tt = dict(t, side="client", mode="tcp", key="exact" if t["cipher"].startswith("2022-") and t["proto"] == "shadowsocks" else "password",
              cipher=peer_cipher(t))
    return client_json(tt, port, server_port, legacy_pw=legacy_pw)


# ---------------------------------------------------------------------------------------------------------------
# observing one configuration

async def settle(proc, port, want_tcp, want_udp, cap=6.0, quiet=0.45):
    """Poll until the process is gone, or what it has bound is what is expected (if something is expected) and has not
    changed for `quiet` seconds.  One-sided: an expected listener gets up to `cap` seconds to appear."""
    t0 = time.time()
    last, since = None, t0
    while True:
        cur = (proc.alive(), e2e.listening(port, "tcp"), e2e.listening(port, "udp"))
        if cur != last:
            last, since = cur, time.time()
        now = time.time()
        if not cur[0]:
            # the sockets of an exited process are gone; read once more to be sure of what is left
            return (False, e2e.listening(port, "tcp"), e2e.listening(port, "udp"))
        expected = (cur[1] or not want_tcp) and (cur[2] or not want_udp)
        if now - since >= quiet and (expected or now - t0 >= cap):
            return cur
        await asyncio.sleep(0.03)


async def tcp_echo_through(client_port, tgt_port, payload, attempts=2):
    for i in range(attempts):
        conn = None
        try:
            conn, _ = await e2e.open_local("socks5", client_port, "127.0.0.1", tgt_port, timeout=4.0)
            await conn.sendall(payload)
            got = await conn.read_exact(len(payload) + 2, timeout=4.0)
            if got == b"R:" + payload:
                return True
        except (OSError, asyncio.TimeoutError, e2e.HandshakeRefused, EOFError, asyncio.IncompleteReadError, ConnectionError):
            pass
        finally:
            if conn:
                conn.close()
        await asyncio.sleep(0.3)
    return False


async def udp_echo_through(client_port, tgt_port, payload, attempts=3):
    loop = asyncio.get_running_loop()
    s = socket.socket(socket.AF_INET, socket.SOCK_DGRAM)
    s.setblocking(False)
    s.bind(("127.0.0.1", 0))
    try:
        head = b"\x00\x00\x00" + e2e.socks5_addr("127.0.0.1", tgt_port)
        for i in range(attempts):
            try:
                await loop.sock_sendto(s, head + payload, ("127.0.0.1", client_port))
                data, _ = await asyncio.wait_for(loop.sock_recvfrom(s, 65536), 2.0)
                if data.endswith(b"R:" + payload):
                    return True
            except (OSError, asyncio.TimeoutError):
                pass
            await asyncio.sleep(0.2)
        return False
    finally:
        s.close()


async def observe(item, echo, ref, idx):
    """Start the real binary on one configuration; returns the observation record."""
    t, want = item["cfg"], item["want"]
    d = vlib.workdir("c16/%d" % idx)
    port = e2e.free_port(also_udp=True)
    peer_port = e2e.free_port(also_udp=True)
    pick, legacy_pw, names = item.get("pick"), item.get("legacy_pw"), item.get("names")
    procs = []
    obs = {"alive": False, "tcp": False, "udp": False, "panic": False, "ok": [], "ran": []}
    note = {}
    try:
        if t["side"] == "server":
            cfgp = os.path.join(d, "server.json")
            json.dump(server_json(t, port, pick, legacy_pw, names), open(cfgp, "w"), indent=1)
            put = e2e.Proc("server", [vlib.SERVER_BIN, cfgp, "debug"], os.path.join(d, "server.log"))
        else:
            cfgp = os.path.join(d, "client.json")
            json.dump(client_json(t, port, peer_port, pick, legacy_pw, names), open(cfgp, "w"), indent=1)
            put = e2e.Proc("client", [vlib.CLIENT_BIN, cfgp], os.path.join(d, "client.log"))
        procs.append(put)
        st = await settle(put, port, want["tcp"] == "yes", want["udp"] == "yes")
        obs["alive"], obs["tcp"], obs["udp"] = st
        probes = sorted(want["probes"]) if want["accept"] and st[0] else []
        payload = ("c16-%d-" % idx).encode() + os.urandom(6).hex().encode()
        pw, _ = credentials(t, pick, legacy_pw)
        for p in probes:
            obs["ran"].append(p)
            ok = False
            if p in ("ref_tcp", "ref_udp"):
                for _ in range(2):
                    r = await ref.probe(proto=t["proto"], cipher=t["cipher"], password=pw, port=port, net="udp" if p == "ref_udp" else "tcp",
                                        target_port=echo.udp_port if p == "ref_udp" else echo.tcp_port, payload=payload.hex())
                    note[p] = r["why"]
                    if r["ok"]:
                        ok = True
                        break
                    await asyncio.sleep(0.2)
            else:
                if len(procs) == 1:
                    # the real peer, configured with documented names for the same link and the same credentials
                    if t["side"] == "server":
                        pj = os.path.join(d, "peer-client.json")
                        json.dump(peer_client_json(t, peer_port, port, legacy_pw), open(pj, "w"), indent=1)
                        peer = e2e.Proc("peer-client", [vlib.CLIENT_BIN, pj], os.path.join(d, "peer-client.log"))
                        need = [("tcp", peer_port)]
                    else:
                        pj = os.path.join(d, "peer-server.json")
                        json.dump(peer_server_json(t, peer_port, legacy_pw), open(pj, "w"), indent=1)
                        peer = e2e.Proc("peer-server", [vlib.SERVER_BIN, pj, "debug"], os.path.join(d, "peer-server.log"))
                        need = [("udp" if t["link"] == "quic" else "tcp", peer_port)]
                    procs.append(peer)
                    t0 = time.time()
                    while not all(e2e.listening(pp, k) for k, pp in need):
                        if not peer.alive() or time.time() - t0 > 10:
                            raise vlib.ToolError("peer for %s did not start: %s" % (json.dumps(t), peer.log_text()[-300:]))
                        await asyncio.sleep(0.03)
                local = port if t["side"] == "client" else peer_port
                if p == "flow":
                    ok = await tcp_echo_through(local, echo.tcp_port, payload)
                elif p == "udp_flow":
                    ok = await udp_echo_through(local, echo.udp_port, payload)
            if ok:
                obs["ok"].append(p)
        obs["panic"] = bool(put.panicked())
        if not st[0]:
            note["exit"] = put.p.poll()
        log = put.log_text()
        note["error_logged"] = (" ERROR " in log) or ("Error" in log) or ("error" in log)
        note["log_tail"] = log[-300:]
    finally:
        for p in reversed(procs):
            p.stop()
    rec = {"ev": "Obs", "cfg": t, "obs": obs}
    return rec, dict(note, concrete={k: item[k] for k in ("pick", "legacy_pw", "names") if item.get(k) is not None})


# ---------------------------------------------------------------------------------------------------------------

def thorough_items(items, rnd):
    """Concretisations beyond the one-per-class of the model: every key length, random undocumented names, password lengths."""
    out = []
    by = {}
    for it in items:
        t = it["cfg"]
        by[(t["side"], t["proto"], t["cipher"], t["mode"], t["key"], t["link"])] = it
    for side in ("server", "client"):
        for c in ("2022-blake3-aes-128-gcm", "2022-blake3-aes-256-gcm", "2022-blake3-chacha8-poly1305", "2022-blake3-chacha20-poly1305"):
            n = keylen(c)
            for ln in range(0, 2 * n + 2):
                form = "exact" if ln == n else ("empty" if ln == 0 else ("short1" if ln < n else "long1"))
                it = by.get((side, "shadowsocks", c, "tcp_and_udp", form, "tcp"))
                if it and ln not in (n, n - 1, n + 1, 0):
                    out.append(dict(it, pick=ln))
    # undocumented names derived from documented ones
    def mangle(s):
        documented = set(e2e.SS_CIPHERS) | set(CANON) | {"tcp", "udp", "tcp_and_udp", "quic", "tcp_and_quic", "shadowsocks", "vmess", "trojan"}
        cands = [x for x in (s.upper(), s + " ", " " + s, s.replace("-", "_").replace("_and_", "-and-"), s[:-1], s + "x") if x not in documented]
        return rnd.choice(cands)
    bad_c = [it for it in items if it["cfg"]["cipher"] == "aes-192-gcm" and it["cfg"]["mode"] in ("absent", "tcp_and_udp")]
    for it in bad_c:
        for c in rnd.sample(e2e.SS_CIPHERS, 4):
            out.append(dict(it, names={"cipher": mangle(c)}))
    bad_m = [it for it in items if it["cfg"]["mode"] == "both" and it["cfg"]["cipher"] in ("aes-128-gcm", "2022-blake3-aes-128-gcm") and it["cfg"]["key"] in ("password", "exact")]
    for it in bad_m:
        for m in ("tcp", "udp", "tcp_and_udp", "quic"):
            out.append(dict(it, names={"mode": mangle(m)}))
    bad_p = [it for it in items if it["cfg"]["proto"] == "socks5"]
    for it in bad_p:
        for p in ("shadowsocks", "vmess", "trojan"):
            out.append(dict(it, names={"proto": mangle(p)}))
    # ordinary passwords of many lengths for the legacy ciphers, on TCP and UDP alike
    for it in items:
        t = it["cfg"]
        if t["proto"] == "shadowsocks" and t["key"] == "password" and t["mode"] == "tcp_and_udp" and t["cipher"] in ("aes-128-gcm", "aes-256-gcm", "chacha20-poly1305", "chacha20-ietf-poly1305") and it["want"]["accept"]:
            for ln in (1, 7, 16, 24, 32, 33, 64, 200):
                out.append(dict(it, legacy_pw="".join(rnd.choice("abcdefghijklmnopqrstuvwxyzABCDEFGHIJKLMNOPQRSTUVWXYZ0123456789+/=:-_ ") for _ in range(ln))))
    return out


def colon_items(items):
    """An ordinary pass phrase may contain the character that separates identity keys in a 2022 credential: every legacy
    cipher name, both sides, TCP and UDP (both tiers)."""
    out = []
    for it in items:
        t = it["cfg"]
        if t["proto"] == "shadowsocks" and t["key"] == "password" and t["mode"] == "tcp_and_udp" and t["cipher"] in ("aes-128-gcm", "aes-256-gcm", "chacha20-poly1305", "chacha20-ietf-poly1305") and it["want"]["accept"]:
            out.append(dict(it, legacy_pw="squirrel:0ct0:pass-phrase"))
            out.append(dict(it, legacy_pw="a:"))
    return out


async def drive(c, items):
    echo, ref = Echo(), RefClient()
    await echo.start()
    await ref.start()
    e2e.ensure_cert()
    sem = asyncio.Semaphore(PARALLEL)
    results = [None] * len(items)

    async def one(i, it):
        async with sem:
            results[i] = await observe(it, echo, ref, i)
    try:
        await asyncio.gather(*[one(i, it) for i, it in enumerate(items)])
    finally:
        echo.close()
        await ref.stop()
    return results


def judge(c, recs):
    """TLC validates the records; a rejected record is reported and validation continues behind it."""
    wd = os.path.join(vlib.WORK, "c16")
    os.makedirs(wd, exist_ok=True)
    pending = list(range(len(recs)))
    bad = []
    rounds = 0
    while pending and rounds < 40:
        rounds += 1
        path = os.path.join(wd, "obs_r%d.ndjson" % rounds)
        e2e.write_ndjson(path, [recs[i] for i in pending])
        acc, matched, r = vlib.validate_trace("TraceConfig", "TraceConfig.cfg", path, timeout=900)
        c.tlc_stats(r)
        if acc:
            c.add("traces_validated_against_impl", len(pending))
            break
        c.add("traces_validated_against_impl", matched)
        bad.append(pending[matched])
        pending = pending[matched + 1:]
    return bad


def describe(rec, note, want):
    o = rec["obs"]
    return "configuration %s%s: documented %s; real binary: alive=%s tcp=%s udp=%s panic=%s probes ok=%s of %s %s" % (
        json.dumps(rec["cfg"], sort_keys=True), (" " + json.dumps(note.get("concrete"))) if note.get("concrete") else "",
        json.dumps(want, sort_keys=True), o["alive"], o["tcp"], o["udp"], o["panic"], o["ok"], o["ran"],
        json.dumps({k: v for k, v in note.items() if k in ("ref_tcp", "ref_udp", "exit")}))


def model(c):
    r = vlib.tlc("Config", "Config.cfg", workers=4, timeout=600)
    c.tlc_stats(r)
    if not r.ok:
        c.violation("model: Config violates %s" % (r.violated or r.error), {"tail": r.out[-2000:]})
    if not r.replay:
        raise vlib.ToolError("no configuration tuples exported")
    seen = {}
    jobs = [dict(module="Config", cfg="Config_dev_%s.cfg" % k, workers=2, timeout=300) for k in ("QuicNoTcp", "ShortKeyPadded", "UdpModeExits", "VMessAnyCipher", "VMessIdCheckedLate")]
    for k, d in zip(("QuicNoTcp", "ShortKeyPadded", "UdpModeExits", "VMessAnyCipher", "VMessIdCheckedLate"), vlib.tlc_parallel(jobs, parallel=5)):
        seen[k] = d.violated
        if d.violated != "ImplConforms":
            raise vlib.ToolError("anti-vacuity: deviation %s not detected by the Config model" % k)
    c.cov["deviations_detected_by_model"] = seen
    return r.replay


def run(tier):
    c = Check("C16", tier, "model_checking")
    c.cov["traces_validated_against_impl"] = 0
    rnd = random.Random(vlib.seed() + 16)
    items = model(c)
    for it in items:
        it["want"]["probes"] = sorted(it["want"]["probes"])
    items.sort(key=lambda it: json.dumps(it["cfg"], sort_keys=True))
    c.cov["configuration_tuples_in_model"] = len(items)
    base_items = items
    if tier == "thorough":
        items = items + thorough_items(base_items, rnd)
    items = items + colon_items(base_items)
    results = asyncio.run(drive(c, items))
    recs = [r for r, _ in results]
    notes = [n for _, n in results]
    bad = judge(c, recs)
    # A probe that did not succeed is an absence within a bound (ports picked a moment earlier, eight configurations
    # starting at once): such a record is observed again, alone, in fresh processes, and reported only if it is
    # rejected every time (DESIGN 2.7).  A listener that should not be there is not re-tried away: it was seen.
    confirmed = []
    for i in bad:
        o, w = recs[i]["obs"], items[i]["want"]
        only_absence = w["accept"] and not o["panic"] and not (w["tcp"] == "no" and o["tcp"]) and not (w["udp"] == "no" and o["udp"])
        again_ok = False
        if only_absence:
            for k in range(2):
                rec2, note2 = asyncio.run(drive(c, [items[i]]))[0]
                c.add("absence_reruns", 1)
                if not judge(c, [rec2]):
                    again_ok = True
                    break
                recs[i], notes[i] = rec2, note2
        if not again_ok:
            confirmed.append(i)
    bad = confirmed
    for i in bad:
        c.violation(describe(recs[i], notes[i], items[i]["want"]), {"item": items[i], "record": recs[i], "note": notes[i]})
    c.add("configurations_started", len(items))
    c.cov["accepted_expected"] = sum(1 for it in items if it["want"]["accept"])
    c.cov["refused_expected"] = sum(1 for it in items if not it["want"]["accept"])
    pr = {}
    for r in recs:
        for p in r["obs"]["ran"]:
            pr[p] = pr.get(p, 0) + 1
    c.cov["probes_run"] = pr
    c.cov["refusals_with_error_reported"] = sum(1 for it, n in zip(items, notes) if not it["want"]["accept"] and (n.get("error_logged") or n.get("exit") not in (None, 0)))
    acc = [i for i, it in enumerate(items) if it["want"]["accept"]]
    ref = [i for i, it in enumerate(items) if not it["want"]["accept"]]
    for i in (acc[:1] + acc[len(acc) // 2:len(acc) // 2 + 1] + ref[:1] + ref[-1:]):
        c.sample({"record": recs[i], "documented": items[i]["want"]})
    # binding self-test: a record in which a promised listener is missing must be rejected
    i = next(i for i in acc if items[i]["want"]["tcp"] == "yes")
    fake = copy.deepcopy(recs[i])
    fake["obs"]["tcp"] = False
    p = os.path.join(vlib.WORK, "c16", "selftest.ndjson")
    e2e.write_ndjson(p, [fake])
    a, matched, r = vlib.validate_trace("TraceConfig", "TraceConfig.cfg", p)
    if a:
        raise vlib.ToolError("binding self-test failed: a record without the promised TCP listener was accepted")
    c.cov["binding_selftest"] = "promised TCP listener removed from a record -> rejected"
    c.cov["exhaustive"] = True
    c.assumptions += [
        "listeners are read from /proc/net (127.0.0.1 / 0.0.0.0, configured port); an expected listener gets up to 6 s to appear, an unexpected one is looked for until the process has been quiet for 0.45 s",
        "how a refusal is reported (exit status or a logged error with the process idling) is not judged; counted in refusals_with_error_reported",
        "the reference client (vh c16-probe) is my reading of SIP004/SIP022 and Trojan; it knows the cipher name and the password string only. VMess names are bound to algorithms at codec level by C03; here VMess is exercised through real peers",
        "a configuration with a documented mode but without the section that mode needs (Shadowsocks mode quic without a quic section) is not judged",
    ]
    return c.finish()


def replay(path):
    o = json.load(open(path))
    it = o["replay"].get("item")
    if not it:
        print(json.dumps(o, indent=1)[:3000])
        return 0
    c = Check("C16", "quick", "model_checking")
    results = asyncio.run(drive(c, [it]))
    rec, note = results[0]
    p = os.path.join(vlib.WORK, "replay_c16.ndjson")
    e2e.write_ndjson(p, [rec])
    acc, matched, r = vlib.validate_trace("TraceConfig", "TraceConfig.cfg", p)
    print(describe(rec, note, it["want"]))
    if not acc:
        print("VIOLATION property=C16 replay=%s" % path)
        return 1
    return 0
