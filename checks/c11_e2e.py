"""C11 end to end: a live Shadowsocks 2022 datagram session whose client-server link duplicates, delays, reorders and
replays datagrams (a UDP middlebox between the real client and the real server), in both directions.

The set model of PacketWindow.tla predicts the outcome: every packet id is accepted exactly once in whatever order it
arrives (all ids here stay inside the window), so every datagram the applications sent reaches its target exactly once, every
reply its application exactly once, whatever the link did; a copy presented from ANOTHER source address is a copy all the
same.  A refused copy changes nothing: the datagrams after it are delivered.  The observed history is judged by TLC against
TraceUdp (NoDup, Whole, RightTarget, ReplyToOwner; Delivered at Settle)."""
import asyncio
import json
import random
import socket

from checks import c02
from lib import e2e, udprun, vlib

CONFS = ["shadowsocks/2022-blake3-aes-128-gcm/udp", "shadowsocks/2022-blake3-chacha20-poly1305/udp", "shadowsocks/2022-blake3-aes-256-gcm+eih/udp",
         "shadowsocks/2022-blake3-aes-256-gcm/udp", "shadowsocks/2022-blake3-chacha8-poly1305/udp", "shadowsocks/2022-blake3-aes-128-gcm+eih/udp"]


class Link:
    """The misbehaving link: decides per datagram what happens to it."""

    def __init__(self, mbox, server_port, rnd, stats):
        self.mbox, self.server_port, self.rnd, self.stats = mbox, server_port, rnd, stats
        self.held = []          # (release_after_n_more, link, direction, data)
        self.seen = [0, 0]
        self.strangers = []
        self.force_copy_later = False
        self.calm = False       # the link itself behaves (what is replayed then is scripted by the session)
        self.down_log = []      # (link, data) of the server -> client datagrams that passed, oldest first
        mbox.hook = self.hook

    def act(self, what):
        self.stats[what] = self.stats.get(what, 0) + 1

    def hook(self, ln, d, data):
        self.seen[d] += 1
        if d == 1 and len(self.down_log) < 400:
            self.down_log.append((ln, data))
        out = []
        # datagrams held back earlier come out once enough later ones have passed them
        keep = []
        for left, l2, d2, data2 in self.held:
            if d2 == d and left <= 1:
                out.append(data2) if l2 is ln else self.mbox.inject(l2, d2, data2)
            else:
                keep.append((left - 1 if d2 == d else left, l2, d2, data2))
        self.held = keep
        r = self.rnd.random()
        if self.seen[d] <= 1 or self.calm:
            r = 0.0             # the first datagram of a direction sets the session up: let it through
        elif d == 0 and self.force_copy_later:
            # scripted by the session: this client datagram passes now and a copy of it is kept until flush()
            self.force_copy_later = False
            self.act("duplicate_after_unsendable")
            out.insert(0, data)
            self.held.append((10 ** 6, ln, d, data))
            return out
        if r < 0.45:
            self.act("pass")
            out.insert(0, data)
        elif r < 0.6:
            self.act("duplicate")
            out = [data, data] + out
        elif r < 0.72:
            self.act("duplicate_later")
            out.insert(0, data)
            self.held.append((self.rnd.randint(1, 4), ln, d, data))
        elif r < 0.88:
            self.act("delay_behind_later_ones")
            self.held.append((self.rnd.randint(1, 4), ln, d, data))
        elif d == 0:
            # a copy of this client datagram arrives from an address the session has never used
            self.act("copy_from_another_address")
            out.insert(0, data)
            s = socket.socket(socket.AF_INET, socket.SOCK_DGRAM)
            s.setblocking(False)
            # after the original (which leaves when this hook returns): a copy that came first would be the session's
            # first datagram, and to whom a session belongs is not C11's matter
            asyncio.get_event_loop().call_later(0.02, self._stranger_send, s, data)
            self.strangers.append(s)
        else:
            self.act("triplicate")
            out = [data, data, data] + out
        return out

    def _stranger_send(self, s, data):
        try:
            s.sendto(data, ("127.0.0.1", self.server_port))
        except OSError:
            pass

    def flush(self):
        for _, l2, d2, data2 in self.held:
            self.mbox.inject(l2, d2, data2)
        self.held = []

    def close(self):
        self.mbox.hook = None
        for s in self.strangers:
            s.close()


async def session(conf, seed, events, stats, n, restart=False):
    rnd = random.Random(seed)
    dep = e2e.Deployment(conf, "c11")
    mbox = None
    try:
        mbox = e2e.Middlebox(dep.server_port, udp=True)
        dep.link_port = mbox.port
        await dep.start()
        s = c02.Scenario(dep, conf, seed, {0: dep.client_port})
        link = Link(mbox, dep.server_port, rnd, stats)
        s.w.add_app(1, 0)
        s.w.add_app(2, 0)
        s.w.add_target(1, "127.0.0.1")
        s.w.add_target(2, "127.0.0.2")
        for i in range(n):
            a, t = rnd.randint(1, 2), rnd.randint(1, 2)
            s.send(a, t, rnd.choice([rnd.randint(16, 120), rnd.randint(16, 1400)]), rep=rnd.choice([0, 1, 1, 2]), rsize=rnd.randint(16, 1200))
            await s.w.drain(rnd.choice([0, 1, 2, 3]), 1.5)
            if i % 7 == 6:
                link.flush()
            if i % 9 == 4:
                # a datagram is accepted and relayed; then the same session sends datagrams the server cannot pass on (a target
                # it cannot reach from its IPv4 socket, a name that does not resolve, port 0); then a copy of the first one
                # arrives: it is a copy all the same, and the datagrams after it are delivered
                link.force_copy_later = True
                s.send(a, t, rnd.randint(16, 300), rep=1, rsize=rnd.randint(16, 300))
                await s.w.drain(0, 1.5)
                for host, port in rnd.sample([("::1", 9), ("no-such-host-c11.invalid", 5353), ("127.0.0.1", 0), ("fe80::1", 53)], 2):
                    hdr = b"\x00\x00\x00" + e2e.socks5_addr(host, port)
                    s.w.send(a, t, 40, rep=0, must=False, raw_header=hdr)
                    await asyncio.sleep(0.05)
                link.flush()
                await asyncio.sleep(0.05)
        # the script is over: from here on the link passes everything (a reply to a datagram released by the last flush must
        # not be held back behind datagrams that will never come), and what it still holds is released
        link.calm = True
        link.flush()
        await s.w.drain(0, 2.0)
        link.flush()
        if restart:
            # The server is restarted (for the client the same thing as its association expiring there): it answers the same
            # client session under a NEW server session id whose packet ids start at 1 again.  Those ids have not been
            # accepted before in that session, so the replies reach their application; recorded datagrams of the OLD server
            # session, presented again between them, are copies all the same.
            old = list(link.down_log)
            link.calm = True        # copies of CLIENT datagrams from before the restart are not this scenario's matter: a
            await asyncio.sleep(0.2)  # restarted server has forgotten its sessions (the timestamp window bounds that)
            dep.server.stop()
            dep.start_server()
            await dep.wait_bound(dep.server, dep.server_port, kinds=("udp",))
            stats["server_restarts"] = stats.get("server_restarts", 0) + 1
            for k in range(10):
                a, t = rnd.randint(1, 2), rnd.randint(1, 2)
                s.send(a, t, rnd.randint(16, 400), rep=1, rsize=rnd.randint(16, 400))
                await s.w.drain(0, 1.5)
                if old and k >= 2:
                    ln, data = old[(k * 7) % len(old)]
                    mbox.inject(ln, 1, data)
                    ln, data = old[-1 - (k % min(3, len(old)))]
                    mbox.inject(ln, 1, data)
                    stats["old_session_replays"] = stats.get("old_session_replays", 0) + 2
                    await asyncio.sleep(0.03)
            link.flush()
            await s.w.drain(0, 2.0)
        await s.end(events, {"kind": "c11-link", "seed": seed, "n": n, "restart": bool(restart)})
        link.close()
        events.append({"ev": "Reset"})
        events.append({"ev": "Note", "conf": conf.label, "what": "process"})
        events.append({"ev": "Panic", "n": len(dep.panics())})
        events.append({"ev": "Alive", "c": dep.client.alive(), "s": dep.server.alive()})
    finally:
        dep.stop()
        if mbox:
            await mbox.close()


def run(c, tier):
    m = {x.label: x for x in e2e.udp_matrix()}
    confs = [m[l] for l in (CONFS[:3] if tier == "quick" else CONFS)]
    rounds = 2 if tier == "quick" else 8
    n = 40 if tier == "quick" else 120
    events, stats = [], {}
    for ci, conf in enumerate(confs):
        for r in range(rounds):
            asyncio.run(session(conf, vlib.seed() * 10000 + ci * 100 + r, events, stats, n, restart=(r % 2 == 1)))
            c.add("link_sessions", 1)
    c.cov["link_actions"] = stats

    def rerun(label, desc):
        """Absence within a bound (a datagram owed at Settle that has not arrived yet): the same session is run twice more in
        fresh processes; the absence is reported only if neither run is accepted (DESIGN 2.7)."""
        import os
        conf = m[label]
        for k in range(2):
            ev, st = [], {}
            asyncio.run(session(conf, desc["seed"], ev, st, desc["n"], restart=desc.get("restart", False)))
            p = os.path.join(vlib.WORK, "c11", "rerun.ndjson")
            e2e.write_ndjson(p, ev)
            acc, matched, r = vlib.validate_trace("TraceUdp", "TraceUdp.cfg", p)
            if acc:
                return True
        return False

    for what, seg in c02.judge(c, "c11", events, prop="C11", rerun=rerun):
        c.violation("session over a link that duplicates / delays / replays datagrams: " + what, {"history": seg})
    c.assumptions.append("end to end: ids stay inside the 8128-wide window (sessions of up to 120 datagrams); the window's far edge is covered by the replay on the real filter")
