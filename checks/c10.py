"""C10 — stale, replayed, mis-typed or unbound handshakes are rejected (DESIGN 5.10)."""
import json
import os
import random

from lib import vlib
from lib.vlib import Check, tlc, vh_json_lines, validate_trace

DEVS = ["ShortTtl", "NonAtomicSet", "TryLock", "NoType", "NoFresh"]
MSG_DEVS = ["NoEcho", "NoRespType", "NoRespFresh", "NoUdpType", "NoUdpFresh", "WideVMess", "NoRespByte", "WrapAbs"]


def model(c, tier):
    cfgs = ["MCHandshake_ideal.cfg"] + (["MCHandshake_ideal3.cfg"] if tier == "thorough" else [])
    for cfg in cfgs:
        r = tlc("MCHandshake", cfg, workers=8, timeout=1800)
        c.tlc_stats(r)
        if not r.ok:
            c.violation("model: %s violated in %s" % (r.violated or r.error, cfg), {"cfg": cfg, "tail": r.out[-3000:]})
    seen = {}
    for d in DEVS:
        r = tlc("MCHandshake", "MCHandshake_dev_%s.cfg" % d, workers=4, timeout=600)
        seen[d] = r.violated
        if not r.violated:
            raise vlib.ToolError("anti-vacuity: deviation %s not detected by the model" % d)
    for d in MSG_DEVS:
        r = tlc("MCHandshakeMsg", "MCHandshakeMsg_dev_%s.cfg" % d, workers=2, timeout=600)
        seen[d] = r.violated
        if not r.violated:
            raise vlib.ToolError("anti-vacuity: deviation %s not detected by the model" % d)
    c.cov["deviations_detected_by_model"] = seen


def judge(c, rows, what):
    n = 0
    for o in rows:
        sc, res = o["scenario"], o["result"]
        if "tool_error" in res:
            raise vlib.ToolError("%s: %s" % (what, res["tool_error"]))
        n += 1
        exp = sc["expect"]
        got = res.get("got")
        if res.get("diverged"):
            c.violation("%s: real code cannot follow the model's schedule: %s" % (what, res["diverged"]), o)
        elif got != exp:
            k = sc.get("kind", sc.get("k"))
            desc = {"k": k, "dts": sc.get("dts"), "ext": sc.get("ext"), "typ": sc.get("typ"), "echo": sc.get("echo"), "auth": sc.get("auth"),
                    "times": sc.get("times")}
            c.violation("%s: model expects %s, real code gives %s for %s (%s)" %
                        (what, exp, got, json.dumps(desc), res.get("cipher", res.get("security", ""))), o)
    return n


def spec_to_impl(c, tier):
    rnd = random.Random(vlib.seed())
    scen = []
    r = tlc("MCHandshake", "MCHandshake_seq.cfg", workers=2, timeout=600)
    c.tlc_stats(r)
    seq = r.replay
    r = tlc("MCHandshake", "MCHandshake_conc2.cfg", workers=2, timeout=600)
    c.tlc_stats(r)
    conc = r.replay
    if tier == "thorough":
        r = tlc("MCHandshake", "MCHandshake_conc3.cfg", workers=4, timeout=900)
        c.tlc_stats(r)
        conc += rnd.sample(r.replay, min(len(r.replay), 1500))
    r = tlc("MCHandshake", "MCHandshake_timed.cfg", workers=8, timeout=1200, heap="6g")
    c.tlc_stats(r)
    gaps = [31] if tier == "quick" else [1, 29, 31, 45, 59, 61, 62]
    dtss = [30, 0, -30] if tier == "quick" else [-31, -30, -1, 0, 1, 30, 31]
    timed = [s for s in r.replay if s["times"][0] == 0 and s["times"][1] in gaps and s["dts"] in dtss]
    c.cov["timed_scenarios_in_model"] = len(r.replay)
    r = tlc("MCHandshakeMsg", "MCHandshakeMsg.cfg", workers=2, timeout=600)
    c.tlc_stats(r)
    msgs = r.replay
    if not (seq and conc and timed and msgs):
        raise vlib.ToolError("scenario export incomplete: %d %d %d %d" % (len(seq), len(conc), len(timed), len(msgs)))
    c.sample(seq[0]); c.sample(conc[len(conc) // 2]); c.sample(timed[0]); c.sample(msgs[len(msgs) // 3])
    scen = seq + conc + timed + msgs
    rows = vh_json_lines(["c10-replay", "--seed", vlib.seed()], stdin="\n".join(json.dumps(s) for s in scen) + "\n", timeout=1800)
    n = judge(c, rows, "spec->impl")
    c.add("replayed_scenarios", n)
    c.cov["scenario_counts"] = {"sequential": len(seq), "concurrent_schedules": len(conc), "timed": len(timed), "messages": len(msgs)}


def impl_to_spec(c, tier):
    n = 4 if tier == "quick" else 24
    events = 400 if tier == "quick" else 900
    wd = vlib.workdir("c10")
    ok = 0
    for i in range(n):
        path = os.path.join(wd, "trace_%d.ndjson" % i)
        vh_json_lines(["c10-record", "--seed", vlib.seed() * 100 + i, "--events", events, "--out", path])
        acc, matched, r = validate_trace("TraceHandshake", "TraceHandshake.cfg", path)
        c.tlc_stats(r)
        c.add("trace_events", matched)
        if acc:
            ok += 1
        else:
            c.violation("recorded presentations are not a behaviour of the Handshake design (matched %d events; %s)" %
                        (matched, r.violated or "verdict differs"), {"trace": path, "tail": r.out[-1500:]})
    c.add("traces_validated_against_impl", ok)
    path = os.path.join(wd, "trace_0.ndjson")
    rows = open(path).read().splitlines()
    cand = [i for i, x in enumerate(rows) if '"Present"' in x]
    k = random.Random(vlib.seed()).choice(cand)
    row = json.loads(rows[k]); row["ok"] = not row["ok"]; rows[k] = json.dumps(row)
    mpath = os.path.join(wd, "trace_0_mutated.ndjson")
    open(mpath, "w").write("\n".join(rows) + "\n")
    acc, matched, _ = validate_trace("TraceHandshake", "TraceHandshake.cfg", mpath)
    if acc:
        raise vlib.ToolError("binding self-test failed: corrupted trace accepted")
    c.cov["binding_selftest"] = "verdict of event %d flipped -> rejected after %d events" % (k, matched)


def run(tier):
    c = Check("C10", tier, "model_checking")
    c.cov["traces_validated_against_impl"] = 0
    model(c, tier)
    spec_to_impl(c, tier)
    impl_to_spec(c, tier)
    c.assumptions += [
        "handshake processing is instantaneous relative to the 1 s clock (ticks only between handshakes)",
        "cache expiry is exercised with real sleeps (31 s quick; up to 62 s thorough); lru_time_cache's clock cannot be hooked",
        "messages with chosen timestamps/types/echoes are built by the reference codec (harness/src/refcodec.rs, refvmess.rs)",
        "the server-side UDP codec is assembled from octo-squirrel's public pieces as startup_udp does",
    ]
    return c.finish()


def replay(path):
    o = json.load(open(path))
    sc = o["replay"].get("scenario")
    if not sc:
        print(json.dumps(o, indent=1)[:3000])
        return 0
    rows = vh_json_lines(["c10-replay"], stdin=json.dumps(sc) + "\n", timeout=600)
    bad = [r for r in rows if r["result"].get("got") != sc["expect"] or r["result"].get("diverged")]
    print(json.dumps(rows, indent=1)[:4000])
    if bad:
        print("VIOLATION property=C10 replay=%s" % path)
        return 1
    return 0
