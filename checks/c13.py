"""C13 — local SOCKS5 and HTTP handshakes yield exactly the requested target (DESIGN 5.13)."""
import json
import random

from lib import vlib
from lib.vlib import Check, tlc, tlc_parallel, vh_json_lines

KINDS = ["socks5_TRUE", "socks5_FALSE", "connect_TRUE", "connect_FALSE", "http_TRUE", "http_FALSE", "garbage_FALSE"]
DEVS = ["PeekOnce", "ReadOnce", "NoGuard", "UnwrapEof"]


def local_scenarios(c):
    jobs = [dict(module="MCLocalHandshake", cfg="MCLocalHandshake_%s_exp.cfg" % k, workers=1, timeout=600, heap="2g") for k in KINDS]
    scen = []
    for j, r in zip(jobs, tlc_parallel(jobs, 7)):
        c.tlc_stats(r)
        if not r.ok:
            c.violation("model: %s violated in %s" % (r.violated or r.error, j["cfg"]), {"cfg": j["cfg"], "tail": r.out[-3000:]})
        if not r.replay:
            raise vlib.ToolError("no scenarios from " + j["cfg"])
        scen += r.replay
    return scen


def judge_local(c, rows, what):
    n = 0
    for o in rows:
        if "tool_error" in o:
            raise vlib.ToolError(str(o["tool_error"]))
        n += 1
        if not o["ok"]:
            sc = o["scenario"]
            c.violation("%s %s (%s) writes %s: %s" % (what, sc["kind"], o["obs"].get("what"), sc["hist"], "; ".join(o["why"])), o)
    return n


def run(tier):
    c = Check("C13", tier, "model_checking")
    c.cov["traces_validated_against_impl"] = 0
    # model: every segmentation / early close of every handshake kind; deviations must be caught
    jobs = [dict(module="MCLocalHandshake", cfg="MCLocalHandshake_%s.cfg" % k, workers=1, timeout=600, heap="2g") for k in KINDS]
    for j, r in zip(jobs, tlc_parallel(jobs, 7)):
        c.tlc_stats(r)
        if not r.ok:
            c.violation("model: %s violated in %s" % (r.violated or r.error, j["cfg"]), {"cfg": j["cfg"], "tail": r.out[-3000:]})
    seen = {}
    jobs = [dict(module="MCLocalHandshake", cfg="MCLocalHandshake_dev_%s.cfg" % d, workers=1, timeout=600, heap="2g") for d in DEVS]
    jobs.append(dict(module="MCHttpTarget", cfg="MCHttpTarget_dev_FindFirstColon.cfg", workers=1, timeout=600, heap="2g"))
    for d, r in zip(DEVS + ["FindFirstColon"], tlc_parallel(jobs, 5)):
        seen[d] = r.violated
        if not r.violated:
            raise vlib.ToolError("anti-vacuity: deviation %s not detected by the model" % d)
    c.cov["deviations_detected_by_model"] = seen
    # grammar: every request target of the catalogue on the real helper
    r = tlc("MCHttpTarget", "MCHttpTarget.cfg", workers=4, timeout=900)
    c.tlc_stats(r)
    if not r.ok:
        c.violation("model: %s violated in MCHttpTarget" % (r.violated or r.error), {"tail": r.out[-2000:]})
    c.sample(r.replay[7]); c.sample(r.replay[len(r.replay) // 2])
    rows = vh_json_lines(["c13-grammar"], stdin="\n".join(json.dumps(s) for s in r.replay) + "\n", timeout=900)
    for o in rows:
        if o.get("summary"):
            c.add("request_targets_replayed", o["targets"])
        else:
            sc = o["scenario"]
            c.violation("request target %s %r: expected %s, real helper gives %s" % (sc["method"], sc["uri"], json.dumps(sc["expect"]), json.dumps(o["got"])), o)
    # socket level: TLC's behaviours against the real get_request_addr over loopback TCP
    scen = local_scenarios(c)
    c.cov["local_behaviours_in_model"] = len(scen)
    if tier == "quick":
        rnd = random.Random(vlib.seed())
        scen = rnd.sample(scen, min(len(scen), 380))
    c.sample(scen[0]); c.sample(scen[len(scen) // 2])
    rows = vh_json_lines(["c13-local", "--seed", vlib.seed()], stdin="\n".join(json.dumps(s) for s in scen) + "\n", timeout=3000)
    c.add("local_behaviours_replayed", judge_local(c, rows, "local handshake"))
    c.assumptions += [
        "the application follows its protocol: it waits for the proxy's reply before it writes the next message or payload (no pipelining past a reply)",
        "segments are written with 25 ms pauses over loopback with TCP_NODELAY; the kernel may still coalesce, which only merges model steps",
        "a scheme-less 'host:port/path' target for ordinary methods is outside the catalogue (not an RFC 9112 request-target; leniency is not judged)",
    ]
    return c.finish()


def replay(path):
    o = json.load(open(path))
    print(json.dumps(o, indent=1)[:4000])
    return 0
