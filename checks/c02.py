"""C02 — the UDP relay preserves each datagram, its addresses and its owner (DESIGN 5.2).

model:  UdpDesign (client binding table with LRU eviction and per-binding reply task, server association table / per-flow
        outbound socket, lossy duplicating network) refines UdpRelay for the Shadowsocks, Trojan and VMess families;
        six named deviations must break the refinement.
spec -> impl: every send history TLC exports from UdpScripts (who sends to whom, size class, number of replies and who
        replies) is executed by scripted SOCKS5-UDP applications and UDP targets around real client and server processes.
impl -> spec: randomised histories of several applications and targets (sizes 0 .. 65 000 incl. the framing boundaries,
        0-2 replies, replies from a target that was never addressed, two clients of different users on one server,
        more senders than the binding table holds).
Every observed history is judged by TLC against TraceUdp (UdpRelay's guards: NoInvent, RightTarget, Whole, NoDup,
OneOwnerPerSource, ReplyToOwner, Label; Delivered at Settle)."""
import asyncio
import copy
import json
import os
import random

from lib import e2e, udprun, vlib
from lib.vlib import Check

SIZE = {
    "z": lambda r, fam: 0,
    "t": lambda r, fam: r.randint(1, 15),
    "s": lambda r, fam: r.randint(16, 1200),
    "b": lambda r, fam: r.choice({"vmess": [2031, 2047, 2048, 2049, 8192, 15900], "ss": [1472, 8191, 8192, 16383, 16384],
                                  "trojan": [1472, 8192, 16384, 32768]}[fam]),
    "L": lambda r, fam: r.randint(20000, 65000),
}


def fam(conf):
    return "vmess" if conf.proto == "vmess" else "trojan" if conf.proto == "trojan" else "ss"


def quick_confs():
    m = {c.label: c for c in e2e.udp_matrix()}
    return [m[k] for k in ["shadowsocks/2022-blake3-aes-128-gcm/udp", "shadowsocks/2022-blake3-aes-256-gcm+eih/udp",
                           "shadowsocks/chacha20-poly1305/udp", "shadowsocks/2022-blake3-chacha20-poly1305/udp",
                           "vmess/aes-128-gcm/tcp", "vmess/chacha20-poly1305/wss", "trojan/-/tls", "trojan/-/quic"]]


class Scenario:
    def __init__(self, dep, conf, seed, ports):
        self.log = e2e.Log()
        self.w = udprun.World(ports, self.log, seed)
        self.conf = conf
        self.cap = udprun.capacity(conf)
        self.w.cap = self.cap
        self.tiny_used = set()
        self.poisoned = set()

    def size(self, n):
        # lengths below the identity header are recognised by their length: each at most once per scenario and kind
        if n < udprun.HDR:
            for cand in [n] + list(range(0, udprun.HDR)):
                if cand not in self.tiny_used:
                    self.tiny_used.add(cand)
                    return cand
            return udprun.HDR
        return n

    def send(self, a, t, n, rep=1, rsize=None, via=0):
        n = self.size(n)
        rsize = n if rsize is None else rsize
        # A datagram-in-stream flow (VMess: one per sender and target) that was handed a datagram too large for one chunk
        # ends with an error; what is in flight on it then is lost, and the next datagram opens a new flow.  Delivery is
        # insisted on only for flows that never carried an oversized datagram (safety is checked for all).
        key = (a, t)
        must = n <= self.cap and key not in self.poisoned
        if n > self.cap or (rep and rsize > self.cap):
            self.poisoned.add(key)
        self.w.reply_must = key not in self.poisoned
        return self.w.send(a, t, n, rep=rep, rsize=rsize, via=via, must=must)

    async def end(self, events, desc):
        await self.w.settle()
        events.append({"ev": "Reset"})
        events.append({"ev": "Note", "conf": self.conf.label, "what": json.dumps(desc, sort_keys=True)})
        events.extend(self.log.events)
        self.w.close()


async def run_script(dep, conf, d, events, ports):
    rnd = random.Random(d["seed"])
    s = Scenario(dep, conf, d["seed"], ports)
    napps = len(ports)
    s.w.add_app(1, 0)
    s.w.add_app(2, 1 % napps)
    s.w.add_target(1, "127.0.0.1")
    s.w.add_target(2, "127.0.0.2")
    s.w.add_target(3, "127.0.0.1", name="localhost")
    f = fam(conf)
    for st in d["script"]:
        n = SIZE[st["size"]](rnd, f)
        s.send(st["app"], st["tgt"], n, rep=st["rep"], via=st["via"])
        await s.w.drain(0, 2.0)
    await s.end(events, d)


async def run_random(dep, conf, d, events, ports):
    rnd = random.Random(d["seed"])
    napps = d["napps"]
    s = Scenario(dep, conf, d["seed"], ports)
    f = fam(conf)
    for a in range(1, napps + 1):
        s.w.add_app(a, (a - 1) % len(ports))
    s.w.add_target(1, "127.0.0.1")
    s.w.add_target(2, "127.0.0.2")
    s.w.add_target(3, "127.0.0.1", name="localhost")
    s.w.add_target(4, "127.0.0.3")
    for i in range(d["n"]):
        a = rnd.randint(1, napps)
        t = rnd.randint(1, 4)
        r = rnd.random()
        cls = "z" if r < 0.04 else "t" if r < 0.12 else "s" if r < 0.55 else "b" if r < 0.8 else "L"
        n = SIZE[cls](rnd, f)
        rep = rnd.choice([0, 1, 1, 1, 2])
        via = 0
        if f != "vmess" and rep and rnd.random() < 0.15:
            via = rnd.choice([x for x in (1, 2, 4) if x != t])
        rs = n if rnd.random() < 0.6 else SIZE[rnd.choice("sbL")](rnd, f)
        s.send(a, t, n, rep=rep, rsize=rs, via=via)
        # interleave: keep a few datagrams in flight, never more than loopback buffers hold
        await s.w.drain(rnd.choice([0, 1, 2, 3]), 2.0)
    await s.end(events, d)


async def run_evict(dep, conf, d, events, ports):
    """More local senders than the binding table holds (64): the first sender's binding is dropped and re-created."""
    extra = d.get("extra", 70)
    s = Scenario(dep, conf, d["seed"], ports)
    s.w.add_target(1, "127.0.0.1")
    s.w.add_target(2, "127.0.0.2")
    s.w.add_app(1, 0)
    s.send(1, 1, 300, rep=1)
    await s.w.drain(0, 2.0)
    for a in range(2, extra + 2):
        s.w.add_app(a, 0)
        s.send(a, 1 + a % 2, 100 + a, rep=1)
        await s.w.drain(2, 2.0)
    await s.w.drain(0, 3.0)
    s.send(1, 1, 400, rep=2)        # the first sender again: a new binding, replies still reach it and nobody else
    s.send(2, 2, 500, rep=1)
    await s.end(events, d)


async def run_mixed(dep, conf, d, events, ports):
    """One sender, targets of mixed address kinds (IPv4 literals and names) on ports interleaved so that any ordering of
    binding keys that is not a total order shows (VMess keys its bindings by sender and target address)."""
    import socket
    s = Scenario(dep, conf, d["seed"], ports)
    s.w.add_app(1, 0)
    base = None
    for attempt in range(20):
        b = 20000 + (d["seed"] * 37 + attempt * 101) % 30000
        socks = []
        try:
            for ip, off in (("127.0.0.2", 1), ("127.0.0.1", 30), ("127.0.0.1", 15), ("127.0.0.3", 5), ("127.0.0.1", 20), ("127.0.0.1", 9)):
                k = socket.socket(socket.AF_INET, socket.SOCK_DGRAM)
                k.bind((ip, b + off))
                k.setblocking(False)
                socks.append(k)
            base = b
            break
        except OSError:
            for k in socks:
                k.close()
    if base is None:
        raise vlib.ToolError("no free port range for the mixed-address scenario")
    names = [None, None, "localhost", None, "localhost", None]
    ips = ["127.0.0.2", "127.0.0.1", "127.0.0.1", "127.0.0.3", "127.0.0.1", "127.0.0.1"]
    for i, k in enumerate(socks):
        tid = i + 1
        s.w.tgts[tid] = {"sock": k, "ip": ips[i], "port": k.getsockname()[1], "name": names[i]}
        s.w.loop.add_reader(k.fileno(), s.w._tgt_readable, tid)
    for rnd_ in range(3):
        for t in (1, 2, 3, 4, 5, 6, 3, 1, 5, 2):
            s.send(1, t, 100 + rnd_ * 10 + t, rep=1)
            await s.w.drain(0, 1.5)
    await s.end(events, d)


async def run_empty(dep, conf, d, events, ports):
    """A datagram with no payload at all, answered by a datagram with no payload (size class "z" in both directions: the
    encoders' padding rules apply to exactly this case), then ordinary datagrams of the same and of another application."""
    s = Scenario(dep, conf, d["seed"], ports)
    s.w.add_app(1, 0)
    s.w.add_app(2, 0)
    s.w.add_target(1, "127.0.0.1")
    s.w.add_target(2, "127.0.0.2")
    s.send(1, 1, 0, rep=1, rsize=0)
    await s.w.drain(0, 2.0)
    s.send(1, 1, 200, rep=1)
    s.send(2, 2, 300, rep=1)
    await s.w.drain(0, 2.0)
    s.send(2, 1, 1, rep=1, rsize=1)
    await s.end(events, d)


RUNNERS = {"script": run_script, "random": run_random, "evict": run_evict, "mixed": run_mixed, "empty": run_empty}


async def execute(conf, descs, tag="c02"):
    """Run scenario descriptors on one fresh deployment of conf; returns the event list (Reset-separated)."""
    events = []
    dep = e2e.Deployment(conf, tag)
    try:
        await dep.start()
        ports = {0: dep.client_port}
        if conf.users:
            p, port = dep.add_client(0)        # a second client, registered as the other user
            await dep.wait_bound(p, port)
            ports[1] = port
        for d in descs:
            await RUNNERS[d["kind"]](dep, conf, d, events, ports)
        events.append({"ev": "Reset"})
        events.append({"ev": "Note", "conf": conf.label, "what": "process"})
        events.append({"ev": "Panic", "n": len(dep.panics())})
        alive = {"c": all(p.alive() for p in [dep.client] + [x[0] for x in getattr(dep, "extra", [])]), "s": dep.server.alive()}
        events.append(dict(ev="Alive", **alive))
    finally:
        dep.stop()
    return events


def plan(c, tier, scripts, rnd):
    quick = tier == "quick"
    confs = quick_confs() if quick else e2e.udp_matrix()
    c.cov["configurations"] = [x.label for x in confs]
    per_conf = 8 if quick else 60
    evict_done = set()
    out = []
    for ci, conf in enumerate(confs):
        f = fam(conf)
        base = vlib.seed() * 100000 + ci * 1000
        descs = []
        sel = [s for s in rnd.sample(scripts, min(len(scripts), per_conf * 3)) if f != "vmess" or all(st["via"] == 0 for st in s)][:per_conf]
        for i, sc in enumerate(sel):
            descs.append({"kind": "script", "script": sc, "seed": base + i})
        c.add("replayed_scripts", len(sel))
        for j in range(2 if quick else 6):
            descs.append({"kind": "random", "n": 40 if quick else 120, "napps": rnd.randint(2, 6), "seed": base + 500 + j})
            c.add("random_histories", 1)
        descs.append({"kind": "mixed", "seed": base + 950})
        for j in range(1 if quick else 4):
            descs.append({"kind": "empty", "seed": base + 960 + j})
            c.add("empty_datagram_histories", 1)
        if f not in evict_done or not quick:
            evict_done.add(f)
            descs.append({"kind": "evict", "seed": base + 900})
            c.add("eviction_histories", 1)
        out.append((conf, descs))
    return out


async def drive(c, tier, scripts, rnd):
    events = []
    for conf, descs in plan(c, tier, scripts, rnd):
        events += await execute(conf, descs)
    return events


def split(events):
    segs, cur = [], []
    for e in events:
        if e["ev"] == "Reset" and cur:
            segs.append(cur)
            cur = []
        cur.append(e)
    if cur:
        segs.append(cur)
    return segs


def judge(c, tag, events, prop="C02", rerun=None):
    """Validate all scenarios; a rejected scenario is reported and cut out, the rest is validated again."""
    wd = os.path.join(vlib.WORK, tag)
    os.makedirs(wd, exist_ok=True)
    pending = split(events)
    bad = []
    rounds = 0
    while pending and rounds < 15:
        rounds += 1
        flat, index = [], []
        for s in pending:
            index.append((len(flat) + 1, len(flat) + len(s), s))
            flat += s
        path = os.path.join(wd, "udp_r%d.ndjson" % rounds)
        e2e.write_ndjson(path, flat)
        acc, matched, r = vlib.validate_trace("TraceUdp", "TraceUdp.cfg", path, timeout=1800)
        c.tlc_stats(r)
        if acc:
            c.add("traces_validated_against_impl", len(pending))
            c.add("trace_events", len(flat))
            break
        at = matched + 1
        nxt = []
        for a, b, s in index:
            if b < at:
                c.add("traces_validated_against_impl", 1)
                c.add("trace_events", len(s))
            elif a <= at <= b:
                bad.append((s, s[at - a], r.violated))
            else:
                nxt.append(s)
        pending = nxt
    out = []
    for s, ev, inv in bad:
        note = next((e for e in s if e["ev"] == "Note"), {})
        if ev["ev"] == "Settle" and rerun is not None and note.get("what", "").startswith("{"):
            # absence within a bound: re-run the same scenario twice in fresh processes; reported only if it fails every time
            again = rerun(note["conf"], json.loads(note["what"]))
            c.add("absence_reruns", 1)
            if again:
                continue
        what = "datagram history on %s (%s) is not a behaviour of UdpRelay at event %s" % (note.get("conf"), str(note.get("what"))[:160], json.dumps(ev))
        if ev["ev"] == "Settle":
            got = {e["pid"] for e in s if e["ev"] == "TgtGot"}
            gota = {e["rid"] for e in s if e["ev"] == "AppGot"}
            miss = [e for e in s if (e["ev"] == "AppSent" and e["must"] and e["pid"] not in got) or (e["ev"] == "TgtReplied" and e["must"] and e["rid"] not in gota)]
            what += "; never arrived: " + json.dumps(miss[:4])
        out.append((what, s))
    return out


def model(c, tier):
    jobs = [dict(module="MCUdpDesign", cfg="MCUdpDesign_%s.cfg" % k, workers=4, timeout=1800, heap="6g") for k in ("ss", "trojan", "vmess")]
    for k, r in zip(("ss", "trojan", "vmess"), vlib.tlc_parallel(jobs, parallel=3)):
        c.tlc_stats(r)
        if not r.ok:
            c.violation("model: UdpDesign (%s) violates %s" % (k, r.violated or r.error), {"cfg": k, "tail": r.out[-3000:]})
    devs = ["KeyNoSender_ss", "LabelRequested_trojan", "SharedAssoc_ss", "StaleTask_ss", "Twice_ss", "KeyNoSender_vmess"]
    jobs = [dict(module="MCUdpDesign", cfg="MCUdpDesign_dev_%s.cfg" % k, workers=2, timeout=900) for k in devs]
    seen = {}
    for k, r in zip(devs, vlib.tlc_parallel(jobs, parallel=6)):
        seen[k] = r.violated
        if not r.violated:
            raise vlib.ToolError("anti-vacuity: deviation %s not detected by the UdpDesign model" % k)
    c.cov["deviations_detected_by_model"] = seen


def run(tier):
    c = Check("C02", tier, "model_checking")
    c.cov["traces_validated_against_impl"] = 0
    rnd = random.Random(vlib.seed() + 2)
    model(c, tier)
    r = vlib.tlc("UdpScripts", "UdpScripts_%s.cfg" % ("q" if tier == "quick" else "t"), workers=4, timeout=1800)
    c.tlc_stats(r)
    if not r.ok:
        c.violation("model: UdpScripts: %s" % (r.violated or r.error), {"tail": r.out[-2000:]})
    scripts = [x["script"] for x in r.replay]
    if not scripts:
        raise vlib.ToolError("no scripts exported")
    c.cov["scripts_in_model"] = len(scripts)
    events = asyncio.run(drive(c, tier, scripts, rnd))

    def rerun(label, desc):
        """True if one of two fresh runs of the scenario is accepted."""
        conf = {x.label: x for x in e2e.udp_matrix()}[label]
        for k in range(2):
            ev = asyncio.run(execute(conf, [desc], tag="c02r"))
            p = os.path.join(vlib.WORK, "c02", "rerun.ndjson")
            e2e.write_ndjson(p, ev)
            acc, matched, r = vlib.validate_trace("TraceUdp", "TraceUdp.cfg", p)
            if acc:
                return True
        return False

    for what, seg in judge(c, "c02", events, rerun=rerun):
        c.violation(what, {"history": seg})
    segs = split(events)
    c.sample({"history": segs[0][:14]})
    sizes = sorted({e["len"] for e in events if e["ev"] == "TgtGot"})
    c.cov["payload_sizes_delivered"] = {"distinct": len(sizes), "min": sizes[0] if sizes else None, "max": sizes[-1] if sizes else None}
    c.cov["datagrams_sent"] = sum(1 for e in events if e["ev"] == "AppSent")
    c.cov["replies_sent"] = sum(1 for e in events if e["ev"] == "TgtReplied")
    self_test(c, segs)
    c.assumptions += [
        "loopback only; datagrams are paced (at most 3 outstanding) so that loopback loses none: at Settle every datagram the path can "
        "carry (payload <= 65 000 bytes; <= 16 000 for VMess, whose chunk holds at most 16 KiB) must have arrived; larger ones may be dropped whole",
        "IPv4 and domain-name targets (the server's outbound sockets are IPv4); VMess replies only from the addressed target (its frames carry no address)",
        "binding TTL (600 s) and association TTL (300 s) expiry are covered by the model only; capacity eviction (64) is executed",
        "datagrams shorter than the 16-byte identity header are recognised by their length, each length once per history",
    ]
    return c.finish()


def self_test(c, segs):
    """binding: a wrong label, a wrong owner and a lost datagram must each be rejected by TLC"""
    wd = os.path.join(vlib.WORK, "c02")
    seg = next((s for s in segs if sum(1 for e in s if e["ev"] == "AppGot") >= 2), None)
    if seg is None:
        return
    res = []
    for name, mut in (("label", lambda e: e.update(label=e["label"] % 4 + 1)), ("owner", lambda e: e.update(app=e["app"] + 1)),
                      ("length", lambda e: e.update(len=e["len"] + 1))):
        s2 = copy.deepcopy(seg)
        e = next(x for x in s2 if x["ev"] == "AppGot")
        mut(e)
        p = os.path.join(wd, "selftest_%s.ndjson" % name)
        e2e.write_ndjson(p, s2)
        acc, matched, r = vlib.validate_trace("TraceUdp", "TraceUdp.cfg", p)
        if acc:
            raise vlib.ToolError("binding self-test failed: corrupted %s accepted" % name)
        res.append("%s corrupted -> rejected at event %d" % (name, matched + 1))
    s2 = [e for e in copy.deepcopy(seg)]
    drop = next(i for i, x in enumerate(s2) if x["ev"] == "TgtGot")
    pid = s2[drop]["pid"]
    s2 = [e for e in s2 if not (e["ev"] == "TgtGot" and e["pid"] == pid)]
    # without the arrival the replies to it have no owner either: remove them as well, Settle must still object
    p = os.path.join(wd, "selftest_lost.ndjson")
    e2e.write_ndjson(p, s2)
    acc, matched, r = vlib.validate_trace("TraceUdp", "TraceUdp.cfg", p)
    if acc:
        raise vlib.ToolError("binding self-test failed: lost datagram accepted")
    res.append("arrival removed -> rejected at event %d" % (matched + 1))
    c.cov["binding_selftest"] = res


def replay(path):
    o = json.load(open(path))
    seg = o["replay"].get("history")
    if not seg:
        print(json.dumps(o, indent=1)[:3000])
        return 0
    p = os.path.join(vlib.WORK, "replay_c02.ndjson")
    e2e.write_ndjson(p, seg)
    acc, matched, r = vlib.validate_trace("TraceUdp", "TraceUdp.cfg", p)
    print("recorded history: accepted=%s matched=%d of %d" % (acc, matched, len(seg)))
    if not acc:
        print("VIOLATION property=C02 replay=%s" % path)
        return 1
    return 0
