"""C07 — no input from the network can crash a task or the process (DESIGN 5.7, reduced scope: panics/aborts)."""
import json
import os
import random

from lib import vlib
from lib.vlib import Check, tlc, tlc_parallel, vh_json_lines, validate_trace
from checks import c04, c13


def run(tier):
    c = Check("C07", tier, "model_checking")
    c.cov["traces_validated_against_impl"] = 0
    # 1. model: guard structure is complete for every layout, adapter, segmentation, tamper point and end of stream
    jobs = [dict(module="MCStreamCodec", cfg="MCStreamCodec_%s_%s_tamper.cfg" % (l, a), workers=2, timeout=1200, heap="3g")
            for l in c04.LAYOUTS for a in (("framed", "ws") if tier == "thorough" else ("framed",))]
    jobs += [dict(module="MCLocalHandshake", cfg="MCLocalHandshake_%s.cfg" % k, workers=1, timeout=600, heap="2g") for k in c13.KINDS]
    jobs.append(dict(module="MCMalformed", cfg="MCMalformed.cfg", workers=1, timeout=600, heap="2g"))
    res = tlc_parallel(jobs, 6)
    for j, r in zip(jobs, res):
        c.tlc_stats(r)
        if not r.ok:
            c.violation("model: %s violated in %s" % (r.violated or r.error, j["cfg"]), {"cfg": j["cfg"], "tail": r.out[-3000:]})
    malformed = res[-1].replay
    devs = {"NoGuard": ("MCStreamCodec", "MCStreamCodec_dev_NoGuard.cfg"), "ShortGuard": ("MCStreamCodec", "MCStreamCodec_dev_ShortGuard.cfg"),
            "Unchecked": ("MCMalformed", "MCMalformed_dev_Unchecked.cfg"), "SocksNoGuard": ("MCLocalHandshake", "MCLocalHandshake_dev_NoGuard.cfg"),
            "UnwrapEof": ("MCLocalHandshake", "MCLocalHandshake_dev_UnwrapEof.cfg")}
    seen = {}
    for (d, (mod, cfg)), r in zip(devs.items(), tlc_parallel([dict(module=m, cfg=f, workers=1, timeout=600, heap="2g") for m, f in devs.values()], 5)):
        seen[d] = r.violated
        if r.violated != "NoPanic":
            raise vlib.ToolError("anti-vacuity: deviation %s not detected as a panic by the model (%r)" % (d, r.violated))
    c.cov["deviations_detected_by_model"] = seen
    # 2. spec -> impl: the malformed-content catalogue (right keys, wrong content)
    if not malformed:
        raise vlib.ToolError("no malformed catalogue")
    c.sample(malformed[0]); c.sample(malformed[len(malformed) // 2])
    rows = vh_json_lines(["c07-malformed", "--seed", vlib.seed()], stdin="\n".join(json.dumps(s) for s in malformed) + "\n", timeout=900)
    n = 0
    for o in rows:
        if o.get("skipped"):
            raise vlib.ToolError("catalogue case not implemented by the harness: %s" % json.dumps(o["scenario"]))
        n += 1
        if not o["ok"]:
            sc = o["scenario"]
            c.violation("malformed content %s/%s (%s): model allows %s, real decoder: %s (%s)" % (sc["dec"], sc["class"], o["variant"], sc["allowed"], o["got"], o["detail"]), o)
    c.add("malformed_cases_replayed", n)
    # 3. spec -> impl: garbage classes made concrete: exhaustive short inputs, random inputs, every truncation + end of stream
    args = ["c07-garbage", "--seed", vlib.seed(), "--random", 120 if tier == "quick" else 4000]
    if tier == "thorough":
        args.append("--exhaustive2")
    g = vh_json_lines(args, timeout=6000)[-1]
    c.add("garbage_inputs", g["inputs"])
    c.cov["garbage_targets"] = g["targets"]
    c.cov["garbage_outcomes"] = g["outcomes"]
    for e in g["examples"]:
        c.violation("panic in %s on %s: %s" % (e["target"], e["what"], e["panic"]), e)
    if g["panics"] and not g["examples"]:
        c.violation("%d panics" % g["panics"], g)
    # 4. local port: garbage, malformed requests and early closes over real TCP
    scen = [s for s in c13.local_scenarios(c) if s["kind"] == "garbage" or not s["wellformed"] or 0 in s["hist"]]
    if tier == "quick":
        scen = random.Random(vlib.seed()).sample(scen, min(len(scen), 300))
    rows = vh_json_lines(["c13-local", "--seed", vlib.seed() + 7], stdin="\n".join(json.dumps(s) for s in scen) + "\n", timeout=3000)
    k = 0
    for o in rows:
        if "tool_error" in o:
            raise vlib.ToolError(str(o["tool_error"]))
        k += 1
        if o["obs"].get("panicked"):
            c.violation("local handshake task panicked on %s %s: %s" % (o["scenario"]["kind"], o["scenario"]["hist"], o["obs"]["result"]), o)
    c.add("local_hostile_behaviours_replayed", k)
    # 4b. request targets that are no target of the grammar (unbalanced brackets, empty bracket pair, multi-byte characters
    #     behind a bracket) on the real authority parser: refused or taken literally, never a panic
    rt = tlc("MCHttpTarget", "MCHttpTarget.cfg", workers=2, timeout=900)
    hostile = [x for x in rt.replay if x["expect"]["kind"] == "lenient"]
    if not hostile:
        raise vlib.ToolError("no hostile request targets exported")
    extra = []
    for x in hostile:
        for junk in ("\u00e9", "\u4e2d", "%"):
            if "[" in x["uri"]:
                y = json.loads(json.dumps(x))
                y["uri"] = x["uri"].replace("[", "[" + junk, 1)
                y["expect"]["host"] = x["expect"]["host"].replace("[", "[" + junk, 1)
                extra.append(y)
    rows = vh_json_lines(["c13-grammar"], stdin="\n".join(json.dumps(s) for s in hostile + extra) + "\n", timeout=900)
    for o in rows:
        if o.get("summary"):
            c.add("hostile_request_targets_replayed", o["targets"])
        elif o["got"]["kind"] == "panic":
            c.violation("the local authority parser panicked on request target %s %r: %s" % (o["scenario"]["method"], o["scenario"]["uri"], o.get("detail")), o)
    # 5. impl -> spec: attacked / truncated runs of every decoder (Trojan included), NoPanic in every state
    wd = vlib.workdir("c07")
    ok = 0
    for i, runs in enumerate([500] if tier == "quick" else [3000, 3000]):
        path = os.path.join(wd, "runs_%d.ndjson" % i)
        res = vh_json_lines(["c05-record", "--seed", vlib.seed() * 100 + 50 + i, "--runs", runs, "--out", path, "--trojan"], timeout=3000)[-1]
        c.add("recorded_runs", res["runs"])
        acc, matched, r = validate_trace("TraceStreamCodec", "TraceStreamCodec.cfg", path, timeout=3000, heap="6g")
        c.tlc_stats(r)
        if acc:
            ok += 1
            c.add("trace_events", matched)
        else:
            c.violation("a recorded hostile run is not a behaviour of the StreamCodec design (%s; first unmatched line %d)" %
                        (r.violated or "observation differs", matched), {"trace": path, "harness_view": (res.get("examples") or [])[:5], "tail": r.out[-1500:]})
    c.add("traces_validated_against_impl", ok)
    c.assumptions += [
        "only panics / aborts are observable; undefined behaviour that does not crash is not claimed (DESIGN 5.7)",
        "garbage classes are concretised by exhaustive inputs up to 1 byte (2 bytes: strided in the quick tier, exhaustive in thorough), seeded random inputs and every truncation of valid streams",
    ]
    return c.finish()


def replay(path):
    print(json.dumps(json.load(open(path)), indent=1)[:4000])
    return 0
