"""C14 — addresses survive encoding exactly or are refused (DESIGN 5.14)."""
import json

from lib import vlib
from lib.vlib import Check, tlc, vh_json_lines


def run(tier):
    c = Check("C14", tier, "model_checking")
    c.cov["traces_validated_against_impl"] = 0
    cfg = "MCAddress.cfg" if tier == "quick" else "MCAddress_all.cfg"
    r = tlc("MCAddress", cfg, workers=8, timeout=3000, heap="6g")
    c.tlc_stats(r)
    if not r.ok:
        c.violation("model: %s violated in %s" % (r.violated or r.error, cfg), {"tail": r.out[-3000:]})
    d = tlc("MCAddress", "MCAddress_dev_NoDoorCheck.cfg", workers=2, timeout=600)
    if d.violated != "ExactOrRefused":
        raise vlib.ToolError("anti-vacuity: deviation NoDoorCheck not detected by the model")
    c.cov["deviations_detected_by_model"] = {"NoDoorCheck": d.violated}
    if not r.replay:
        raise vlib.ToolError("no scenarios")
    c.sample(r.replay[0]); c.sample(r.replay[len(r.replay) // 2]); c.sample(r.replay[-1])
    rows = vh_json_lines(["c14-replay", "--seed", vlib.seed()], stdin="\n".join(json.dumps(s) for s in r.replay) + "\n", timeout=6000)
    doors = {}
    for o in rows:
        doors[o["door"]] = doors.get(o["door"], 0) + 1
        if not o["ok"]:
            sc = o["scenario"]
            c.violation("%s address (%s) of %s bytes, %s encoding, entered through the %s door: model says %s, real code: %s" %
                        (sc["kind"], sc.get("shape"), sc["n"], sc["style"], o["door"], sc["expect"], o["outcome"]), o)
    c.add("address_cases_replayed", len(rows))
    c.cov["cases_per_door"] = doors
    if not rows:
        raise vlib.ToolError("nothing replayed")
    c.assumptions += [
        "names enter through the client's real doors: SOCKS5 request (0..255 bytes, incl. multi-byte UTF-8), HTTP request line / CONNECT (1..900 bytes; longer lines exceed the 1024-byte sniff buffer and are refused there), local SOCKS5-UDP datagram",
        "host names come in four shapes: ASCII, well-formed two- and three-byte UTF-8 characters (fewer characters than bytes; all doors), and bytes that are no well-formed UTF-8 (SOCKS5 doors only: the HTTP doors take text); IPv4 / IPv6 literals in the special ranges (unspecified, loopback, IPv4-compatible, IPv4-mapped, link-local, multicast); ports 0, 1, 255, 256, 0x0d0a, 0xff00, 65535 besides the usual ones",
        "what a door hands on is compared byte by byte (kind, host bytes, port) with what was asked for, before the encoder sees it",
    ]
    return c.finish()


def replay(path):
    o = json.load(open(path))
    sc = o["replay"].get("scenario")
    rows = vh_json_lines(["c14-replay"], stdin=json.dumps(sc) + "\n", timeout=600)
    print(json.dumps(rows, indent=1))
    if any(not r["ok"] for r in rows):
        print("VIOLATION property=C14 replay=%s" % path)
        return 1
    return 0
