//! Reference codec: an independent implementation of the published wire formats (SIP004/SIP007 AEAD,
//! SIP022/SIP023 Shadowsocks 2022 + EIH, VMess AEAD, Trojan), written from the specifications with
//! RustCrypto primitives only — nothing from octo-squirrel's codec modules is used here.
//! It is both a *builder* (of valid and deliberately invalid messages) and an *opener* that turns
//! bytes produced by the code under test into symbolic units for the TLA+ trace specifications.
#![allow(dead_code)]

use aes::cipher::BlockDecrypt;
use aes::cipher::BlockEncrypt;
use aes::cipher::KeyInit as _;
use aes_gcm::aead::AeadInPlace;
use aes_gcm::aead::KeyInit;

#[derive(Clone, Copy, Debug, PartialEq, Eq)]
pub enum Cipher {
    Aes128Gcm,
    Aes256Gcm,
    ChaCha20Poly1305,
    Aes128Gcm2022,
    Aes256Gcm2022,
    ChaCha8Poly1305_2022,
    ChaCha20Poly1305_2022,
}

impl Cipher {
    pub fn from_name(s: &str) -> Option<Self> {
        Some(match s {
            "aes-128-gcm" => Self::Aes128Gcm,
            "aes-256-gcm" => Self::Aes256Gcm,
            "chacha20-poly1305" | "chacha20-ietf-poly1305" => Self::ChaCha20Poly1305,
            "2022-blake3-aes-128-gcm" => Self::Aes128Gcm2022,
            "2022-blake3-aes-256-gcm" => Self::Aes256Gcm2022,
            "2022-blake3-chacha8-poly1305" => Self::ChaCha8Poly1305_2022,
            "2022-blake3-chacha20-poly1305" => Self::ChaCha20Poly1305_2022,
            _ => return None,
        })
    }

    pub fn name(&self) -> &'static str {
        match self {
            Self::Aes128Gcm => "aes-128-gcm",
            Self::Aes256Gcm => "aes-256-gcm",
            Self::ChaCha20Poly1305 => "chacha20-poly1305",
            Self::Aes128Gcm2022 => "2022-blake3-aes-128-gcm",
            Self::Aes256Gcm2022 => "2022-blake3-aes-256-gcm",
            Self::ChaCha8Poly1305_2022 => "2022-blake3-chacha8-poly1305",
            Self::ChaCha20Poly1305_2022 => "2022-blake3-chacha20-poly1305",
        }
    }

    pub fn key_len(&self) -> usize {
        match self {
            Self::Aes128Gcm | Self::Aes128Gcm2022 => 16,
            _ => 32,
        }
    }

    pub fn is_2022(&self) -> bool {
        matches!(self, Self::Aes128Gcm2022 | Self::Aes256Gcm2022 | Self::ChaCha8Poly1305_2022 | Self::ChaCha20Poly1305_2022)
    }

    pub fn is_2022_aes(&self) -> bool {
        matches!(self, Self::Aes128Gcm2022 | Self::Aes256Gcm2022)
    }

    pub const ALL: [Cipher; 7] = [
        Self::Aes128Gcm,
        Self::Aes256Gcm,
        Self::ChaCha20Poly1305,
        Self::Aes128Gcm2022,
        Self::Aes256Gcm2022,
        Self::ChaCha8Poly1305_2022,
        Self::ChaCha20Poly1305_2022,
    ];
}

pub const TAG: usize = 16;

/// AEAD seal with a 12-byte nonce; returns ciphertext || tag.
pub fn seal(c: Cipher, key: &[u8], nonce: &[u8; 12], plain: &[u8]) -> Vec<u8> {
    let mut buf = plain.to_vec();
    let n = nonce.into();
    match c {
        Cipher::Aes128Gcm | Cipher::Aes128Gcm2022 => aes_gcm::Aes128Gcm::new_from_slice(&key[..16]).unwrap().encrypt_in_place(n, &[], &mut buf).unwrap(),
        Cipher::Aes256Gcm | Cipher::Aes256Gcm2022 => aes_gcm::Aes256Gcm::new_from_slice(&key[..32]).unwrap().encrypt_in_place(n, &[], &mut buf).unwrap(),
        Cipher::ChaCha20Poly1305 | Cipher::ChaCha20Poly1305_2022 => {
            chacha20poly1305::ChaCha20Poly1305::new_from_slice(&key[..32]).unwrap().encrypt_in_place(n, &[], &mut buf).unwrap()
        }
        Cipher::ChaCha8Poly1305_2022 => chacha20poly1305::ChaCha8Poly1305::new_from_slice(&key[..32]).unwrap().encrypt_in_place(n, &[], &mut buf).unwrap(),
    }
    buf
}

/// AEAD open with a 12-byte nonce; `None` when authentication fails.
pub fn open(c: Cipher, key: &[u8], nonce: &[u8; 12], sealed: &[u8]) -> Option<Vec<u8>> {
    if sealed.len() < TAG {
        return None;
    }
    let mut buf = sealed.to_vec();
    let n = nonce.into();
    let r = match c {
        Cipher::Aes128Gcm | Cipher::Aes128Gcm2022 => aes_gcm::Aes128Gcm::new_from_slice(&key[..16]).unwrap().decrypt_in_place(n, &[], &mut buf),
        Cipher::Aes256Gcm | Cipher::Aes256Gcm2022 => aes_gcm::Aes256Gcm::new_from_slice(&key[..32]).unwrap().decrypt_in_place(n, &[], &mut buf),
        Cipher::ChaCha20Poly1305 | Cipher::ChaCha20Poly1305_2022 => {
            chacha20poly1305::ChaCha20Poly1305::new_from_slice(&key[..32]).unwrap().decrypt_in_place(n, &[], &mut buf)
        }
        Cipher::ChaCha8Poly1305_2022 => chacha20poly1305::ChaCha8Poly1305::new_from_slice(&key[..32]).unwrap().decrypt_in_place(n, &[], &mut buf),
    };
    r.ok().map(|_| buf)
}

/// Little-endian 96-bit counter nonce (Shadowsocks AEAD and 2022 streams).
pub fn le_nonce(counter: u64) -> [u8; 12] {
    let mut n = [0u8; 12];
    n[..8].copy_from_slice(&counter.to_le_bytes());
    n
}

// ------------------------------------------------------------------------------------------------
// key derivation

/// EVP_BytesToKey (MD5, no salt, one iteration) as used by legacy Shadowsocks passwords.
pub fn evp_bytes_to_key(password: &[u8], len: usize) -> Vec<u8> {
    use md5::Digest;
    let mut out: Vec<u8> = Vec::new();
    let mut prev: Vec<u8> = Vec::new();
    while out.len() < len {
        let mut h = md5::Md5::new();
        h.update(&prev);
        h.update(password);
        prev = h.finalize().to_vec();
        out.extend_from_slice(&prev);
    }
    out.truncate(len);
    out
}

/// HKDF-SHA1(salt, key, "ss-subkey") of the key's length (SIP007).
pub fn legacy_subkey(key: &[u8], salt: &[u8]) -> Vec<u8> {
    let hk = hkdf::Hkdf::<sha1::Sha1>::new(Some(salt), key);
    let mut okm = vec![0u8; key.len()];
    hk.expand(b"ss-subkey", &mut okm).unwrap();
    okm
}

/// BLAKE3 derive_key("shadowsocks 2022 session subkey", key || salt) (SIP022).
pub fn session_subkey(key: &[u8], salt: &[u8]) -> [u8; 32] {
    let mut m = key.to_vec();
    m.extend_from_slice(salt);
    blake3::derive_key("shadowsocks 2022 session subkey", &m)
}

pub fn identity_subkey(key: &[u8], salt: &[u8]) -> [u8; 32] {
    let mut m = key.to_vec();
    m.extend_from_slice(salt);
    blake3::derive_key("shadowsocks 2022 identity subkey", &m)
}

pub fn b64(s: &str) -> Vec<u8> {
    use base64ct::Encoding;
    base64ct::Base64::decode_vec(s).unwrap_or_default()
}

pub fn b64e(b: &[u8]) -> String {
    use base64ct::Encoding;
    base64ct::Base64::encode_string(b)
}

/// "iPSK1:iPSK2:uPSK" -> (last key, identity keys)
pub fn keys_2022(password: &str) -> (Vec<u8>, Vec<Vec<u8>>) {
    let mut all: Vec<Vec<u8>> = password.split(':').map(b64).collect();
    let last = all.pop().unwrap_or_default();
    (last, all)
}

pub fn aes_ecb_encrypt(key: &[u8], block: &mut [u8; 16]) {
    let b = aes::Block::from_mut_slice(block);
    if key.len() == 16 {
        aes::Aes128::new_from_slice(key).unwrap().encrypt_block(b)
    } else {
        aes::Aes256::new_from_slice(&key[..32]).unwrap().encrypt_block(b)
    }
}

pub fn aes_ecb_decrypt(key: &[u8], block: &mut [u8; 16]) {
    let b = aes::Block::from_mut_slice(block);
    if key.len() == 16 {
        aes::Aes128::new_from_slice(key).unwrap().decrypt_block(b)
    } else {
        aes::Aes256::new_from_slice(&key[..32]).unwrap().decrypt_block(b)
    }
}

// ------------------------------------------------------------------------------------------------
// addresses (SOCKS5 style)

#[derive(Clone, Debug, PartialEq, Eq)]
pub enum Addr {
    V4([u8; 4], u16),
    V6([u8; 16], u16),
    Domain(Vec<u8>, u16),
}

impl Addr {
    pub fn socks(&self) -> Vec<u8> {
        let mut v = Vec::new();
        match self {
            Addr::V4(ip, p) => {
                v.push(1);
                v.extend_from_slice(ip);
                v.extend_from_slice(&p.to_be_bytes());
            }
            Addr::Domain(h, p) => {
                v.push(3);
                v.push(h.len() as u8);
                v.extend_from_slice(h);
                v.extend_from_slice(&p.to_be_bytes());
            }
            Addr::V6(ip, p) => {
                v.push(4);
                v.extend_from_slice(ip);
                v.extend_from_slice(&p.to_be_bytes());
            }
        }
        v
    }

    /// Parse at the start of `b`; returns the address and the number of bytes consumed.
    pub fn parse_socks(b: &[u8]) -> Option<(Addr, usize)> {
        match *b.first()? {
            1 if b.len() >= 7 => Some((Addr::V4(b[1..5].try_into().ok()?, u16::from_be_bytes([b[5], b[6]])), 7)),
            3 if b.len() >= 2 && b.len() >= 4 + b[1] as usize => {
                let l = b[1] as usize;
                Some((Addr::Domain(b[2..2 + l].to_vec(), u16::from_be_bytes([b[2 + l], b[3 + l]])), 4 + l))
            }
            4 if b.len() >= 19 => Some((Addr::V6(b[1..17].try_into().ok()?, u16::from_be_bytes([b[17], b[18]])), 19)),
            _ => None,
        }
    }

    /// VMess style: port, type (1 v4, 2 domain, 3 v6), address.
    pub fn vmess(&self) -> Vec<u8> {
        let mut v = Vec::new();
        match self {
            Addr::V4(ip, p) => {
                v.extend_from_slice(&p.to_be_bytes());
                v.push(1);
                v.extend_from_slice(ip);
            }
            Addr::Domain(h, p) => {
                v.extend_from_slice(&p.to_be_bytes());
                v.push(2);
                v.push(h.len() as u8);
                v.extend_from_slice(h);
            }
            Addr::V6(ip, p) => {
                v.extend_from_slice(&p.to_be_bytes());
                v.push(3);
                v.extend_from_slice(ip);
            }
        }
        v
    }

    pub fn parse_vmess(b: &[u8]) -> Option<(Addr, usize)> {
        if b.len() < 3 {
            return None;
        }
        let p = u16::from_be_bytes([b[0], b[1]]);
        match b[2] {
            1 if b.len() >= 7 => Some((Addr::V4(b[3..7].try_into().ok()?, p), 7)),
            2 if b.len() >= 4 && b.len() >= 4 + b[3] as usize => Some((Addr::Domain(b[4..4 + b[3] as usize].to_vec(), p), 4 + b[3] as usize)),
            3 if b.len() >= 19 => Some((Addr::V6(b[3..19].try_into().ok()?, p), 19)),
            _ => None,
        }
    }

    pub fn to_octo(&self) -> octo_squirrel::protocol::address::Address {
        use octo_squirrel::protocol::address::Address;
        match self {
            Addr::V4(ip, p) => Address::Socket(std::net::SocketAddr::from((*ip, *p))),
            Addr::V6(ip, p) => Address::Socket(std::net::SocketAddr::from((*ip, *p))),
            Addr::Domain(h, p) => Address::Domain(String::from_utf8_lossy(h).into_owned(), *p),
        }
    }

    pub fn from_octo(a: &octo_squirrel::protocol::address::Address) -> Addr {
        use octo_squirrel::protocol::address::Address;
        match a {
            Address::Domain(h, p) => Addr::Domain(h.as_bytes().to_vec(), *p),
            Address::Socket(std::net::SocketAddr::V4(v)) => Addr::V4(v.ip().octets(), v.port()),
            Address::Socket(std::net::SocketAddr::V6(v)) => Addr::V6(v.ip().octets(), v.port()),
        }
    }
}

// ------------------------------------------------------------------------------------------------
// Shadowsocks stream (legacy AEAD and 2022)

/// One sealed unit of a stream, as the opener sees it.
#[derive(Clone, Debug)]
pub struct Unit {
    pub kind: &'static str, // "salt" "eih" "fixed" "var" "len" "pay"
    pub off: usize,         // offset in the stream
    pub wire_len: usize,    // bytes on the wire
    pub nonce: i64,         // counter that opened it (-1 = not sealed)
    pub plain: Vec<u8>,
}

/// Builder of one direction of a Shadowsocks stream.
pub struct SsStream {
    pub cipher: Cipher,
    pub key: Vec<u8>, // session subkey
    pub counter: u64,
    pub out: Vec<u8>,
    /// wire offsets where a sealed/unsealed unit ends (frame boundaries for segmentation scripts)
    pub bounds: Vec<usize>,
}

impl SsStream {
    fn new(cipher: Cipher, master: &[u8], salt: &[u8]) -> Self {
        let key = if cipher.is_2022() { session_subkey(master, salt).to_vec() } else { legacy_subkey(master, salt) };
        Self { cipher, key, counter: 0, out: Vec::new(), bounds: Vec::new() }
    }

    pub fn seal_unit(&mut self, plain: &[u8]) -> Vec<u8> {
        let n = le_nonce(self.counter);
        self.counter += 1;
        seal(self.cipher, &self.key, &n, plain)
    }

    fn push(&mut self, bytes: &[u8]) {
        self.out.extend_from_slice(bytes);
        self.bounds.push(self.out.len());
    }

    /// A chunk: sealed 2-byte length, sealed payload.
    pub fn chunk(&mut self, payload: &[u8]) {
        let l = self.seal_unit(&(payload.len() as u16).to_be_bytes());
        self.push(&l);
        let p = self.seal_unit(payload);
        self.push(&p);
    }
}

/// Parameters of a 2022 request header that a test may bend.
#[derive(Clone, Debug)]
pub struct Req2022 {
    pub typ: u8,
    pub ts: u64,
    pub addr: Addr,
    pub padding: usize,
    pub first_payload: Vec<u8>,
    pub salt: Vec<u8>,
}

/// SIP022 request: salt | [EIH..] | seal(type ts len) | seal(addr padlen padding payload).
/// `password` is "iPSK..:uPSK"; EIH blocks are produced for AES ciphers when identity keys exist.
pub fn ss2022_request(cipher: Cipher, password: &str, r: &Req2022) -> SsStream {
    let (key, ipsks) = keys_2022(password);
    let mut s = SsStream::new(cipher, &key, &r.salt);
    s.out.extend_from_slice(&r.salt);
    s.bounds.push(s.out.len());
    if cipher.is_2022_aes() && !ipsks.is_empty() {
        // EIH_i = AES-ECB(identity_subkey(iPSK_i, salt), blake3(next key)[..16])
        let mut chain: Vec<Vec<u8>> = ipsks.clone();
        chain.push(key.clone());
        for i in 0..ipsks.len() {
            let sub = identity_subkey(&chain[i], &r.salt);
            let mut block: [u8; 16] = blake3::hash(&chain[i + 1]).as_bytes()[..16].try_into().unwrap();
            aes_ecb_encrypt(&sub[..cipher.key_len()], &mut block);
            s.out.extend_from_slice(&block);
            s.bounds.push(s.out.len());
        }
    }
    let mut var = r.addr.socks();
    var.extend_from_slice(&(r.padding as u16).to_be_bytes());
    var.extend(std::iter::repeat(0xAAu8).take(r.padding));
    var.extend_from_slice(&r.first_payload);
    let mut fixed = vec![r.typ];
    fixed.extend_from_slice(&r.ts.to_be_bytes());
    fixed.extend_from_slice(&(var.len() as u16).to_be_bytes());
    let f = s.seal_unit(&fixed);
    s.push(&f);
    let v = s.seal_unit(&var);
    s.push(&v);
    s
}

/// SIP022 response: salt | seal(type ts request_salt len) | seal(payload) | chunks.
pub fn ss2022_response(cipher: Cipher, key: &[u8], salt: &[u8], typ: u8, ts: u64, request_salt: &[u8], first_payload: &[u8]) -> SsStream {
    let mut s = SsStream::new(cipher, key, salt);
    s.out.extend_from_slice(salt);
    s.bounds.push(s.out.len());
    let mut fixed = vec![typ];
    fixed.extend_from_slice(&ts.to_be_bytes());
    fixed.extend_from_slice(request_salt);
    fixed.extend_from_slice(&(first_payload.len() as u16).to_be_bytes());
    let f = s.seal_unit(&fixed);
    s.push(&f);
    let p = s.seal_unit(first_payload);
    s.push(&p);
    s
}

/// Legacy AEAD (SIP004): salt | chunks; the first chunk of a request starts with the address.
pub fn legacy_stream(cipher: Cipher, password: &str, salt: &[u8]) -> SsStream {
    let key = evp_bytes_to_key(password.as_bytes(), cipher.key_len());
    let mut s = SsStream::new(cipher, &key, salt);
    s.out.extend_from_slice(salt);
    s.bounds.push(s.out.len());
    s
}

/// Opener of one direction of a Shadowsocks stream: splits the wire bytes into units with the
/// counter that opens each. Stops at the first unit that does not open (`Err(offset)`).
pub struct SsOpened {
    pub salt: Vec<u8>,
    pub units: Vec<Unit>,
    pub failed_at: Option<usize>,
    pub rest: usize, // bytes left over (incomplete unit)
}

/// `header`: None = legacy (chunks only), Some(fixed_len) = 2022 with that fixed-header plaintext length.
pub fn open_ss_stream(cipher: Cipher, master: &[u8], wire: &[u8], eih_blocks: usize, header: Option<usize>) -> SsOpened {
    let n = cipher.key_len();
    let mut res = SsOpened { salt: Vec::new(), units: Vec::new(), failed_at: None, rest: 0 };
    if wire.len() < n {
        res.rest = wire.len();
        return res;
    }
    res.salt = wire[..n].to_vec();
    let key = if cipher.is_2022() { session_subkey(master, &res.salt).to_vec() } else { legacy_subkey(master, &res.salt) };
    let mut pos = n;
    for _ in 0..eih_blocks {
        if wire.len() < pos + 16 {
            res.rest = wire.len() - pos;
            return res;
        }
        res.units.push(Unit { kind: "eih", off: pos, wire_len: 16, nonce: -1, plain: wire[pos..pos + 16].to_vec() });
        pos += 16;
    }
    let mut counter: u64 = 0;
    let mut take = |kind: &'static str, len: usize, pos: &mut usize, res: &mut SsOpened| -> Option<Vec<u8>> {
        if wire.len() < *pos + len + TAG {
            res.rest = wire.len() - *pos;
            return None;
        }
        match open(cipher, &key, &le_nonce(counter), &wire[*pos..*pos + len + TAG]) {
            Some(p) => {
                res.units.push(Unit { kind, off: *pos, wire_len: len + TAG, nonce: counter as i64, plain: p.clone() });
                counter += 1;
                *pos += len + TAG;
                Some(p)
            }
            None => {
                res.failed_at = Some(*pos);
                None
            }
        }
    };
    if let Some(fixed_len) = header {
        let Some(fixed) = take("fixed", fixed_len, &mut pos, &mut res) else { return res };
        let l = u16::from_be_bytes([fixed[fixed_len - 2], fixed[fixed_len - 1]]) as usize;
        if take("var", l, &mut pos, &mut res).is_none() {
            return res;
        }
    }
    loop {
        if pos == wire.len() {
            return res;
        }
        let Some(lp) = take("len", 2, &mut pos, &mut res) else { return res };
        let l = u16::from_be_bytes([lp[0], lp[1]]) as usize;
        if take("pay", l, &mut pos, &mut res).is_none() {
            return res;
        }
    }
}

// ------------------------------------------------------------------------------------------------
// Shadowsocks 2022 datagrams

#[derive(Clone, Debug)]
pub struct Udp2022 {
    pub session_id: u64,
    pub packet_id: u64,
    pub typ: u8,
    pub ts: u64,
    pub client_session_id: Option<u64>, // present in server -> client packets
    pub padding: usize,
    pub addr: Addr,
    pub payload: Vec<u8>,
}

/// SIP022 UDP packet. AES: ECB(PSK, sid||pid) | [EIH] | seal(subkey(key, sid), nonce = header[4..16], body).
/// ChaCha: nonce24 | XChaCha-seal(PSK, sid pid body).  `password` may carry identity keys (client side).
pub fn udp2022_packet(cipher: Cipher, password: &str, p: &Udp2022, nonce24: &[u8; 24]) -> Vec<u8> {
    let (key, ipsks) = keys_2022(password);
    let mut body = vec![p.typ];
    body.extend_from_slice(&p.ts.to_be_bytes());
    if let Some(c) = p.client_session_id {
        body.extend_from_slice(&c.to_be_bytes());
    }
    body.extend_from_slice(&(p.padding as u16).to_be_bytes());
    body.extend(std::iter::repeat(0x55u8).take(p.padding));
    body.extend_from_slice(&p.addr.socks());
    body.extend_from_slice(&p.payload);
    let mut header = [0u8; 16];
    header[..8].copy_from_slice(&p.session_id.to_be_bytes());
    header[8..].copy_from_slice(&p.packet_id.to_be_bytes());
    if cipher.is_2022_aes() {
        let mut nonce = [0u8; 12];
        nonce.copy_from_slice(&header[4..16]);
        let mut out = Vec::new();
        let mut sealed_header = header;
        let header_key = if ipsks.is_empty() { key.clone() } else { ipsks[0].clone() };
        aes_ecb_encrypt(&header_key[..cipher.key_len()], &mut sealed_header);
        out.extend_from_slice(&sealed_header);
        if !ipsks.is_empty() {
            let mut chain = ipsks.clone();
            chain.push(key.clone());
            for i in 0..ipsks.len() {
                let mut block: [u8; 16] = blake3::hash(&chain[i + 1]).as_bytes()[..16].try_into().unwrap();
                for (b, h) in block.iter_mut().zip(header.iter()) {
                    *b ^= *h;
                }
                aes_ecb_encrypt(&chain[i][..cipher.key_len()], &mut block);
                out.extend_from_slice(&block);
            }
        }
        let sub = session_subkey(&key, &p.session_id.to_be_bytes());
        out.extend_from_slice(&seal(cipher, &sub, &nonce, &body));
        out
    } else {
        use chacha20poly1305::aead::Aead;
        let mut plain = header.to_vec();
        plain.extend_from_slice(&body);
        let mut out = nonce24.to_vec();
        let ct = match cipher {
            Cipher::ChaCha8Poly1305_2022 => chacha20poly1305::XChaCha8Poly1305::new_from_slice(&key[..32]).unwrap().encrypt(nonce24.into(), &plain[..]).unwrap(),
            _ => chacha20poly1305::XChaCha20Poly1305::new_from_slice(&key[..32]).unwrap().encrypt(nonce24.into(), &plain[..]).unwrap(),
        };
        out.extend_from_slice(&ct);
        out
    }
}

/// Open a 2022 datagram with `key` (the PSK, or for multi-user servers' replies the user key).
/// `header_key` decrypts the separate header (AES only). `s2c`: the body carries the client session id.
pub fn open_udp2022(cipher: Cipher, key: &[u8], header_key: &[u8], eih_blocks: usize, s2c: bool, wire: &[u8]) -> Option<Udp2022> {
    let (sid, pid, body) = if cipher.is_2022_aes() {
        if wire.len() < 16 + 16 * eih_blocks + TAG {
            return None;
        }
        let mut header: [u8; 16] = wire[..16].try_into().ok()?;
        aes_ecb_decrypt(&header_key[..cipher.key_len()], &mut header);
        let sid = u64::from_be_bytes(header[..8].try_into().ok()?);
        let pid = u64::from_be_bytes(header[8..].try_into().ok()?);
        let mut nonce = [0u8; 12];
        nonce.copy_from_slice(&header[4..16]);
        let sub = session_subkey(key, &sid.to_be_bytes());
        let body = open(cipher, &sub, &nonce, &wire[16 + 16 * eih_blocks..])?;
        (sid, pid, body)
    } else {
        use chacha20poly1305::aead::Aead;
        if wire.len() < 24 + 16 + TAG {
            return None;
        }
        let nonce: [u8; 24] = wire[..24].try_into().ok()?;
        let pt = match cipher {
            Cipher::ChaCha8Poly1305_2022 => chacha20poly1305::XChaCha8Poly1305::new_from_slice(&key[..32]).ok()?.decrypt((&nonce).into(), &wire[24..]).ok()?,
            _ => chacha20poly1305::XChaCha20Poly1305::new_from_slice(&key[..32]).ok()?.decrypt((&nonce).into(), &wire[24..]).ok()?,
        };
        let sid = u64::from_be_bytes(pt[..8].try_into().ok()?);
        let pid = u64::from_be_bytes(pt[8..16].try_into().ok()?);
        (sid, pid, pt[16..].to_vec())
    };
    let mut pos = 0;
    let typ = *body.first()?;
    pos += 1;
    let ts = u64::from_be_bytes(body.get(pos..pos + 8)?.try_into().ok()?);
    pos += 8;
    let mut csid = None;
    if s2c {
        csid = Some(u64::from_be_bytes(body.get(pos..pos + 8)?.try_into().ok()?));
        pos += 8;
    }
    let padding = u16::from_be_bytes(body.get(pos..pos + 2)?.try_into().ok()?) as usize;
    pos += 2 + padding;
    let (addr, n) = Addr::parse_socks(body.get(pos..)?)?;
    pos += n;
    Some(Udp2022 { session_id: sid, packet_id: pid, typ, ts, client_session_id: csid, padding, addr, payload: body[pos..].to_vec() })
}

/// Legacy AEAD datagram: salt | seal(subkey, nonce 0, addr payload).
pub fn legacy_udp_packet(cipher: Cipher, password: &str, salt: &[u8], addr: &Addr, payload: &[u8]) -> Vec<u8> {
    let key = evp_bytes_to_key(password.as_bytes(), cipher.key_len());
    let sub = legacy_subkey(&key, salt);
    let mut plain = addr.socks();
    plain.extend_from_slice(payload);
    let mut out = salt.to_vec();
    out.extend_from_slice(&seal(cipher, &sub, &le_nonce(0), &plain));
    out
}

pub fn open_legacy_udp(cipher: Cipher, key: &[u8], wire: &[u8]) -> Option<(Addr, Vec<u8>)> {
    let n = cipher.key_len();
    if wire.len() < n + TAG {
        return None;
    }
    let sub = legacy_subkey(key, &wire[..n]);
    let plain = open(cipher, &sub, &le_nonce(0), &wire[n..])?;
    let (a, k) = Addr::parse_socks(&plain)?;
    Some((a, plain[k..].to_vec()))
}

pub fn unix_now() -> u64 {
    std::time::SystemTime::now().duration_since(std::time::UNIX_EPOCH).map(|d| d.as_secs()).unwrap_or(0)
}
