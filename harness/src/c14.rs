//! C14: addresses survive encoding exactly or are refused. Each case of Address.tla enters through the
//! client's real door (SOCKS5 request or HTTP request line over loopback TCP, or the local UDP decoder),
//! and every admitted address goes through the real encoder and decoder of the chosen style with a tail.

use std::time::Duration;

use bytes::Bytes;
use bytes::BytesMut;
use octo_squirrel::protocol::address::Address;
use octo_squirrel::protocol::socks5::address as s5;
use octo_squirrel::protocol::socks5::codec::Socks5UdpCodec;
use octo_squirrel::protocol::vmess::address as vm;
use octo_squirrel_client::client::verif as cv;
use serde_json::Value;
use serde_json::json;
use tokio::io::AsyncReadExt;
use tokio::io::AsyncWriteExt;
use tokio::net::TcpListener;
use tokio::net::TcpStream;
use tokio_util::codec::Decoder;

use crate::util;

fn ascii_name(n: usize, flavour: usize) -> Vec<u8> {
    let mut v: Vec<u8> = (0..n).map(|i| b"abcdefghijklmnopqrstuvwxyz0123456789-."[(i * 7 + flavour) % 38]).collect();
    if n > 0 && (v[n - 1] == b'.' || v[n - 1] == b'-') {
        v[n - 1] = b'z';
    }
    if n > 0 && (v[0] == b'.' || v[0] == b'-') {
        v[0] = b'a';
    }
    v
}

/// A host name of exactly `n` BYTES of the given shape (see Address.tla).
fn name_of(n: usize, shape: &str, flavour: usize) -> Vec<u8> {
    match shape {
        "utf8x2" | "utf8x3" => {
            // well-formed multi-byte characters: fewer characters than bytes
            let ch: &[&str] = if shape == "utf8x2" { &["é", "ü", "ø", "ж"] } else { &["日", "本", "語", "한"] };
            let k = ch[0].len();
            let mut v = Vec::with_capacity(n);
            let mut i = flavour;
            while v.len() + k <= n {
                v.extend_from_slice(ch[i % ch.len()].as_bytes());
                i += 1;
            }
            while v.len() < n {
                v.push(b'a' + (v.len() % 26) as u8);
            }
            v
        }
        "latin1" => {
            // bytes that are no well-formed UTF-8 (a lone continuation / start byte between ASCII letters)
            let mut v = ascii_name(n, flavour);
            for i in (1..n.saturating_sub(1)).step_by(5) {
                v[i] = [0xe9u8, 0xfc, 0x80, 0xc3, 0xff][(i + flavour) % 5];
            }
            if n > 0 && n < 3 {
                v[n - 1] = 0xe9; // a start byte with nothing behind it
            }
            v
        }
        "dotted" => {
            let mut v = ascii_name(n, flavour);
            if n >= 2 {
                v[n - 1] = b'.';
                if v[n - 2] == b'.' || v[n - 2] == b'-' {
                    v[n - 2] = b'x';
                }
            }
            v
        }
        "dotdigits" => (0..n).map(|i| if i % 4 == 3 { b'.' } else { b'0' + ((i + flavour) % 10) as u8 }).collect(),
        "upper" => ascii_name(n, flavour).iter().map(|b| b.to_ascii_uppercase()).collect(),
        _ => ascii_name(n, flavour),
    }
}

fn v6_of(shape: &str) -> Vec<std::net::Ipv6Addr> {
    let p = |s: &str| s.parse::<std::net::Ipv6Addr>().unwrap();
    match shape {
        "unspecified" => vec![p("::")],
        "loopback" => vec![p("::1")],
        "v4compat" => vec![p("::1.2.3.4"), p("::0.0.1.0"), p("::255.255.255.255")],
        "v4mapped" => vec![p("::ffff:1.2.3.4"), p("::ffff:127.0.0.1"), p("::ffff:0.0.0.0")],
        "linklocal" => vec![p("fe80::1"), p("fe80::aaaa:bbbb:cccc:dddd")],
        "multicast" => vec![p("ff02::1"), p("ff0e::fb")],
        _ => vec![p("2001:db8:1:2:3:4:5:6"), p("ffff:ffff:ffff:ffff:ffff:ffff:ffff:ffff"), p("64:ff9b::c000:221")],
    }
}

fn v4_of(shape: &str) -> Vec<[u8; 4]> {
    match shape {
        "zero" => vec![[0, 0, 0, 0], [0, 0, 0, 1]],
        "broadcast" => vec![[255, 255, 255, 255]],
        "loopback" => vec![[127, 0, 0, 1], [127, 255, 255, 254]],
        _ => vec![[192, 0, 2, 55], [10, 0, 0, 1], [1, 2, 3, 4]],
    }
}

/// Present a target at the client's TCP door; returns what the real handshake made of it.
async fn door(request: Vec<Vec<u8>>, wait_reply: Vec<usize>) -> Result<Address, String> {
    let listener = TcpListener::bind("127.0.0.1:0").await.map_err(|e| e.to_string())?;
    let port = listener.local_addr().map_err(|e| e.to_string())?.port();
    let proxy = tokio::spawn(async move {
        let (mut s, _) = listener.accept().await.map_err(|e| e.to_string())?;
        cv::get_request_addr(&mut s).await.map_err(|e| e.to_string())
    });
    let mut app = TcpStream::connect(("127.0.0.1", port)).await.map_err(|e| e.to_string())?;
    for (msg, reply) in request.iter().zip(wait_reply.iter()) {
        if app.write_all(msg).await.is_err() {
            break;
        }
        if *reply > 0 {
            let mut r = vec![0u8; *reply];
            if tokio::time::timeout(Duration::from_millis(1500), app.read_exact(&mut r)).await.is_err() {
                break;
            }
        }
    }
    match tokio::time::timeout(Duration::from_secs(35), proxy).await {
        Ok(Ok(r)) => r,
        Ok(Err(e)) => Err(if e.is_panic() { format!("PANIC {e}") } else { e.to_string() }),
        Err(_) => Err("handshake still waiting".to_owned()),
    }
}

fn socks5_request(atyp: u8, body: &[u8], port: u16) -> (Vec<Vec<u8>>, Vec<usize>) {
    let mut req = vec![5u8, 1, 0, atyp];
    req.extend_from_slice(body);
    req.extend_from_slice(&port.to_be_bytes());
    (vec![vec![5, 1, 0], req], vec![2, 0])
}

/// encode + tail -> decode with the real codecs of `style`; "exact" | "altered: .." | "refused: .." | "panic: .."
fn roundtrip(style: &str, addr: &Address, tail: &[u8]) -> String {
    let r = util::catch(|| {
        if style == "socks5" {
            let mut w = BytesMut::new();
            s5::encode(addr, &mut w);
            if w.len() != s5::length(addr) {
                return format!("altered: length() says {} but {} bytes were written", s5::length(addr), w.len());
            }
            if s5::try_decode_at(&w, 0).ok() != Some(w.len()) {
                return format!("altered: try_decode_at says {:?} for {} encoded bytes", s5::try_decode_at(&w, 0).ok(), w.len());
            }
            w.extend_from_slice(tail);
            match s5::decode(&mut w) {
                Ok(d) if d == *addr && bytes_of(&d) == bytes_of(addr) && w[..] == *tail => "exact".to_owned(),
                Ok(d) => format!("altered: decoded {} (host {} bytes), {} bytes left instead of {}", d, host_len(&d), w.len(), tail.len()),
                Err(e) => format!("altered: receiver cannot decode: {e}"),
            }
        } else {
            let mut w = BytesMut::new();
            if let Err(e) = vm::write_address_port(addr, &mut w) {
                return format!("refused: {e}");
            }
            w.extend_from_slice(tail);
            let mut b: Bytes = w.freeze();
            match vm::read_address_port(&mut b) {
                Ok(d) if d == *addr && bytes_of(&d) == bytes_of(addr) && b[..] == *tail => "exact".to_owned(),
                Ok(d) => format!("altered: decoded {} (host {} bytes), {} bytes left instead of {}", d, host_len(&d), b.len(), tail.len()),
                Err(e) => format!("altered: receiver cannot decode: {e}"),
            }
        }
    });
    r.unwrap_or_else(|p| format!("panic: {p}"))
}

/// The same address through the protocols that carry it: the real client codec writes its first message (address + `tail`
/// as the first payload, or one byte when the tail is empty), the real server codec of that protocol reads it and must
/// yield a connect item for exactly that address with exactly that payload - at once, whatever the payload's length.
fn via_codecs(style: &str, addr: &Address, tail: &[u8]) -> String {
    use tokio_util::codec::Encoder;

    use crate::refcodec::Cipher;
    use crate::sut;
    use octo_squirrel_server::server::verif as sv;
    let payload: Vec<u8> = if tail.is_empty() { vec![0x7e] } else { tail.to_vec() };
    let pairs: Vec<(String, String, String)> = if style == "socks5" {
        vec![
            ("trojan".to_owned(), sut::trojan_client_cfg(sut::TROJAN_PW), sut::trojan_server_cfg(sut::TROJAN_PW)),
            ("ss aes-128-gcm".to_owned(), sut::ss_client_cfg(Cipher::Aes128Gcm, 0), sut::ss_server_cfg(Cipher::Aes128Gcm, 0)),
            ("ss 2022-blake3-aes-128-gcm".to_owned(), sut::ss_client_cfg(Cipher::Aes128Gcm2022, 0), sut::ss_server_cfg(Cipher::Aes128Gcm2022, 0)),
        ]
    } else {
        vec![("vmess".to_owned(), sut::vmess_client_cfg("aes-128-gcm", sut::UUID_A), sut::vmess_server_cfg(&[sut::UUID_A]))]
    };
    for (name, ccfg, scfg) in pairs {
        let r = util::catch(|| -> String {
            let mut client = match cv::tcp_codec(&ccfg, addr) {
                Ok(c) => c,
                Err(e) => return format!("refused: {name} client codec: {e}"),
            };
            let mut wire = BytesMut::new();
            if let Err(e) = client.encode(BytesMut::from(&payload[..]), &mut wire) {
                return format!("refused: {name} client encode: {e}");
            }
            let listener = match sv::listener(&scfg) {
                Ok(l) => l,
                Err(e) => return format!("altered: {name} server listener: {e}"),
            };
            let mut server = match listener.new_codec() {
                Ok(c) => c,
                Err(e) => return format!("altered: {name} server codec: {e}"),
            };
            match sut::server_decode(&mut server, &mut wire) {
                sut::Got::Connect(p, a) if a == addr.to_string() && p == payload => "exact".to_owned(),
                sut::Got::Connect(p, a) => format!("altered: {name} server connects to {a} with {} payload bytes instead of {} with {}", p.len(), addr, payload.len()),
                other => format!("altered: {name} server does not connect for {} + {} payload bytes: {:?}", addr, payload.len(), other),
            }
        });
        match r {
            Ok(s) if s == "exact" => {}
            Ok(s) => return s,
            Err(p) => return format!("panic: {name}: {p}"),
        }
    }
    "exact".to_owned()
}

fn host_len(a: &Address) -> usize {
    match a {
        Address::Domain(h, _) => h.len(),
        _ => 0,
    }
}

fn bytes_of(a: &Address) -> (Vec<u8>, u16, &'static str) {
    match a {
        Address::Domain(h, p) => (h.as_bytes().to_vec(), *p, "domain"),
        Address::Socket(std::net::SocketAddr::V4(x)) => (x.ip().octets().to_vec(), x.port(), "v4"),
        Address::Socket(std::net::SocketAddr::V6(x)) => (x.ip().octets().to_vec(), x.port(), "v6"),
    }
}

async fn run_case(sc: &Value, flavour: usize) -> Vec<Value> {
    let style = sc["style"].as_str().unwrap_or("socks5");
    let kind = sc["kind"].as_str().unwrap_or("domain");
    let shape = sc["shape"].as_str().unwrap_or("ascii");
    let n = sc["n"].as_u64().unwrap_or(0) as usize;
    let tail: Vec<u8> = (0..sc["tail"].as_u64().unwrap_or(0)).map(|i| 0xE0 + i as u8).collect();
    let port: u16 = [80u16, 443, 0, 65535, 8080, 1, 255, 256, 0x0d0a, 0xff00][flavour % 10];
    // (door, what was asked for, what the door handed on)
    let mut doors: Vec<(&str, (Vec<u8>, u16, &'static str), Result<Address, String>)> = Vec::new();
    match kind {
        "v4" => {
            for ip in v4_of(shape) {
                let (m, r) = socks5_request(1, &ip, port);
                doors.push(("socks5", (ip.to_vec(), port, "v4"), door(m, r).await));
            }
        }
        "v6" => {
            for ip in v6_of(shape) {
                let (m, r) = socks5_request(4, &ip.octets(), port);
                doors.push(("socks5", (ip.octets().to_vec(), port, "v6"), door(m, r).await));
            }
        }
        _ => {
            let name = name_of(n, shape, flavour % 4);
            if n <= 255 {
                let mut body = vec![n as u8];
                body.extend_from_slice(&name);
                let (m, r) = socks5_request(3, &body, port);
                doors.push(("socks5", (name.clone(), port, "domain"), door(m, r).await));
                // the local UDP door
                let mut d = BytesMut::from(&[0u8, 0, 0, 3][..]);
                d.extend_from_slice(&body);
                d.extend_from_slice(&port.to_be_bytes());
                d.extend_from_slice(b"payload");
                let r = match util::catch(|| Socks5UdpCodec.decode(&mut d)) {
                    Ok(Ok(Some((_, a)))) => Ok(a),
                    Ok(Ok(None)) => Err("nothing decoded".to_owned()),
                    Ok(Err(e)) => Err(e.to_string()),
                    Err(p) => Err(format!("PANIC {p}")),
                };
                doors.push(("socks5-udp", (name.clone(), port, "domain"), r));
            }
            // the HTTP doors take text: well-formed UTF-8 only
            if shape != "latin1" {
                let text = String::from_utf8(name.clone()).unwrap();
                if n >= 1 && n <= 900 {
                    let mut get = format!("GET http://").into_bytes();
                    get.extend_from_slice(text.as_bytes());
                    get.extend_from_slice(format!(":{port}/x HTTP/1.1\r\nHost: h\r\n\r\n").as_bytes());
                    doors.push(("http", (name.clone(), port, "domain"), door(vec![get], vec![0]).await));
                    let connect = format!("CONNECT {text}:{port} HTTP/1.1\r\nHost: h\r\n\r\n");
                    doors.push(("connect", (name.clone(), port, "domain"), door(vec![connect.into_bytes()], vec![0]).await));
                } else if n > 900 {
                    let get = format!("GET http://{text}/ HTTP/1.1\r\nHost: x\r\n\r\n");
                    doors.push(("http", (name.clone(), 80, "domain"), door(vec![get.into_bytes()], vec![0]).await));
                }
                if n == 0 || (n > 255 && n <= 900) {
                    // the request forms without an explicit port (default 80) and, for the empty name, with one
                    let get = format!("GET http://{text}/x HTTP/1.1\r\nHost: h\r\n\r\n");
                    doors.push(("http-noport", (name.clone(), 80, "domain"), door(vec![get.into_bytes()], vec![0]).await));
                }
                if n == 0 {
                    let get = format!("GET http://:{port}/x HTTP/1.1\r\nHost: h\r\n\r\n");
                    doors.push(("http", (name.clone(), port, "domain"), door(vec![get.into_bytes()], vec![0]).await));
                    let connect = format!("CONNECT :{port} HTTP/1.1\r\nHost: h\r\n\r\n");
                    doors.push(("connect", (name.clone(), port, "domain"), door(vec![connect.into_bytes()], vec![0]).await));
                }
            }
        }
    }
    let mut out = Vec::new();
    for (d, asked, r) in doors {
        let outcome = match &r {
            Err(e) if e.starts_with("PANIC") => format!("panic: {e}"),
            Err(e) => format!("refused: {e}"),
            Ok(a) => {
                // the door must hand on exactly what was asked for: kind, host bytes, port
                let got = bytes_of(a);
                if got != asked {
                    format!("altered: the door turned {} {:02x?}:{} into {} {:02x?}:{}", asked.2, &asked.0[..asked.0.len().min(24)], asked.1, got.2, &got.0[..got.0.len().min(24)], got.1)
                } else {
                    let r = roundtrip(style, a, &tail);
                    if r == "exact" { via_codecs(style, a, &tail) } else { r }
                }
            }
        };
        let class = outcome.split(':').next().unwrap_or("").to_owned();
        out.push(json!({"door": d, "outcome": outcome.chars().take(240).collect::<String>(), "class": class}));
    }
    out
}

pub fn replay(args: &[String]) -> anyhow::Result<()> {
    util::quiet_panics();
    let o = util::opts(args);
    let seed = util::opt_u64(&o, "seed", 1) as usize;
    let scenarios = util::stdin_json_lines();
    let rt = tokio::runtime::Builder::new_multi_thread().worker_threads(8).enable_all().build()?;
    rt.block_on(async {
        for chunk in scenarios.chunks(64) {
            let mut hs = Vec::new();
            for (i, sc) in chunk.iter().enumerate() {
                let sc = sc.clone();
                hs.push(tokio::spawn(async move {
                    let r = run_case(&sc, seed + i).await;
                    (sc, r)
                }));
            }
            for h in hs {
                if let Ok((sc, rs)) = h.await {
                    let expect = sc["expect"].as_str().unwrap_or("");
                    for r in rs {
                        let ok = r["class"].as_str() == Some(expect);
                        println!("{}", json!({"scenario": sc, "door": r["door"], "outcome": r["outcome"], "ok": ok}));
                    }
                }
            }
        }
    });
    Ok(())
}
