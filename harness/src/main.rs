fn main() {
    println!("vh");
}
