//! `vh` — the in-process side of the conformance checks (Engine A in DESIGN.md).
//! Every subcommand reads scenario lines (spec -> impl) or writes NDJSON traces (impl -> spec).
//! A panic in code under test is data: it is caught and reported as an outcome, never a tool error.

mod c04;
mod c05;
mod c06;
mod c07;
mod c09;
mod c10;
mod c11;
mod c12;
mod c13;
mod c14;
mod c15;
mod c16;
mod refcodec;
mod refvmess;
mod ssudp;
mod stream;
mod sut;
mod util;

fn main() {
    let args: Vec<String> = std::env::args().collect();
    if args.len() < 2 {
        eprintln!("usage: vh <subcommand> [args]");
        std::process::exit(2);
    }
    let rest = &args[2..];
    let res = match args[1].as_str() {
        "c04-replay" => c04::replay(rest),
        "c04-record" => c04::record(rest),
        "c05-replay" => c05::replay(rest),
        "c05-record" => c05::record(rest),
        "c05-udp" => c05::udp(rest),
        "c05-long" => c05::long_stream(rest),
        "c06-replay" => c06::replay(rest),
        "c07-malformed" => c07::malformed(rest),
        "c07-garbage" => c07::garbage(rest),
        "c10-replay" => c10::replay(rest),
        "c10-record" => c10::record(rest),
        "c14-replay" => c14::replay(rest),
        "c12-record" => c12::record(rest),
        "c03-replay" => c12::c03_replay(rest),
        "c12-long" => c12::long_session(rest),
        "c13-grammar" => c13::grammar(rest),
        "c13-local" => c13::local(rest),
        "c16-probe" => c16::run(rest),
        "c09-replay" => c09::replay(rest),
        "c09-stress" => c09::stress(rest),
        "c09-request" => c09::request(rest),
        "c09-salt" => c09::salt_stress(rest),
        "c15-sink" => c15::sink_replay(rest),
        "c11-replay" => c11::replay(rest),
        "c11-sessions" => c11::sessions(rest),
        "c11-record" => c11::record(rest),
        other => Err(anyhow::anyhow!("unknown subcommand {other}")),
    };
    if let Err(e) = res {
        eprintln!("vh: tool error: {e:#}");
        std::process::exit(2);
    }
}
