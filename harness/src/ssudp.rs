//! The Shadowsocks UDP codec of the *server* side, assembled from octo-squirrel's public pieces exactly
//! as `server/shadowsocks.rs::startup_udp` assembles it (Context::new(Mode::Server, users, key, ikeys)).
#![allow(dead_code)]

use std::sync::Arc;

use bytes::BytesMut;
use octo_squirrel::codec::aead::CipherKind;
use octo_squirrel::codec::shadowsocks::udp::AEADCipherCodec;
use octo_squirrel::codec::shadowsocks::udp::Context;
use octo_squirrel::codec::shadowsocks::udp::Session;
use octo_squirrel::codec::shadowsocks::udp::SessionCodec;
use octo_squirrel::config::User;
use octo_squirrel::manager::shadowsocks::ServerUser;
use octo_squirrel::manager::shadowsocks::ServerUserManager;
use octo_squirrel::protocol::shadowsocks::Mode;
use octo_squirrel::protocol::shadowsocks::aead_2022::password_to_keys;

use crate::refcodec::Cipher;
use crate::sut::Got;

pub fn kind(c: Cipher) -> CipherKind {
    serde_json::from_value(serde_json::Value::String(c.name().to_owned())).unwrap_or_default()
}

pub struct Decoded {
    pub got: Got,
    pub session: Option<(u64, u64, u64, Option<String>)>,
}

fn with_codec<const N: usize, R>(c: Cipher, server_pw: &str, users: &[(String, String)], f: impl FnOnce(&SessionCodec<N>) -> R) -> Result<R, String> {
    let mut um: ServerUserManager<N> = ServerUserManager::new();
    for (n, p) in users {
        um.add_user(ServerUser::try_from(&User { name: n.clone(), password: p.clone() }).map_err(|e| e.to_string())?);
    }
    // same branch as server/shadowsocks.rs::startup_udp
    let (key, ikeys) = if c.is_2022() {
        password_to_keys::<N>(server_pw).map_err(|e| e.to_string())?
    } else {
        (octo_squirrel::protocol::shadowsocks::aead::openssl_bytes_to_key::<N>(server_pw.as_bytes()), Vec::new())
    };
    let ctx = Context::new(Mode::Server, Some(Arc::new(um)), &key, &ikeys);
    let codec = SessionCodec::<N>::new(ctx, AEADCipherCodec::new(kind(c)));
    Ok(f(&codec))
}

fn decode_with<const N: usize>(codec: &SessionCodec<N>, wire: &[u8]) -> Decoded {
    let mut src = BytesMut::from(wire);
    match crate::util::catch(|| codec.decode(&mut src)) {
        Ok(Ok(Some((content, addr, session)))) => Decoded {
            got: Got::Udp(content.to_vec(), addr.to_string()),
            session: Some((session.client_session_id, session.server_session_id, session.packet_id, session.user.as_ref().map(|u| u.name.clone()))),
        },
        Ok(Ok(None)) => Decoded { got: Got::None, session: None },
        Ok(Err(e)) => Decoded { got: Got::Err(e.to_string()), session: None },
        Err(p) => Decoded { got: Got::Panic(p), session: None },
    }
}

pub fn server_decode_full(c: Cipher, server_pw: &str, users: &[(String, String)], wire: &[u8]) -> Decoded {
    let r = if c.key_len() == 16 {
        with_codec::<16, _>(c, server_pw, users, |codec| decode_with(codec, wire))
    } else {
        with_codec::<32, _>(c, server_pw, users, |codec| decode_with(codec, wire))
    };
    r.unwrap_or_else(|e| Decoded { got: Got::Err(format!("setup: {e}")), session: None })
}

pub fn server_decode(c: Cipher, server_pw: &str, users: &[(String, String)], wire: &[u8]) -> Got {
    server_decode_full(c, server_pw, users, wire).got
}

/// Encode a server -> client datagram with the real server-side codec.
pub fn server_encode(
    c: Cipher,
    server_pw: &str,
    users: &[(String, String)],
    user: Option<usize>,
    ids: (u64, u64, u64),
    addr: &octo_squirrel::protocol::address::Address,
    payload: &[u8],
) -> Result<Vec<u8>, String> {
    fn go<const N: usize>(
        c: Cipher,
        server_pw: &str,
        users: &[(String, String)],
        user: Option<usize>,
        ids: (u64, u64, u64),
        addr: &octo_squirrel::protocol::address::Address,
        payload: &[u8],
    ) -> Result<Vec<u8>, String> {
        let u = match user {
            Some(i) => Some(Arc::new(ServerUser::<N>::try_from(&User { name: users[i].0.clone(), password: users[i].1.clone() }).map_err(|e| e.to_string())?)),
            None => None,
        };
        with_codec::<N, _>(c, server_pw, users, |codec| {
            let mut dst = BytesMut::new();
            let session = Session::new(ids.0, ids.1, ids.2, u);
            match crate::util::catch(|| codec.encode((BytesMut::from(payload), addr.clone(), session), &mut dst)) {
                Ok(Ok(())) => Ok(dst.to_vec()),
                Ok(Err(e)) => Err(e.to_string()),
                Err(p) => Err(format!("panic: {p}")),
            }
        })?
    }
    if c.key_len() == 16 { go::<16>(c, server_pw, users, user, ids, addr, payload) } else { go::<32>(c, server_pw, users, user, ids, addr, payload) }
}

/// Decode several datagrams one after the other with ONE server codec (one context, one user table), as the server's
/// datagram loop does: what an earlier datagram left behind in caches is there for the later ones.
pub fn server_decode_seq(c: Cipher, server_pw: &str, users: &[(String, String)], wires: &[Vec<u8>]) -> Vec<Decoded> {
    let r = if c.key_len() == 16 {
        with_codec::<16, _>(c, server_pw, users, |codec| wires.iter().map(|w| decode_with(codec, w)).collect::<Vec<_>>())
    } else {
        with_codec::<32, _>(c, server_pw, users, |codec| wires.iter().map(|w| decode_with(codec, w)).collect::<Vec<_>>())
    };
    r.unwrap_or_else(|e| wires.iter().map(|_| Decoded { got: Got::Err(format!("setup: {e}")), session: None }).collect())
}
