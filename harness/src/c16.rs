//! C16: a reference client (written from the published specifications, nothing of /repo's codecs) that talks to a REAL
//! running server over TCP or UDP using only what an operator would know: the cipher name and the password string of
//! the configuration.  If the server, selected by that name, speaks another algorithm, key size or key derivation, the
//! exchange fails.  One JSON line in (per probe), one JSON line out.
//!
//!   {"id":1,"proto":"shadowsocks","cipher":"aes-128-gcm","password":"pw","port":4000,"net":"tcp","target_port":5000,"payload":"aabb"}
//!   -> {"id":1,"ok":true,"why":"echo"}    why: echo | refused | silent | unopenable | wrong-echo | io:<..>
use std::io::Read;
use std::io::Write;
use std::net::TcpStream;
use std::net::UdpSocket;
use std::time::Duration;
use std::time::Instant;

use rand::Rng;
use rand::SeedableRng;
use rand::rngs::SmallRng;
use serde_json::Value;
use serde_json::json;

use crate::refcodec as rc;
use crate::refcodec::Addr;
use crate::refcodec::Cipher;
use crate::refvmess as rv;
use crate::util;

const WAIT: Duration = Duration::from_millis(1500);

fn expected_echo(payload: &[u8]) -> Vec<u8> {
    let mut v = b"R:".to_vec();
    v.extend_from_slice(payload);
    v
}

fn read_some(s: &mut TcpStream, buf: &mut Vec<u8>, until: Instant) -> Result<bool, String> {
    let mut tmp = [0u8; 8192];
    let left = until.saturating_duration_since(Instant::now());
    if left.is_zero() {
        return Ok(false);
    }
    s.set_read_timeout(Some(left)).map_err(|e| e.to_string())?;
    match s.read(&mut tmp) {
        Ok(0) => Err("closed".to_owned()),
        Ok(n) => {
            buf.extend_from_slice(&tmp[..n]);
            Ok(true)
        }
        Err(e) if e.kind() == std::io::ErrorKind::WouldBlock || e.kind() == std::io::ErrorKind::TimedOut => Ok(false),
        Err(e) => Err(e.kind().to_string()),
    }
}

fn ss_tcp(c: Cipher, password: &str, port: u16, target: &Addr, payload: &[u8], rng: &mut SmallRng) -> &'static str {
    let n = c.key_len();
    let mut salt = vec![0u8; n];
    rng.fill(&mut salt[..]);
    let (wire, master) = if c.is_2022() {
        let r = rc::Req2022 { typ: 0, ts: rc::unix_now(), addr: target.clone(), padding: 0, first_payload: payload.to_vec(), salt: salt.clone() };
        (rc::ss2022_request(c, password, &r).out, rc::keys_2022(password).0)
    } else {
        let mut s = rc::legacy_stream(c, password, &salt);
        let mut first = target.socks();
        first.extend_from_slice(payload);
        s.chunk(&first);
        (s.out, rc::evp_bytes_to_key(password.as_bytes(), n))
    };
    let Ok(mut s) = TcpStream::connect_timeout(&format!("127.0.0.1:{port}").parse().unwrap(), WAIT) else { return "refused" };
    if s.write_all(&wire).is_err() {
        return "io:write";
    }
    let until = Instant::now() + WAIT;
    let mut got = Vec::new();
    let want = expected_echo(payload);
    loop {
        let header = if c.is_2022() { Some(1 + 8 + n + 2) } else { None };
        let o = rc::open_ss_stream(c, &master, &got, 0, header);
        if o.failed_at.is_some() {
            return "unopenable";
        }
        let plain: Vec<u8> = o.units.iter().filter(|u| u.kind == "var" || u.kind == "pay").flat_map(|u| u.plain.clone()).collect();
        if c.is_2022() {
            // the response must be of type 1 and echo this request's salt
            if let Some(f) = o.units.iter().find(|u| u.kind == "fixed") {
                if f.plain[0] != 1 || f.plain[9..9 + n] != salt[..] {
                    return "unopenable";
                }
            }
        }
        if plain.len() >= want.len() {
            return if plain[..want.len()] == want[..] { "echo" } else { "wrong-echo" };
        }
        match read_some(&mut s, &mut got, until) {
            Ok(true) => {}
            Ok(false) => return if got.is_empty() { "silent" } else { "unopenable" },
            Err(_) => return if got.is_empty() { "silent" } else { "unopenable" },
        }
    }
}

fn ss_udp(c: Cipher, password: &str, port: u16, target: &Addr, payload: &[u8], rng: &mut SmallRng) -> &'static str {
    let Ok(sock) = UdpSocket::bind("127.0.0.1:0") else { return "io:bind" };
    let n = c.key_len();
    let sid: u64 = rng.random();
    let wire = if c.is_2022() {
        let p = rc::Udp2022 { session_id: sid, packet_id: 0, typ: 0, ts: rc::unix_now(), client_session_id: None, padding: 0, addr: target.clone(), payload: payload.to_vec() };
        let mut nonce = [0u8; 24];
        rng.fill(&mut nonce[..]);
        rc::udp2022_packet(c, password, &p, &nonce)
    } else {
        let mut salt = vec![0u8; n];
        rng.fill(&mut salt[..]);
        rc::legacy_udp_packet(c, password, &salt, target, payload)
    };
    if sock.send_to(&wire, format!("127.0.0.1:{port}")).is_err() {
        return "io:send";
    }
    let _ = sock.set_read_timeout(Some(WAIT));
    let mut buf = [0u8; 65536];
    let Ok((len, _)) = sock.recv_from(&mut buf) else { return "silent" };
    let want = expected_echo(payload);
    let got = if c.is_2022() {
        let key = rc::keys_2022(password).0;
        match rc::open_udp2022(c, &key, &key, 0, true, &buf[..len]) {
            Some(p) if p.typ == 1 && p.client_session_id == Some(sid) => p.payload,
            _ => return "unopenable",
        }
    } else {
        let key = rc::evp_bytes_to_key(password.as_bytes(), n);
        match rc::open_legacy_udp(c, &key, &buf[..len]) {
            Some((_, p)) => p,
            None => return "unopenable",
        }
    };
    if got == want { "echo" } else { "wrong-echo" }
}

fn trojan_tcp(password: &str, port: u16, target: &Addr, payload: &[u8]) -> &'static str {
    let mut wire = rv::trojan_header(password, 1, target);
    wire.extend_from_slice(payload);
    let Ok(mut s) = TcpStream::connect_timeout(&format!("127.0.0.1:{port}").parse().unwrap(), WAIT) else { return "refused" };
    if s.write_all(&wire).is_err() {
        return "io:write";
    }
    let until = Instant::now() + WAIT;
    let want = expected_echo(payload);
    let mut got = Vec::new();
    while got.len() < want.len() {
        match read_some(&mut s, &mut got, until) {
            Ok(true) => {}
            _ => return if got.is_empty() { "silent" } else { "wrong-echo" },
        }
    }
    if got[..want.len()] == want[..] { "echo" } else { "wrong-echo" }
}

fn probe(v: &Value, rng: &mut SmallRng) -> Value {
    let id = v["id"].clone();
    let proto = v["proto"].as_str().unwrap_or("");
    let port = v["port"].as_u64().unwrap_or(0) as u16;
    let tport = v["target_port"].as_u64().unwrap_or(0) as u16;
    let payload = util::unhex(v["payload"].as_str().unwrap_or(""));
    let password = v["password"].as_str().unwrap_or("");
    let target = Addr::V4([127, 0, 0, 1], tport);
    let net = v["net"].as_str().unwrap_or("tcp");
    let why = match proto {
        "shadowsocks" => match Cipher::from_name(v["cipher"].as_str().unwrap_or("")) {
            Some(c) => {
                if net == "udp" {
                    ss_udp(c, password, port, &target, &payload, rng)
                } else {
                    ss_tcp(c, password, port, &target, &payload, rng)
                }
            }
            None => "no-reference-for-cipher",
        },
        "trojan" => trojan_tcp(password, port, &target, &payload),
        _ => "no-reference-for-protocol",
    };
    json!({"id": id, "ok": why == "echo", "why": why})
}

pub fn run(args: &[String]) -> anyhow::Result<()> {
    let o = util::opts(args);
    let mut rng = SmallRng::seed_from_u64(util::opt_u64(&o, "seed", 1));
    // one probe per input line, answered as soon as it is read (the caller keeps the process for a whole run)
    let stdin = std::io::stdin();
    let mut line = String::new();
    loop {
        line.clear();
        if std::io::BufRead::read_line(&mut stdin.lock(), &mut line)? == 0 {
            break;
        }
        let t = line.trim();
        if !t.starts_with('{') {
            continue;
        }
        let v: Value = serde_json::from_str(t)?;
        let r = probe(&v, &mut rng);
        println!("{r}");
        std::io::stdout().flush()?;
    }
    Ok(())
}
