//! The real client (`octo_squirrel_client::client::main`) built with `--cfg octo_verif`.
#[tokio::main]
async fn main() -> anyhow::Result<()> {
    octo_squirrel_client::client::main().await
}
