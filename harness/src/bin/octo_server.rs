//! The real server (`octo_squirrel_server::server::main`) built with `--cfg octo_verif`.
#[tokio::main]
async fn main() -> anyhow::Result<()> {
    octo_squirrel_server::server::main().await
}
