//! C05 (and the end-of-stream / garbage part of C07): tampered, truncated or reflected streams.
//! `c05-replay`: TLC scenarios (segmentation x tamper point x end of stream) concretised on real streams
//! with a concrete attacker operation; `c05-record`: random attacker operations recorded for trace validation.

use std::io::Write;

use rand::Rng;
use rand::SeedableRng;
use rand::rngs::SmallRng;
use serde_json::json;

use crate::c04;
use crate::stream;
use crate::stream::Fixture;
use crate::stream::StepObs;
use crate::stream::Totals;
use crate::util;

pub const OPS: [&str; 8] = ["flip", "flipmid", "drop", "dup", "swap", "insert", "splice", "reflect"];

/// Apply an attacker operation at real field `fi` (0-based). Returns the tampered wire and the model's
/// `badFrom` (1-based index of the first field that can no longer authenticate).
pub fn tamper(fx: &Fixture, other: &Fixture, fi: usize, op: &str, rng: &mut SmallRng) -> (Vec<u8>, usize) {
    let start = fx.field_start(fi);
    let len = fx.fields[fi].len;
    let end = start + len;
    let w = &fx.wire;
    let mut out: Vec<u8>;
    let mut bad = fi + 1;
    // replacing a request from its first byte with another session's request is just another valid request
    let op = if op == "splice" && start == 0 { "flip" } else { op };
    match op {
        "flip" => {
            out = w.clone();
            out[start] ^= 1 << rng.random_range(0..8);
        }
        "flipmid" => {
            // any byte of the sealed part (VMess bodies end with unauthenticated padding: stay in the first 16 + plain bytes)
            let sealed = if fx.fields[fi].name == "body" || fx.fields[fi].name == "dgram" { (fx.fields[fi].plain + 16).min(len) } else { len };
            out = w.clone();
            out[start + rng.random_range(0..sealed.max(1))] ^= 1 << rng.random_range(0..8);
        }
        "drop" => {
            out = w[..start].to_vec();
            out.extend_from_slice(&w[end..]);
        }
        "dup" => {
            out = w[..end].to_vec();
            out.extend_from_slice(&w[start..end]);
            out.extend_from_slice(&w[end..]);
            bad = fi + 2;
        }
        "swap" if fi + 1 < fx.fields.len() => {
            let nend = end + fx.fields[fi + 1].len;
            out = w[..start].to_vec();
            out.extend_from_slice(&w[end..nend]);
            out.extend_from_slice(&w[start..end]);
            out.extend_from_slice(&w[nend..]);
        }
        "insert" => {
            out = w[..start].to_vec();
            let n = rng.random_range(1..40);
            out.extend((0..n).map(|_| rng.random::<u8>()));
            out.extend_from_slice(&w[start..]);
        }
        "splice" => {
            // the rest of another session's stream of the same protocol and direction
            out = w[..start].to_vec();
            let os = other.field_start(fi.min(other.fields.len() - 1));
            out.extend_from_slice(&other.wire[os.min(other.wire.len())..]);
        }
        _ => {
            // "reflect" and fall-backs: replace everything from here with bytes of the wrong kind
            out = w[..start].to_vec();
            let mut tail: Vec<u8> = other.wire.iter().rev().cloned().collect();
            tail.truncate(w.len() - start + 7);
            out.extend_from_slice(&tail);
        }
    }
    // a field that is not itself authenticated (a bare salt in its own group) only poisons what follows
    if fx.fields[fi].name == "salt" && (fi + 1 >= fx.fields.len() || fx.fields[fi + 1].group != fx.fields[fi].group) {
        bad = bad.max(fi + 2);
    }
    (out, bad.min(fx.fields.len() + 1))
}

/// Property-level judgement of a tampered / truncated run.
pub fn judge_tampered(fx: &Fixture, steps: &[StepObs], bad_from: usize, enc: bool) -> Vec<String> {
    let mut why = Vec::new();
    let mut t = Totals::default();
    let mut errored = false;
    // plaintext that lies entirely before the tamper point
    let clean_bytes: usize = fx.fields[..(bad_from - 1).min(fx.fields.len())].iter().map(|f| f.len).sum();
    let (_, max_plain, max_items) = if bad_from > fx.fields.len() { fx.deliverable(usize::MAX / 2) } else { fx.deliverable_before(bad_from - 1, clean_bytes) };
    for (j, o) in steps.iter().enumerate() {
        if let Some(p) = &o.panic {
            why.push(format!("panic after delivery {}: {}", j + 1, p));
            return why;
        }
        if errored && !o.items.is_empty() {
            why.push(format!("delivery {}: items released after a decode error was reported", j + 1));
        }
        t.absorb(o);
        if o.err.is_some() {
            errored = true;
        }
    }
    if !enc {
        return why;
    }
    if fx.datagram_mode {
        if t.datagrams.len() > max_items {
            why.push(format!("{} datagrams released but only {} lie before the tampering", t.datagrams.len(), max_items));
        }
        for (a, b) in t.datagrams.iter().zip(fx.datagrams.iter()) {
            if a.0 != b.0 {
                why.push("a released datagram differs from what the sender wrote".to_owned());
                break;
            }
        }
    } else {
        if t.plain.len() > max_plain {
            why.push(format!("{} plaintext bytes released but only {} lie before the tampering", t.plain.len(), max_plain));
        }
        if !fx.plain.starts_with(&t.plain) {
            why.push("released plaintext is not a prefix of what the sender wrote".to_owned());
        }
    }
    why
}

pub fn replay(args: &[String]) -> anyhow::Result<()> {
    util::quiet_panics();
    let o = util::opts(args);
    let seed = util::opt_u64(&o, "seed", 1);
    let mut rng = SmallRng::seed_from_u64(seed);
    let stdout = std::io::stdout();
    let mut n = 0u64;
    for (idx, sc) in util::stdin_json_lines().iter().enumerate() {
        let layout = sc["layout"].as_str().unwrap_or("");
        let adapter = sc["adapter"].as_str().unwrap_or("framed");
        let cuts: Vec<usize> = sc["cuts"].as_array().map(|a| a.iter().map(|v| v.as_u64().unwrap_or(0) as usize).collect()).unwrap_or_default();
        let scaled_total: usize = sc["fields"].as_array().map(|a| a.iter().map(|f| f["len"].as_u64().unwrap_or(0) as usize).sum()).unwrap_or(1);
        let bad_from = sc["badFrom"].as_u64().unwrap_or(0) as usize;
        let eof = sc["eof"].as_bool().unwrap_or(false);
        let (protos, nwrites) = c04::protos_for_layout(layout);
        if protos.is_empty() {
            continue;
        }
        let proto = &protos[idx % protos.len()];
        let producer = if (idx / protos.len()) % 2 == 0 { "real" } else { "ref" };
        let writes = c04::pick_writes(nwrites, &mut rng);
        let (mut fx, other) = match (stream::fixture(proto, &writes, producer, idx, &mut rng), stream::fixture(proto, &writes, producer, idx, &mut rng)) {
            (Ok(a), Ok(b)) => (a, b),
            (Err(e), _) | (_, Err(e)) => {
                writeln!(stdout.lock(), "{}", json!({"scenario": sc, "proto": proto, "ok": false, "why": [format!("fixture: {e:#}")]}))?;
                continue;
            }
        };
        let op = OPS[(idx / 3) % OPS.len()];
        let (wire, bad) = if bad_from >= 1 && bad_from <= fx.fields.len() { tamper(&fx, &other, bad_from - 1, op, &mut rng) } else { (fx.wire.clone(), fx.fields.len() + 1) };
        // cut positions: same relative places as in the scaled behaviour
        let offs: Vec<usize> = cuts.iter().map(|c| (c * wire.len()) / scaled_total.max(1)).collect();
        let segs = stream::cut(&wire, &offs);
        let dec = fx.dec.take().unwrap();
        let steps = stream::run_adapter(adapter, dec, &segs, eof);
        let enc = !proto.starts_with("trojan");
        let why = judge_tampered(&fx, &steps, bad, enc);
        n += 1;
        writeln!(stdout.lock(), "{}", json!({"scenario": {"layout": layout, "adapter": adapter, "cuts": cuts, "badFrom": bad_from, "eof": eof}, "proto": proto,
            "producer": producer, "op": if bad_from > 0 { op } else { "none" }, "ok": why.is_empty(), "why": why}))?;
    }
    println!("{}", json!({"summary": true, "scenarios": n}));
    Ok(())
}

pub fn record(args: &[String]) -> anyhow::Result<()> {
    util::quiet_panics();
    let o = util::opts(args);
    let seed = util::opt_u64(&o, "seed", 1);
    let runs = util::opt_u64(&o, "runs", 200);
    let out = o.get("out").cloned().unwrap_or_else(|| "c05.ndjson".to_owned());
    let with_trojan = o.contains_key("trojan");
    let mut w = std::io::BufWriter::new(std::fs::File::create(&out)?);
    let mut rng = SmallRng::seed_from_u64(seed);
    let layouts: Vec<&str> = c04::all_layouts().into_iter().filter(|l| with_trojan || !(l.starts_with("trojan") || *l == "dgrams" || *l == "raw")).collect();
    let mut bad_runs = Vec::new();
    let mut ops_used = std::collections::BTreeMap::new();
    for i in 0..runs as usize {
        let layout = layouts[i % layouts.len()];
        let (protos, nwrites) = c04::protos_for_layout(layout);
        let proto = &protos[(i / layouts.len()) % protos.len()];
        let adapter = if (i / 3) % 2 == 0 { "framed" } else { "ws" };
        let producer = if (i / 5) % 2 == 0 { "real" } else { "ref" };
        let writes = c04::pick_writes(nwrites, &mut rng);
        let (mut fx, other) = match (stream::fixture(proto, &writes, producer, i, &mut rng), stream::fixture(proto, &writes, producer, i + 1, &mut rng)) {
            (Ok(a), Ok(b)) => (a, b),
            (Err(e), _) | (_, Err(e)) => {
                bad_runs.push(json!({"proto": proto, "why": [format!("fixture: {e:#}")]}));
                continue;
            }
        };
        // one run in five: no tampering but the peer closes early (truncation) or at the end
        let mode = rng.random_range(0..5);
        let (wire, bad, op, eof) = if mode == 0 {
            let cut_at = rng.random_range(0..=fx.wire.len());
            (fx.wire[..cut_at].to_vec(), fx.fields.len() + 1, "truncate", true)
        } else {
            let fi = rng.random_range(0..fx.fields.len());
            let op = OPS[rng.random_range(0..OPS.len())];
            let (wv, b) = tamper(&fx, &other, fi, op, &mut rng);
            (wv, b, op, rng.random_range(0..3) == 0)
        };
        *ops_used.entry(op).or_insert(0u64) += 1;
        let ncuts = rng.random_range(0..5);
        let offs: Vec<usize> = (0..ncuts).map(|_| rng.random_range(1..wire.len().max(2))).collect();
        let segs = if wire.is_empty() { vec![] } else { stream::cut(&wire, &offs) };
        let dec = fx.dec.take().unwrap();
        let steps = stream::run_adapter(adapter, dec, &segs, eof);
        // tampering after the last field = bytes appended to the stream (model: badFrom = NF + 1); truncation alone is not tampering
        let bad_model = if op == "truncate" { 0 } else { bad };
        // without integrity protection an edited stream may parse as a different valid stream: such runs are
        // judged for panics only, not recorded (the layout no longer describes what is on the wire)
        if !proto.starts_with("trojan") || op == "truncate" {
            writeln!(w, "{}", c04::layout_line(&fx, adapter, bad_model))?;
            c04::write_steps(&mut w, &fx, &segs, &steps, eof)?;
        }
        let why = judge_tampered(&fx, &steps, bad, !proto.starts_with("trojan"));
        if !why.is_empty() {
            bad_runs.push(json!({"proto": proto, "adapter": adapter, "producer": producer, "op": op, "bad_from": bad, "cuts": offs, "eof": eof, "why": why}));
        }
    }
    w.flush()?;
    println!("{}", json!({"summary": true, "runs": runs, "out": out, "ops": ops_used, "harness_disagreements": bad_runs.len(), "examples": bad_runs.iter().take(12).collect::<Vec<_>>()}));
    Ok(())
}

// ------------------------------------------------------------------------------------------------
// datagrams (DatagramTamper.tla)

use bytes::BytesMut;
use octo_squirrel_client::client::verif as cv;
use tokio_util::codec::Encoder as _;

use crate::refcodec::Cipher;
use crate::ssudp;
use crate::sut;

fn udp_ciphers(kind: &str) -> Vec<(Cipher, usize)> {
    match kind {
        "legacy" => vec![(Cipher::Aes128Gcm, 0), (Cipher::Aes256Gcm, 0), (Cipher::ChaCha20Poly1305, 0)],
        "2022-aes" => vec![(Cipher::Aes128Gcm2022, 0), (Cipher::Aes256Gcm2022, 0)],
        "2022-aes-eih" => vec![(Cipher::Aes128Gcm2022, 2), (Cipher::Aes256Gcm2022, 2)],
        _ => vec![(Cipher::ChaCha8Poly1305_2022, 0), (Cipher::ChaCha20Poly1305_2022, 0)],
    }
}

fn unit_range(kind: &str, c: Cipher, dir: &str, unit: usize, len: usize) -> (usize, usize) {
    // server -> client packets never carry identity blocks
    let names: Vec<(&str, usize)> = match kind {
        "legacy" => vec![("salt", c.key_len())],
        "2022-aes" => vec![("block", 16)],
        "2022-aes-eih" => if dir == "c2s" { vec![("block", 16), ("eih", 16)] } else { vec![("block", 16), ("block2", 0)] },
        _ => vec![("nonce", 24)],
    };
    let mut start = 0;
    for (i, (_, l)) in names.iter().enumerate() {
        if i + 1 == unit {
            return (start, start + l);
        }
        start += l;
    }
    (start, len)
}

pub fn udp(args: &[String]) -> anyhow::Result<()> {
    util::quiet_panics();
    let o = util::opts(args);
    let seed = util::opt_u64(&o, "seed", 1);
    let reps = util::opt_u64(&o, "reps", 4);
    let mut rng = SmallRng::seed_from_u64(seed);
    let stdout = std::io::stdout();
    for sc in util::stdin_json_lines() {
        let kind = sc["kind"].as_str().unwrap_or("");
        let op = sc["op"].as_str().unwrap_or("");
        let unit = sc["unit"].as_u64().unwrap_or(1) as usize;
        let expect = sc["expect"].as_str().unwrap_or("");
        for (c, users) in udp_ciphers(kind) {
            for dir in ["c2s", "s2c"] {
                for rep in 0..reps {
                    let addr = stream::test_addr(rep as usize);
                    let (_cp, sp, us) = sut::ss_passwords(c, users);
                    let ccfg = sut::ss_client_cfg(c, users);
                    let payload: Vec<u8> = (0..rng.random_range(0..200usize)).map(|i| (i * 7) as u8).collect();
                    let mut client = cv::packet_codec(&ccfg, &addr.to_octo())?;
                    // two packets of one session in each direction
                    let mut c2s = vec![BytesMut::new(), BytesMut::new()];
                    for p in c2s.iter_mut() {
                        client.encode((BytesMut::from(&payload[..]), addr.to_octo()), p)?;
                    }
                    // learn the client's session id so that server packets belong to it
                    let first = ssudp::server_decode_full(c, &sp, &us, &c2s[0]);
                    let (csid, _, _, _) = first.session.clone().unwrap_or((0, 0, 0, None));
                    let user = if users > 0 { Some(0) } else { None };
                    // (the cipher cache is keyed by key address + session id: a fresh id per session, as the server draws one)
                    let server_sid: u64 = rng.random();
                    let s2c: Vec<Vec<u8>> = (1..=2u64)
                        .map(|pid| ssudp::server_encode(c, &sp, &us, user, (csid, server_sid, pid), &addr.to_octo(), &payload).unwrap_or_default())
                        .collect();
                    let (mine, other, opposite): (Vec<u8>, Vec<u8>, Vec<u8>) = if dir == "c2s" { (c2s[0].to_vec(), c2s[1].to_vec(), s2c[0].clone()) } else { (s2c[0].clone(), s2c[1].clone(), c2s[0].to_vec()) };
                    let (us0, ue0) = unit_range(kind, c, dir, unit, mine.len());
                    if us0 == ue0 {
                        continue; // this unit does not exist in this direction
                    }
                    let mut wire = mine.clone();
                    match op {
                        "flip" => wire[rng.random_range(us0..ue0)] ^= 1 << rng.random_range(0..8),
                        "cut" => wire.truncate(rng.random_range(us0..ue0)),
                        "append" => wire.extend((0..rng.random_range(1..20)).map(|_| rng.random::<u8>())),
                        "exchange" => {
                            let (os, oe) = unit_range(kind, c, dir, unit, other.len());
                            let mut wv = mine[..us0].to_vec();
                            wv.extend_from_slice(&other[os..oe]);
                            wv.extend_from_slice(&mine[ue0..]);
                            wire = wv;
                        }
                        "reflect" => wire = opposite.clone(),
                        _ => {}
                    }
                    // the receiver of this direction judges the packet
                    let got = if dir == "c2s" {
                        ssudp::server_decode(c, &sp, &us, &wire)
                    } else {
                        sut::client_packet_decode(&mut client, &mut BytesMut::from(&wire[..]))
                    };
                    let verdict = match &got {
                        sut::Got::Udp(b, a) => {
                            if *b == payload && *a == addr.to_octo().to_string() { "delivered" } else { "delivered-altered" }
                        }
                        sut::Got::None | sut::Got::Err(_) => "dropped",
                        sut::Got::Panic(_) => "panic",
                        _ => "other",
                    };
                    writeln!(stdout.lock(), "{}", json!({"scenario": sc, "cipher": c.name(), "users": users, "dir": dir, "got": verdict, "ok": verdict == expect,
                        "detail": format!("{:?}", got).chars().take(160).collect::<String>()}))?;
                }
            }
        }
    }
    Ok(())
}

/// A VMess stream longer than its 16-bit chunk counter has values (real client encoder, `chunks` one-byte writes), then
/// chunk-level edits NEAR ITS END - two neighbouring chunks swapped, one duplicated, one dropped - through the real server
/// decoder: nothing past the untampered prefix may be released, and the decoder must refuse.
pub fn long_stream(args: &[String]) -> anyhow::Result<()> {
    use octo_squirrel_client::client::verif as cv;
    use octo_squirrel_server::server::verif as sv;
    use tokio_util::codec::Encoder;
    crate::util::quiet_panics();
    let o = crate::util::opts(args);
    let chunks = crate::util::opt_u64(&o, "chunks", 65800) as usize;
    for cipher in crate::c04::VMESS {
        let addr = crate::stream::test_addr(0);
        let mut client = cv::tcp_codec(&crate::sut::vmess_client_cfg(cipher, crate::sut::UUID_A), &addr.to_octo())?;
        let mut wire = BytesMut::new();
        let mut ends = Vec::with_capacity(chunks);
        for i in 0..chunks {
            client.encode(BytesMut::from(&[(i % 251) as u8][..]), &mut wire)?;
            ends.push(wire.len());
        }
        let start = |i: usize| if i == 0 { 0 } else { ends[i - 1] };
        // every chunk here is: sealed length (18 bytes) | sealed payload (1 + 16 bytes) | random padding; "swap-payload" and
        // "dup-payload" edit the sealed payloads only and leave lengths and padding where they are
        for (op, at) in [("swap", chunks - 40), ("dup", chunks - 30), ("drop", chunks - 20), ("swap", 65530), ("swap", 65540), ("dup", 65550),
                         ("swap-payload", chunks - 50), ("dup-payload", chunks - 45), ("swap-payload", 65534), ("swap-payload", 65545), ("swap-payload", 100)] {
            if at + 2 >= chunks {
                continue;
            }
            let a = &wire[start(at)..ends[at]];
            let b = &wire[start(at + 1)..ends[at + 1]];
            let mut t = wire[..start(at)].to_vec();
            match op {
                "swap-payload" | "dup-payload" => {
                    let mut a2 = a.to_vec();
                    let mut b2 = b.to_vec();
                    if a2.len() >= 35 && b2.len() >= 35 {
                        let pa = a[18..35].to_vec();
                        let pb = b[18..35].to_vec();
                        b2[18..35].copy_from_slice(&pa);
                        if op == "swap-payload" {
                            a2[18..35].copy_from_slice(&pb);
                        }
                    }
                    t.extend_from_slice(&a2);
                    t.extend_from_slice(&b2);
                }
                "swap" => {
                    t.extend_from_slice(b);
                    t.extend_from_slice(a);
                }
                "dup" => {
                    t.extend_from_slice(a);
                    t.extend_from_slice(a);
                    t.extend_from_slice(b);
                }
                _ => t.extend_from_slice(b),
            }
            t.extend_from_slice(&wire[ends[at + 1]..]);
            let listener = sv::listener(&crate::sut::vmess_server_cfg(&[crate::sut::UUID_A]))?;
            let mut server = listener.new_codec()?;
            // delivered in reads of 50 000 bytes, as a socket would
            let mut buf = BytesMut::new();
            let mut released = 0usize;
            let mut wrong = false;
            let mut refused = false;
            'feed: for piece in t.chunks(50_000) {
                buf.extend_from_slice(piece);
                loop {
                    match crate::sut::server_decode(&mut server, &mut buf) {
                        crate::sut::Got::Connect(b, _) | crate::sut::Got::Tcp(b) => {
                            for x in b {
                                if x != (released % 251) as u8 {
                                    wrong = true;
                                }
                                released += 1;
                            }
                        }
                        crate::sut::Got::None => break,
                        _ => {
                            refused = true;
                            break 'feed;
                        }
                    }
                }
            }
            let mut why = Vec::new();
            if released > at {
                why.push(format!("{released} payload bytes released but only {at} lie before the edited chunk"));
            }
            if wrong {
                why.push("released bytes are not the sender's, in order".to_owned());
            }
            if !refused {
                why.push("the edited stream was not refused".to_owned());
            }
            println!("{}", json!({"proto": format!("vmess-req:{cipher}"), "op": op, "chunk": at + 1, "of": chunks, "released": released, "ok": why.is_empty(), "why": why}));
        }
    }
    Ok(())
}
