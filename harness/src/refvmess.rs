//! Reference codec, VMess AEAD part (written from the v2ray-core wire format, independent of
//! octo-squirrel's vmess modules) and Trojan.
#![allow(dead_code)]

use aes_gcm::aead::Aead;
use aes_gcm::aead::KeyInit;
use aes_gcm::aead::Payload;
use sha2::Digest;
use sha3::digest::ExtendableOutput;
use sha3::digest::Update;
use sha3::digest::XofReader;

use crate::refcodec::Addr;
use crate::refcodec::aes_ecb_decrypt;
use crate::refcodec::aes_ecb_encrypt;

pub const OPT_CHUNK_STREAM: u8 = 1;
pub const OPT_CHUNK_MASKING: u8 = 4;
pub const OPT_GLOBAL_PADDING: u8 = 8;
pub const OPT_AUTH_LEN: u8 = 16;

pub const SEC_AES128_GCM: u8 = 3;
pub const SEC_CHACHA20_POLY1305: u8 = 4;

fn sha256(d: &[u8]) -> [u8; 32] {
    sha2::Sha256::digest(d).into()
}

/// h_level(data): level 0 = SHA-256; level k = HMAC over h_{k-1} keyed with keys[k-1] (block size 64).
fn nested(keys: &[&[u8]], level: usize, data: &[u8]) -> [u8; 32] {
    if level == 0 {
        return sha256(data);
    }
    let k = keys[level - 1];
    let mut key_block = [0u8; 64];
    if k.len() > 64 {
        key_block[..32].copy_from_slice(&nested(keys, level - 1, k));
    } else {
        key_block[..k.len()].copy_from_slice(k);
    }
    let mut inner: Vec<u8> = key_block.iter().map(|b| b ^ 0x36).collect();
    inner.extend_from_slice(data);
    let ih = nested(keys, level - 1, &inner);
    let mut outer: Vec<u8> = key_block.iter().map(|b| b ^ 0x5c).collect();
    outer.extend_from_slice(&ih);
    nested(keys, level - 1, &outer)
}

/// v2ray's KDF: nested HMAC-SHA256 keyed by "VMess AEAD KDF" and then by each path element.
pub fn kdf(key: &[u8], path: &[&[u8]]) -> [u8; 32] {
    let mut keys: Vec<&[u8]> = vec![b"VMess AEAD KDF"];
    keys.extend_from_slice(path);
    nested(&keys, keys.len(), key)
}

pub fn kdf16(key: &[u8], path: &[&[u8]]) -> [u8; 16] {
    kdf(key, path)[..16].try_into().unwrap()
}

pub fn kdf12(key: &[u8], path: &[&[u8]]) -> [u8; 12] {
    kdf(key, path)[..12].try_into().unwrap()
}

/// cmd key = MD5(uuid bytes || "c48619fe-8f02-49e0-b9e9-edf763e17e21")
pub fn cmd_key(uuid: &str) -> Option<[u8; 16]> {
    let hex: String = uuid.chars().filter(|c| *c != '-').collect();
    if hex.len() != 32 {
        return None;
    }
    let mut bytes = [0u8; 16];
    for i in 0..16 {
        bytes[i] = u8::from_str_radix(&hex[2 * i..2 * i + 2], 16).ok()?;
    }
    let mut h = md5::Md5::new();
    Digest::update(&mut h, bytes);
    Digest::update(&mut h, b"c48619fe-8f02-49e0-b9e9-edf763e17e21");
    Some(h.finalize().into())
}

pub fn crc32(b: &[u8]) -> u32 {
    crc::Crc::<u32>::new(&crc::CRC_32_ISO_HDLC).checksum(b)
}

pub fn fnv1a32(data: &[u8]) -> u32 {
    let mut h: u32 = 2166136261;
    for b in data {
        h ^= *b as u32;
        h = h.wrapping_mul(16777619);
    }
    h
}

/// auth id = AES-128-ECB(KDF16(cmd_key, "AES Auth ID Encryption"), time || rand || crc32)
pub fn auth_id(cmd_key: &[u8; 16], time: i64, rand: u32, corrupt_crc: bool) -> [u8; 16] {
    let mut b = [0u8; 16];
    b[..8].copy_from_slice(&time.to_be_bytes());
    b[8..12].copy_from_slice(&rand.to_be_bytes());
    let mut c = crc32(&b[..12]);
    if corrupt_crc {
        c ^= 1;
    }
    b[12..].copy_from_slice(&c.to_be_bytes());
    aes_ecb_encrypt(&kdf16(cmd_key, &[b"AES Auth ID Encryption"]), &mut b);
    b
}

pub fn open_auth_id(cmd_key: &[u8; 16], id: &[u8; 16]) -> Option<(i64, u32)> {
    let mut b = *id;
    aes_ecb_decrypt(&kdf16(cmd_key, &[b"AES Auth ID Encryption"]), &mut b);
    if crc32(&b[..12]) != u32::from_be_bytes(b[12..].try_into().ok()?) {
        return None;
    }
    Some((i64::from_be_bytes(b[..8].try_into().ok()?), u32::from_be_bytes(b[8..12].try_into().ok()?)))
}

#[derive(Clone, Debug)]
pub struct VmessReq {
    pub iv: [u8; 16],
    pub key: [u8; 16],
    pub resp_auth: u8,
    pub option: u8,
    pub security: u8,
    pub cmd: u8, // 1 tcp, 2 udp
    pub addr: Addr,
    pub header_padding: usize,
}

impl VmessReq {
    pub fn plain_header(&self) -> Vec<u8> {
        let mut h = vec![1u8];
        h.extend_from_slice(&self.iv);
        h.extend_from_slice(&self.key);
        h.push(self.resp_auth);
        h.push(self.option);
        h.push(((self.header_padding as u8) << 4) | self.security);
        h.push(0);
        h.push(self.cmd);
        h.extend_from_slice(&self.addr.vmess());
        h.extend(std::iter::repeat(0x77u8).take(self.header_padding));
        let f = fnv1a32(&h);
        h.extend_from_slice(&f.to_be_bytes());
        h
    }

    pub fn parse(h: &[u8]) -> Option<VmessReq> {
        if h.len() < 41 + 4 || h[0] != 1 {
            return None;
        }
        let body = &h[..h.len() - 4];
        if fnv1a32(body) != u32::from_be_bytes(h[h.len() - 4..].try_into().ok()?) {
            return None;
        }
        let (addr, n) = Addr::parse_vmess(&h[38..])?;
        let pad = (h[35] >> 4) as usize;
        if 38 + n + pad + 4 != h.len() {
            return None;
        }
        Some(VmessReq {
            iv: h[1..17].try_into().ok()?,
            key: h[17..33].try_into().ok()?,
            resp_auth: h[33],
            option: h[34],
            security: h[35] & 0xf,
            cmd: h[37],
            addr,
            header_padding: pad,
        })
    }
}

/// auth_id(16) | seal(len 2)(18) | nonce(8) | seal(header)
pub fn seal_request_header(cmd_key: &[u8; 16], aid: &[u8; 16], nonce: &[u8; 8], header: &[u8]) -> Vec<u8> {
    let lk = kdf16(cmd_key, &[b"VMess Header AEAD Key_Length", aid, nonce]);
    let li = kdf12(cmd_key, &[b"VMess Header AEAD Nonce_Length", aid, nonce]);
    let hk = kdf16(cmd_key, &[b"VMess Header AEAD Key", aid, nonce]);
    let hi = kdf12(cmd_key, &[b"VMess Header AEAD Nonce", aid, nonce]);
    let mut out = aid.to_vec();
    let len = (header.len() as u16).to_be_bytes();
    out.extend_from_slice(&aes_gcm::Aes128Gcm::new_from_slice(&lk).unwrap().encrypt((&li).into(), Payload { msg: &len, aad: aid }).unwrap());
    out.extend_from_slice(nonce);
    out.extend_from_slice(&aes_gcm::Aes128Gcm::new_from_slice(&hk).unwrap().encrypt((&hi).into(), Payload { msg: header, aad: aid }).unwrap());
    out
}

/// Returns (auth time, header plaintext, bytes consumed).
pub fn open_request_header(cmd_key: &[u8; 16], wire: &[u8]) -> Option<(i64, Vec<u8>, usize)> {
    if wire.len() < 16 + 18 + 8 + 16 {
        return None;
    }
    let aid: [u8; 16] = wire[..16].try_into().ok()?;
    let (t, _) = open_auth_id(cmd_key, &aid)?;
    let nonce: [u8; 8] = wire[34..42].try_into().ok()?;
    let lk = kdf16(cmd_key, &[b"VMess Header AEAD Key_Length", &aid, &nonce]);
    let li = kdf12(cmd_key, &[b"VMess Header AEAD Nonce_Length", &aid, &nonce]);
    let lp = aes_gcm::Aes128Gcm::new_from_slice(&lk).ok()?.decrypt((&li).into(), Payload { msg: &wire[16..34], aad: &aid }).ok()?;
    let len = u16::from_be_bytes([lp[0], lp[1]]) as usize;
    if wire.len() < 42 + len + 16 {
        return None;
    }
    let hk = kdf16(cmd_key, &[b"VMess Header AEAD Key", &aid, &nonce]);
    let hi = kdf12(cmd_key, &[b"VMess Header AEAD Nonce", &aid, &nonce]);
    let h = aes_gcm::Aes128Gcm::new_from_slice(&hk).ok()?.decrypt((&hi).into(), Payload { msg: &wire[42..42 + len + 16], aad: &aid }).ok()?;
    Some((t, h, 42 + len + 16))
}

pub fn resp_keys(req_key: &[u8; 16], req_iv: &[u8; 16]) -> ([u8; 16], [u8; 16]) {
    (sha256(req_key)[..16].try_into().unwrap(), sha256(req_iv)[..16].try_into().unwrap())
}

/// seal(len=4) | seal(resp_auth, option, 0, 0) under the response key / iv
pub fn seal_response_header(resp_key: &[u8; 16], resp_iv: &[u8; 16], resp_auth: u8, option: u8) -> Vec<u8> {
    let lk = kdf16(resp_key, &[b"AEAD Resp Header Len Key"]);
    let li = kdf12(resp_iv, &[b"AEAD Resp Header Len IV"]);
    let hk = kdf16(resp_key, &[b"AEAD Resp Header Key"]);
    let hi = kdf12(resp_iv, &[b"AEAD Resp Header IV"]);
    let header = [resp_auth, option, 0, 0];
    let mut out = aes_gcm::Aes128Gcm::new_from_slice(&lk).unwrap().encrypt((&li).into(), Payload { msg: &4u16.to_be_bytes(), aad: &[] }).unwrap();
    out.extend_from_slice(&aes_gcm::Aes128Gcm::new_from_slice(&hk).unwrap().encrypt((&hi).into(), Payload { msg: &header, aad: &[] }).unwrap());
    out
}

/// seal(len = header.len()) | seal(header): a response header of any length, for malformed-content cases
pub fn seal_response_header_raw(resp_key: &[u8; 16], resp_iv: &[u8; 16], header: &[u8]) -> Vec<u8> {
    let lk = kdf16(resp_key, &[b"AEAD Resp Header Len Key"]);
    let li = kdf12(resp_iv, &[b"AEAD Resp Header Len IV"]);
    let hk = kdf16(resp_key, &[b"AEAD Resp Header Key"]);
    let hi = kdf12(resp_iv, &[b"AEAD Resp Header IV"]);
    let mut out = aes_gcm::Aes128Gcm::new_from_slice(&lk).unwrap().encrypt((&li).into(), Payload { msg: &(header.len() as u16).to_be_bytes(), aad: &[] }).unwrap();
    out.extend_from_slice(&aes_gcm::Aes128Gcm::new_from_slice(&hk).unwrap().encrypt((&hi).into(), Payload { msg: header, aad: &[] }).unwrap());
    out
}

/// Returns (header plaintext, consumed).
pub fn open_response_header(resp_key: &[u8; 16], resp_iv: &[u8; 16], wire: &[u8]) -> Option<(Vec<u8>, usize)> {
    if wire.len() < 18 {
        return None;
    }
    let lk = kdf16(resp_key, &[b"AEAD Resp Header Len Key"]);
    let li = kdf12(resp_iv, &[b"AEAD Resp Header Len IV"]);
    let lp = aes_gcm::Aes128Gcm::new_from_slice(&lk).ok()?.decrypt((&li).into(), Payload { msg: &wire[..18], aad: &[] }).ok()?;
    let len = u16::from_be_bytes([lp[0], lp[1]]) as usize;
    if wire.len() < 18 + len + 16 {
        return None;
    }
    let hk = kdf16(resp_key, &[b"AEAD Resp Header Key"]);
    let hi = kdf12(resp_iv, &[b"AEAD Resp Header IV"]);
    let h = aes_gcm::Aes128Gcm::new_from_slice(&hk).ok()?.decrypt((&hi).into(), Payload { msg: &wire[18..18 + len + 16], aad: &[] }).ok()?;
    Some((h, 18 + len + 16))
}

fn chacha_key(raw: &[u8]) -> [u8; 32] {
    let a: [u8; 16] = md5::Md5::digest(raw).into();
    let b: [u8; 16] = md5::Md5::digest(a).into();
    let mut k = [0u8; 32];
    k[..16].copy_from_slice(&a);
    k[16..].copy_from_slice(&b);
    k
}

fn body_seal(security: u8, key: &[u8; 16], nonce: &[u8; 12], plain: &[u8]) -> Vec<u8> {
    if security == SEC_CHACHA20_POLY1305 {
        chacha20poly1305::ChaCha20Poly1305::new_from_slice(&chacha_key(key)).unwrap().encrypt(nonce.into(), plain).unwrap()
    } else {
        aes_gcm::Aes128Gcm::new_from_slice(key).unwrap().encrypt(nonce.into(), plain).unwrap()
    }
}

fn body_open(security: u8, key: &[u8; 16], nonce: &[u8; 12], sealed: &[u8]) -> Option<Vec<u8>> {
    if security == SEC_CHACHA20_POLY1305 {
        chacha20poly1305::ChaCha20Poly1305::new_from_slice(&chacha_key(key)).ok()?.decrypt(nonce.into(), sealed).ok()
    } else {
        aes_gcm::Aes128Gcm::new_from_slice(key).ok()?.decrypt(nonce.into(), sealed).ok()
    }
}

fn count_nonce(count: u16, iv: &[u8; 16]) -> [u8; 12] {
    let mut n = [0u8; 12];
    n[..2].copy_from_slice(&count.to_be_bytes());
    n[2..].copy_from_slice(&iv[2..12]);
    n
}

/// One direction of a VMess body (chunk stream on): chunk = size | seal(payload) | padding.
pub struct VmessBody {
    pub option: u8,
    pub security: u8,
    pub key: [u8; 16],
    pub iv: [u8; 16],
    /// key / iv of the authenticated-length cipher (octo-squirrel uses the request key/iv in both directions)
    pub len_key: [u8; 16],
    pub len_iv: [u8; 16],
    shake: Box<dyn XofReader>,
    pub count: u16,
    pub len_count: u16,
}

#[derive(Clone, Debug)]
pub struct VUnit {
    pub kind: &'static str, // "size" "pay" "pad"
    pub off: usize,
    pub wire_len: usize,
    pub nonce: i64,
    pub plain: Vec<u8>,
}

impl VmessBody {
    pub fn new(option: u8, security: u8, key: [u8; 16], iv: [u8; 16], len_key: [u8; 16], len_iv: [u8; 16]) -> Self {
        let mut h = sha3::Shake128::default();
        h.update(&iv);
        Self { option, security, key, iv, len_key, len_iv, shake: Box::new(h.finalize_xof()), count: 0, len_count: 0 }
    }

    fn next_u16(&mut self) -> u16 {
        let mut b = [0u8; 2];
        self.shake.read(&mut b);
        u16::from_be_bytes(b)
    }

    fn size_len(&self) -> usize {
        if self.option & OPT_AUTH_LEN != 0 { 18 } else { 2 }
    }

    /// Encode one chunk carrying `payload` (may be empty = end of stream marker in v2ray).
    pub fn chunk(&mut self, payload: &[u8], out: &mut Vec<u8>) {
        let padding = if self.option & OPT_GLOBAL_PADDING != 0 { (self.next_u16() % 64) as usize } else { 0 };
        let total = payload.len() + 16 + padding;
        if self.option & OPT_AUTH_LEN != 0 {
            let lk = kdf16(&self.len_key, &[b"auth_len"]);
            let n = count_nonce(self.len_count, &self.len_iv);
            self.len_count = self.len_count.wrapping_add(1);
            out.extend_from_slice(&body_seal(self.security, &lk, &n, &((total - 16) as u16).to_be_bytes()));
        } else if self.option & OPT_CHUNK_MASKING != 0 {
            let mask = self.next_u16();
            out.extend_from_slice(&(mask ^ total as u16).to_be_bytes());
        } else {
            out.extend_from_slice(&(total as u16).to_be_bytes());
        }
        let n = count_nonce(self.count, &self.iv);
        self.count = self.count.wrapping_add(1);
        out.extend_from_slice(&body_seal(self.security, &self.key, &n, payload));
        out.extend(std::iter::repeat(0x99u8).take(padding));
    }

    /// A chunk whose size field is well formed for this position of the stream (masked / sealed as the options say) but
    /// declares `total(padding)` bytes behind it, followed by `filler` bytes of anything. `total` gets the padding length
    /// drawn for this chunk. Returns (bytes, padding).
    pub fn malformed_chunk(&mut self, total: impl Fn(usize) -> usize, filler: usize) -> (Vec<u8>, usize) {
        let mut out = Vec::new();
        let padding = if self.option & OPT_GLOBAL_PADDING != 0 { (self.next_u16() % 64) as usize } else { 0 };
        let t = total(padding);
        if self.option & OPT_AUTH_LEN != 0 {
            let lk = kdf16(&self.len_key, &[b"auth_len"]);
            let n = count_nonce(self.len_count, &self.len_iv);
            self.len_count = self.len_count.wrapping_add(1);
            out.extend_from_slice(&body_seal(self.security, &lk, &n, &((t as u16).wrapping_sub(16)).to_be_bytes()));
        } else if self.option & OPT_CHUNK_MASKING != 0 {
            let mask = self.next_u16();
            out.extend_from_slice(&(mask ^ t as u16).to_be_bytes());
        } else {
            out.extend_from_slice(&(t as u16).to_be_bytes());
        }
        out.extend((0..filler).map(|i| (i * 31 + 7) as u8));
        (out, padding)
    }

    /// Open as many whole chunks as `wire` holds; returns units, failure offset, leftover bytes.
    pub fn open_all(&mut self, wire: &[u8], base_off: usize) -> (Vec<VUnit>, Option<usize>, usize) {
        let mut units = Vec::new();
        let mut pos = 0;
        loop {
            if pos == wire.len() {
                return (units, None, 0);
            }
            // the padding length is drawn before the size is read; remember the reader cannot be rewound,
            // so only start a chunk when its size field is complete
            if wire.len() - pos < self.size_len() {
                return (units, None, wire.len() - pos);
            }
            let padding = if self.option & OPT_GLOBAL_PADDING != 0 { (self.next_u16() % 64) as usize } else { 0 };
            let total = if self.option & OPT_AUTH_LEN != 0 {
                let lk = kdf16(&self.len_key, &[b"auth_len"]);
                let n = count_nonce(self.len_count, &self.len_iv);
                match body_open(self.security, &lk, &n, &wire[pos..pos + 18]) {
                    Some(p) => {
                        units.push(VUnit { kind: "size", off: base_off + pos, wire_len: 18, nonce: self.len_count as i64, plain: p.clone() });
                        self.len_count = self.len_count.wrapping_add(1);
                        u16::from_be_bytes([p[0], p[1]]) as usize + 16
                    }
                    None => return (units, Some(base_off + pos), 0),
                }
            } else if self.option & OPT_CHUNK_MASKING != 0 {
                let mask = self.next_u16();
                let v = u16::from_be_bytes([wire[pos], wire[pos + 1]]) ^ mask;
                units.push(VUnit { kind: "size", off: base_off + pos, wire_len: 2, nonce: -1, plain: v.to_be_bytes().to_vec() });
                v as usize
            } else {
                let v = u16::from_be_bytes([wire[pos], wire[pos + 1]]);
                units.push(VUnit { kind: "size", off: base_off + pos, wire_len: 2, nonce: -1, plain: v.to_be_bytes().to_vec() });
                v as usize
            };
            pos += self.size_len();
            if total < 16 + padding || wire.len() - pos < total {
                // incomplete chunk (or nonsense length): cannot continue; report as leftover
                return (units, if total < 16 + padding { Some(base_off + pos) } else { None }, wire.len() - pos);
            }
            let n = count_nonce(self.count, &self.iv);
            match body_open(self.security, &self.key, &n, &wire[pos..pos + total - padding]) {
                Some(p) => {
                    units.push(VUnit { kind: "pay", off: base_off + pos, wire_len: total - padding, nonce: self.count as i64, plain: p });
                    self.count = self.count.wrapping_add(1);
                }
                None => return (units, Some(base_off + pos), 0),
            }
            pos += total - padding;
            if padding > 0 {
                units.push(VUnit { kind: "pad", off: base_off + pos, wire_len: padding, nonce: -1, plain: Vec::new() });
            }
            pos += padding;
        }
    }
}

// ------------------------------------------------------------------------------------------------
// Trojan

pub fn trojan_key(password: &str) -> [u8; 56] {
    let h: [u8; 28] = sha2::Sha224::digest(password.as_bytes()).into();
    let hex: String = h.iter().map(|b| format!("{:02x}", b)).collect();
    hex.as_bytes().try_into().unwrap()
}

/// hex(SHA224(password)) CRLF cmd addr CRLF
pub fn trojan_header(password: &str, cmd: u8, addr: &Addr) -> Vec<u8> {
    let mut v = trojan_key(password).to_vec();
    v.extend_from_slice(b"\r\n");
    v.push(cmd);
    v.extend_from_slice(&addr.socks());
    v.extend_from_slice(b"\r\n");
    v
}

/// addr len CRLF payload
pub fn trojan_udp(addr: &Addr, payload: &[u8]) -> Vec<u8> {
    let mut v = addr.socks();
    v.extend_from_slice(&(payload.len() as u16).to_be_bytes());
    v.extend_from_slice(b"\r\n");
    v.extend_from_slice(payload);
    v
}

/// Parse a Trojan request header; returns (cmd, addr, consumed).
pub fn parse_trojan_header(password: &str, wire: &[u8]) -> Option<(u8, Addr, usize)> {
    if wire.len() < 59 || wire[..56] != trojan_key(password) || &wire[56..58] != b"\r\n" {
        return None;
    }
    let cmd = wire[58];
    let (a, n) = Addr::parse_socks(&wire[59..])?;
    if wire.len() < 59 + n + 2 || &wire[59 + n..61 + n] != b"\r\n" {
        return None;
    }
    Some((cmd, a, 61 + n))
}

pub fn parse_trojan_udp(wire: &[u8]) -> Option<(Addr, Vec<u8>, usize)> {
    let (a, n) = Addr::parse_socks(wire)?;
    if wire.len() < n + 4 {
        return None;
    }
    let l = u16::from_be_bytes([wire[n], wire[n + 1]]) as usize;
    if &wire[n + 2..n + 4] != b"\r\n" || wire.len() < n + 4 + l {
        return None;
    }
    Some((a, wire[n + 4..n + 4 + l].to_vec(), n + 4 + l))
}
