use std::collections::HashMap;
use std::io::BufRead;

use serde_json::Value;

/// `--key value` pairs.
pub fn opts(args: &[String]) -> HashMap<String, String> {
    let mut m = HashMap::new();
    let mut i = 0;
    while i < args.len() {
        if let Some(k) = args[i].strip_prefix("--") {
            if i + 1 < args.len() && !args[i + 1].starts_with("--") {
                m.insert(k.to_owned(), args[i + 1].clone());
                i += 2;
                continue;
            }
            m.insert(k.to_owned(), "true".to_owned());
        }
        i += 1;
    }
    m
}

pub fn opt_u64(m: &HashMap<String, String>, k: &str, d: u64) -> u64 {
    m.get(k).and_then(|v| v.parse().ok()).unwrap_or(d)
}

pub fn stdin_json_lines() -> Vec<Value> {
    let stdin = std::io::stdin();
    let mut out = Vec::new();
    for line in stdin.lock().lines().map_while(Result::ok) {
        let line = line.trim();
        if line.starts_with('{') {
            if let Ok(v) = serde_json::from_str(line) {
                out.push(v);
            }
        }
    }
    out
}

pub fn hex(b: &[u8]) -> String {
    b.iter().map(|x| format!("{:02x}", x)).collect()
}

pub fn unhex(s: &str) -> Vec<u8> {
    (0..s.len() / 2).map(|i| u8::from_str_radix(&s[2 * i..2 * i + 2], 16).unwrap_or(0)).collect()
}

/// Run `f`, turning a panic into `Err(message)`.
pub fn catch<T>(f: impl FnOnce() -> T) -> Result<T, String> {
    match std::panic::catch_unwind(std::panic::AssertUnwindSafe(f)) {
        Ok(v) => Ok(v),
        Err(e) => {
            let msg = if let Some(s) = e.downcast_ref::<&str>() {
                (*s).to_owned()
            } else if let Some(s) = e.downcast_ref::<String>() {
                s.clone()
            } else {
                "panic".to_owned()
            };
            Err(msg)
        }
    }
}

/// Silence the default panic hook (panics in code under test are outcomes, reported as JSON).
pub fn quiet_panics() {
    std::panic::set_hook(Box::new(|_| {}));
}
