//! Constructors of the system under test (real codecs through the cfg(octo_verif) wrappers) and the
//! fixed credentials the scenarios use.
#![allow(dead_code)]

use bytes::BytesMut;
use octo_squirrel::protocol::address::Address;
use octo_squirrel_client::client::verif as cv;
use octo_squirrel_server::server::verif as sv;
use serde_json::json;

use crate::refcodec::Cipher;
use crate::refcodec::b64e;

pub const UUID_A: &str = "b831381d-6324-4d53-ad4f-8cda48b30811";
pub const UUID_B: &str = "0a7e5c3b-1f2d-4e6a-9b8c-7d6e5f4a3b2c";
pub const UUID_X: &str = "ffffffff-0000-4000-8000-123456789abc";
pub const TROJAN_PW: &str = "correct horse battery staple";
pub const LEGACY_PW: &str = "legacy password";

/// Deterministic test keys (base64) of the cipher's key length.
pub fn key_b64(c: Cipher, tag: u8) -> String {
    let k: Vec<u8> = (0..c.key_len()).map(|i| (i as u8).wrapping_mul(7).wrapping_add(tag)).collect();
    b64e(&k)
}

pub fn key_raw(c: Cipher, tag: u8) -> Vec<u8> {
    (0..c.key_len()).map(|i| (i as u8).wrapping_mul(7).wrapping_add(tag)).collect()
}

/// (client password, server password, server users) for a Shadowsocks variant.
/// `users`: number of registered users on the server (0 = single PSK); the client is user 0.
pub fn ss_passwords(c: Cipher, users: usize) -> (String, String, Vec<(String, String)>) {
    if !c.is_2022() {
        return (LEGACY_PW.to_owned(), LEGACY_PW.to_owned(), vec![]);
    }
    let server = key_b64(c, 1);
    if users == 0 || !c.is_2022_aes() {
        return (server.clone(), server, vec![]);
    }
    let us: Vec<(String, String)> = (0..users).map(|i| (format!("user{}", i), key_b64(c, 50 + i as u8))).collect();
    (format!("{}:{}", server, us[0].1), server, us)
}

pub fn ss_client_cfg(c: Cipher, users: usize) -> String {
    let (cp, _, _) = ss_passwords(c, users);
    json!({"host":"127.0.0.1","port":1,"password":cp,"protocol":"shadowsocks","cipher":c.name()}).to_string()
}

pub fn ss_server_cfg(c: Cipher, users: usize) -> String {
    let (_, sp, us) = ss_passwords(c, users);
    let users: Vec<_> = us.iter().map(|(n, p)| json!({"name":n,"password":p})).collect();
    json!({"host":"127.0.0.1","port":1,"password":sp,"protocol":"shadowsocks","cipher":c.name(),"user":users}).to_string()
}

pub fn vmess_client_cfg(cipher: &str, uuid: &str) -> String {
    json!({"host":"127.0.0.1","port":1,"password":uuid,"protocol":"vmess","cipher":cipher}).to_string()
}

pub fn vmess_server_cfg(uuids: &[&str]) -> String {
    let users: Vec<_> = uuids.iter().enumerate().map(|(i, u)| json!({"name":format!("u{}", i),"password":u})).collect();
    json!({"host":"127.0.0.1","port":1,"password":"","protocol":"vmess","cipher":"aes-128-gcm","user":users}).to_string()
}

pub fn trojan_client_cfg(pw: &str) -> String {
    json!({"host":"127.0.0.1","port":1,"password":pw,"protocol":"trojan","cipher":"aes-128-gcm"}).to_string()
}

pub fn trojan_server_cfg(pw: &str) -> String {
    json!({"host":"127.0.0.1","port":1,"password":pw,"protocol":"trojan","cipher":"aes-128-gcm"}).to_string()
}

pub fn domain(host: &str, port: u16) -> Address {
    Address::Domain(host.to_owned(), port)
}

/// What a server-side decode call produced.
#[derive(Debug, Clone, PartialEq, Eq)]
pub enum Got {
    Connect(Vec<u8>, String),
    Tcp(Vec<u8>),
    Udp(Vec<u8>, String),
    None,
    Err(String),
    Panic(String),
}

impl Got {
    pub fn verdict(&self) -> &'static str {
        match self {
            Got::Connect(..) | Got::Tcp(..) | Got::Udp(..) => "accept",
            Got::None => "wait",
            Got::Err(_) => "reject",
            Got::Panic(_) => "panic",
        }
    }
}

pub fn server_decode(codec: &mut sv::ServerCodec, buf: &mut BytesMut) -> Got {
    use tokio_util::codec::Decoder;
    match crate::util::catch(|| codec.decode(buf)) {
        Ok(Ok(Some(sv::In::ConnectTcp(b, a)))) => Got::Connect(b.to_vec(), a.to_string()),
        Ok(Ok(Some(sv::In::RelayTcp(b)))) => Got::Tcp(b.to_vec()),
        Ok(Ok(Some(sv::In::RelayUdp(b, a)))) => Got::Udp(b.to_vec(), a.to_string()),
        Ok(Ok(None)) => Got::None,
        Ok(Err(e)) => Got::Err(e.to_string()),
        Err(p) => Got::Panic(p),
    }
}

pub fn client_decode(codec: &mut cv::ClientStream, buf: &mut BytesMut) -> Got {
    use tokio_util::codec::Decoder;
    match crate::util::catch(|| codec.decode(buf)) {
        Ok(Ok(Some(b))) => Got::Tcp(b.to_vec()),
        Ok(Ok(None)) => Got::None,
        Ok(Err(e)) => Got::Err(e.to_string()),
        Err(p) => Got::Panic(p),
    }
}

pub fn client_packet_decode(codec: &mut cv::ClientPacket, buf: &mut BytesMut) -> Got {
    use tokio_util::codec::Decoder;
    match crate::util::catch(|| codec.decode(buf)) {
        Ok(Ok(Some((b, a)))) => Got::Udp(b.to_vec(), a.to_string()),
        Ok(Ok(None)) => Got::None,
        Ok(Err(e)) => Got::Err(e.to_string()),
        Err(p) => Got::Panic(p),
    }
}
