//! C06: no relaying without the configured credential; users stay separated. Every case of Auth.tla is built
//! with the reference codec from the keys the peer is said to know and presented to the real server codecs;
//! the key the real server answers under is identified with the reference opener.

use bytes::BytesMut;
use octo_squirrel_server::server::verif as sv;
use rand::Rng;
use rand::SeedableRng;
use rand::rngs::SmallRng;
use serde_json::Value;
use serde_json::json;
use tokio_util::codec::Encoder;

use crate::refcodec as rc;
use crate::refcodec::Addr;
use crate::refcodec::Cipher;
use crate::refvmess as rv;
use crate::ssudp;
use crate::sut;
use crate::sut::Got;
use crate::util;

fn flip_bit(k: &[u8]) -> Vec<u8> {
    let mut v = k.to_vec();
    let i = v.len() / 2;
    v[i] ^= 0x10;
    v
}

fn addr() -> Addr {
    Addr::Domain(b"example.com".to_vec(), 443)
}

/// (emit, attributed user, reply key) as observed on the real code, one entry per cipher variant.
fn run_case(sc: &Value, rng: &mut SmallRng) -> Vec<Value> {
    let cfg = sc["cfg"].as_str().unwrap_or("");
    let sk = sc["sk"].as_str().unwrap_or("");
    let uk = sc["uk"].as_str().unwrap_or("-");
    let truncated = sc["form"].as_str() == Some("truncated");
    // "here" | "elsewhere" | "elsewhere-used": the credential is registered at the listener under test / at another listener
    // of this process only / and that other listener has already served it
    let at = sc["at"].as_str().unwrap_or("here");
    let now = rc::unix_now();
    let mut out = Vec::new();
    let user_index = |u: &str| match u {
        "A" => Some(0usize),
        "B" => Some(1),
        _ => None,
    };
    match cfg {
        "trojan" => {
            let pw = match sk {
                "right" => sut::TROJAN_PW.to_owned(),
                "wrong" => "some other password".to_owned(),
                _ => sut::TROJAN_PW.to_owned(),
            };
            let mut wire = rv::trojan_header(&pw, 1, &addr());
            if sk == "onebit" {
                // one hex digit of the key differs
                wire[20] = if wire[20] == b'0' { b'1' } else { b'0' };
            }
            let shapes: Vec<Vec<u8>> = if sk == "shape" {
                // 56 characters where the hex digest belongs, none of them a key: not hexadecimal at all, not hexadecimal in
                // the first pair only (the rest is the right digest), blanks, upper-case letters beyond F
                let right = rv::trojan_key(sut::TROJAN_PW).to_vec();
                let mut first_pair = right.clone();
                first_pair[0] = b'z';
                first_pair[1] = b'z';
                let mut last_pair = right.clone();
                last_pair[54] = b'-';
                last_pair[55] = b'-';
                vec![vec![b'z'; 56], vec![b' '; 56], vec![b'-'; 56], vec![b'G'; 56], first_pair, last_pair, vec![b'0'; 56]]
            } else {
                vec![]
            };
            if sk == "shape" {
                for (i, key) in shapes.iter().enumerate() {
                    let mut wire = key.clone();
                    wire.extend_from_slice(b"\r\n");
                    wire.push(1);
                    wire.extend_from_slice(&addr().socks());
                    wire.extend_from_slice(b"\r\n");
                    wire.extend_from_slice(b"GET / HTTP/1.1\r\n\r\n");
                    if truncated {
                        wire.truncate(40);
                    }
                    let l = sv::listener(&sut::trojan_server_cfg(sut::TROJAN_PW)).unwrap();
                    let got = sut::server_decode(&mut l.new_codec().unwrap(), &mut BytesMut::from(&wire[..]));
                    out.push(json!({"variant": format!("trojan key field {}", i), "emit": emitted(&got), "user": "-", "reply": if emitted(&got) { "server" } else { "none" }, "detail": brief(&got)}));
                }
                return out;
            }
            if sk == "none" {
                // any other protocol's handshake, or random bytes (never a Trojan header)
                wire = loop {
                    let w = other_protocol(rng, 0);
                    if !w.starts_with(&rv::trojan_key(sut::TROJAN_PW)) {
                        break w;
                    }
                };
            }
            wire.extend_from_slice(b"GET / HTTP/1.1\r\n\r\n");
            if truncated {
                wire.truncate(40);
            }
            if at == "elsewhere-used" {
                let l2 = sv::listener(&sut::trojan_server_cfg(sut::TROJAN_PW)).unwrap();
                let g2 = sut::server_decode(&mut l2.new_codec().unwrap(), &mut BytesMut::from(&wire[..]));
                if !emitted(&g2) {
                    out.push(json!({"variant": "trojan", "emit": false, "user": "-", "reply": "none", "detail": format!("TOOL: the listener the credential belongs to refused it: {}", brief(&g2))}));
                    return out;
                }
            }
            let l = sv::listener(&sut::trojan_server_cfg(if at == "here" { sut::TROJAN_PW } else { "the password of another entry" })).unwrap();
            let got = sut::server_decode(&mut l.new_codec().unwrap(), &mut BytesMut::from(&wire[..]));
            out.push(json!({"variant": "trojan", "emit": emitted(&got), "user": "-", "reply": if emitted(&got) { "server" } else { "none" }, "detail": brief(&got)}));
        }
        "vmess" => {
            for sec in [rv::SEC_AES128_GCM, rv::SEC_CHACHA20_POLY1305] {
                let uuid = match uk {
                    "A" => sut::UUID_A,
                    "B" => sut::UUID_B,
                    _ => sut::UUID_X,
                };
                let ck = if sk == "shape" { [0u8; 16] } else { rv::cmd_key(uuid).unwrap() };
                let req = rv::VmessReq { iv: rng.random(), key: rng.random(), resp_auth: rng.random(), option: 0x1d, security: sec, cmd: 1, addr: addr(), header_padding: 3 };
                let aid = rv::auth_id(&ck, now as i64, rng.random(), false);
                let mut wire = rv::seal_request_header(&ck, &aid, &rng.random(), &req.plain_header());
                rv::VmessBody::new(req.option, sec, req.key, req.iv, req.key, req.iv).chunk(b"hello", &mut wire);
                if sk == "none" {
                    wire = other_protocol(rng, 1);
                }
                if truncated {
                    wire.truncate(30);
                }
                if sk == "shape" {
                    // against a server whose user table has an entry it cannot read as a UUID (empty, or some text): if such a
                    // server runs at all, the all-zero key must not be a registered one
                    for bad_id in ["", "disabled", "00000000"] {
                        let got = match sv::listener(&sut::vmess_server_cfg(&[sut::UUID_A, bad_id])).and_then(|l| l.new_codec()) {
                            Ok(mut codec) => sut::server_decode(&mut codec, &mut BytesMut::from(&wire[..])),
                            Err(e) => Got::Err(format!("the entry does not start: {e}")),
                        };
                        out.push(json!({"variant": format!("vmess sec {sec}, user entry {bad_id:?}"), "emit": emitted(&got), "user": "-", "reply": "none", "detail": brief(&got)}));
                    }
                    continue;
                }
                let l = if at == "here" {
                    sv::listener(&sut::vmess_server_cfg(&[sut::UUID_A, sut::UUID_B])).unwrap()
                } else {
                    // this listener's entry registers the OTHER user only; the presented id belongs to another entry
                    let other = if uuid == sut::UUID_A { sut::UUID_B } else { sut::UUID_A };
                    if at == "elsewhere-used" {
                        let l2 = sv::listener(&sut::vmess_server_cfg(&[uuid])).unwrap();
                        let g2 = sut::server_decode(&mut l2.new_codec().unwrap(), &mut BytesMut::from(&wire[..]));
                        if !emitted(&g2) {
                            out.push(json!({"variant": format!("vmess sec {sec}"), "emit": false, "user": "-", "reply": "none", "detail": format!("TOOL: the listener the id belongs to refused it: {}", brief(&g2))}));
                            continue;
                        }
                    }
                    sv::listener(&sut::vmess_server_cfg(&[other])).unwrap()
                };
                let mut codec = l.new_codec().unwrap();
                let got = sut::server_decode(&mut codec, &mut BytesMut::from(&wire[..]));
                // the answer must open under the keys derived from *this* request (the only user-bound secret VMess has)
                let mut reply = "none".to_owned();
                let mut user = "-".to_owned();
                if emitted(&got) {
                    let mut resp = BytesMut::new();
                    let _ = codec.encode(sv::Out::Tcp(BytesMut::from(&b"pong"[..])), &mut resp);
                    let (rk, ri) = rv::resp_keys(&req.key, &req.iv);
                    reply = if rv::open_response_header(&rk, &ri, &resp).is_some_and(|(h, _)| h[0] == req.resp_auth) { uk.to_owned() } else { "other".to_owned() };
                    user = uk.to_owned();
                }
                out.push(json!({"variant": format!("vmess sec {sec}"), "emit": emitted(&got), "user": user, "reply": reply, "detail": brief(&got)}));
            }
        }
        "ss" | "ss-multi" => {
            let multi = cfg == "ss-multi";
            let ciphers: Vec<Cipher> = if multi { vec![Cipher::Aes128Gcm2022, Cipher::Aes256Gcm2022] } else { Cipher::ALL.to_vec() };
            // uk "S": the server key in the user key's place, behind an identity header made with the server key itself
            // (variant 0) or with some other key (variant 1: the header then decrypts to a hash that names nobody)
            let nvar = if uk == "S" { 2 } else { 1 };
            for (c, variant) in ciphers.into_iter().flat_map(|c| (0..nvar).map(move |v| (c, v))) {
                let users = if multi { 2 } else { 0 };
                let (_, sp, us) = sut::ss_passwords(c, users);
                let n = c.key_len();
                let mut salt = vec![0u8; n];
                rng.fill(&mut salt[..]);
                // the server-level secret the peer uses
                let wire: Vec<u8> = if sk == "none" {
                    other_protocol(rng, 2)
                } else if c.is_2022() {
                    let right = rc::b64(&sp);
                    let server_key = match sk {
                        "right" => right.clone(),
                        "onebit" => flip_bit(&right),
                        "shape" => vec![0u8; n],
                        _ => sut::key_raw(c, 99),
                    };
                    let user_key = match user_index(uk) {
                        Some(i) => rc::b64(&us[i].1),
                        None if uk == "S" => right.clone(),
                        None => sut::key_raw(c, 77), // not registered
                    };
                    let header_key = if uk == "S" && variant == 1 { sut::key_raw(c, 88) } else { server_key.clone() };
                    let pw = if multi { format!("{}:{}", rc::b64e(&header_key), rc::b64e(&user_key)) } else { rc::b64e(&server_key) };
                    let r = rc::Req2022 { typ: 0, ts: now, addr: addr(), padding: 0, first_payload: b"hello".to_vec(), salt: salt.clone() };
                    let mut w = rc::ss2022_request(c, &pw, &r).out;
                    if multi && sc["claim"].as_str() == Some("other") {
                        // the identity header names the OTHER registered user; everything behind it stays sealed under this one's key
                        let other = rc::b64(&us[1 - user_index(uk).unwrap_or(0)].1);
                        let pw2 = format!("{}:{}", rc::b64e(&server_key), rc::b64e(&other));
                        let w2 = rc::ss2022_request(c, &pw2, &r).out;
                        w[n..n + 16].copy_from_slice(&w2[n..n + 16]);
                    }
                    w
                } else {
                    let pw = match sk {
                        "right" => sut::LEGACY_PW.to_owned(),
                        "onebit" => sut::LEGACY_PW.replace('l', "m"),
                        "shape" => String::new(),
                        _ => "not the password".to_owned(),
                    };
                    let mut s = rc::legacy_stream(c, &pw, &salt);
                    let mut first = addr().socks();
                    first.extend_from_slice(b"hello");
                    s.chunk(&first);
                    s.out
                };
                let wire = if truncated { wire[..wire.len().min(n + 20)].to_vec() } else { wire };
                let l = if at == "here" || !multi {
                    sv::listener(&sut::ss_server_cfg(c, users)).unwrap()
                } else {
                    // another entry of the same process has the same server key and registers the presented user; this one
                    // registers the other user only
                    let me = user_index(uk).unwrap_or(0);
                    let entry = |keep: usize| json!({"host":"127.0.0.1","port":1,"password":sp,"protocol":"shadowsocks","cipher":c.name(),
                        "user":[{"name": us[keep].0, "password": us[keep].1}]}).to_string();
                    if at == "elsewhere-used" {
                        let l2 = sv::listener(&entry(me)).unwrap();
                        let g2 = sut::server_decode(&mut l2.new_codec().unwrap(), &mut BytesMut::from(&wire[..]));
                        if !emitted(&g2) {
                            out.push(json!({"variant": c.name(), "emit": false, "user": "-", "reply": "none", "detail": format!("TOOL: the listener the user belongs to refused it: {}", brief(&g2))}));
                            continue;
                        }
                    }
                    sv::listener(&entry(1 - me)).unwrap()
                };
                let mut codec = l.new_codec().unwrap();
                let got = sut::server_decode(&mut codec, &mut BytesMut::from(&wire[..]));
                let mut reply = "none".to_owned();
                let mut user = "-".to_owned();
                if emitted(&got) {
                    // whose key opens the server's answer?
                    let mut resp = BytesMut::new();
                    let _ = codec.encode(sv::Out::Tcp(BytesMut::from(&b"pong"[..])), &mut resp);
                    let opens = |key: &[u8]| {
                        let o = rc::open_ss_stream(c, key, &resp, 0, if c.is_2022() { Some(1 + 8 + n + 2) } else { None });
                        o.failed_at.is_none() && !o.units.is_empty()
                    };
                    let server_master = if c.is_2022() { rc::b64(&sp) } else { rc::evp_bytes_to_key(sp.as_bytes(), n) };
                    reply = if multi && opens(&rc::b64(&us[0].1)) {
                        "A".to_owned()
                    } else if multi && opens(&rc::b64(&us[1].1)) {
                        "B".to_owned()
                    } else if opens(&server_master) {
                        "server".to_owned()
                    } else {
                        "other".to_owned()
                    };
                    if multi {
                        user = reply.clone();
                    }
                }
                out.push(json!({"variant": format!("{} v{variant}", c.name()), "emit": emitted(&got), "user": user, "reply": reply, "detail": brief(&got)}));
            }
        }
        "ss-udp" | "ss-udp-multi" => {
            let multi = cfg == "ss-udp-multi";
            let ciphers: Vec<Cipher> = if multi { vec![Cipher::Aes128Gcm2022, Cipher::Aes256Gcm2022] } else { Cipher::ALL.to_vec() };
            for c in ciphers {
                let users = if multi { 2 } else { 0 };
                let (_, sp, us) = sut::ss_passwords(c, users);
                let n = c.key_len();
                let prior = sc["prior"].as_bool() == Some(true);
                let mut prior_wire: Option<Vec<u8>> = None;
                let wire: Vec<u8> = if sk == "none" {
                    other_protocol(rng, 3)
                } else if c.is_2022() {
                    let right = rc::b64(&sp);
                    let server_key = match sk {
                        "right" => right.clone(),
                        "onebit" => flip_bit(&right),
                        "shape" => vec![0u8; n],
                        _ => sut::key_raw(c, 99),
                    };
                    let user_key = match user_index(uk) {
                        Some(i) => rc::b64(&us[i].1),
                        None if uk == "S" => right.clone(), // no user key known: the server key in its place
                        None => sut::key_raw(c, 77),
                    };
                    let pw = if multi { format!("{}:{}", rc::b64e(&server_key), rc::b64e(&user_key)) } else { rc::b64e(&server_key) };
                    let sid: u64 = rng.random();
                    let pid = if prior { 2 } else { 1 };
                    let p = rc::Udp2022 { session_id: sid, packet_id: pid, typ: 0, ts: now, client_session_id: None, padding: 0, addr: addr(), payload: b"dgram".to_vec() };
                    let nonce: [u8; 24] = rng.random();
                    let mut w = rc::udp2022_packet(c, &pw, &p, &nonce);
                    if multi && sc["claim"].as_str() == Some("other") {
                        // identity header of the OTHER registered user on a body sealed under this one's key
                        let other = rc::b64(&us[1 - user_index(uk).unwrap_or(0)].1);
                        let pw2 = format!("{}:{}", rc::b64e(&server_key), rc::b64e(&other));
                        let w2 = rc::udp2022_packet(c, &pw2, &p, &nonce);
                        w[16..32].copy_from_slice(&w2[16..32]);
                    }
                    if prior {
                        // the datagram this peer sent just before: same session, its own identity, packet id 1
                        let p1 = rc::Udp2022 { packet_id: 1, payload: b"first".to_vec(), ..p.clone() };
                        prior_wire = Some(rc::udp2022_packet(c, &pw, &p1, &rng.random()));
                    }
                    w
                } else {
                    let pw = match sk {
                        "right" => sut::LEGACY_PW.to_owned(),
                        "onebit" => sut::LEGACY_PW.replace('l', "m"),
                        "shape" => String::new(),
                        _ => "not the password".to_owned(),
                    };
                    let mut salt = vec![0u8; n];
                    rng.fill(&mut salt[..]);
                    rc::legacy_udp_packet(c, &pw, &salt, &addr(), b"dgram")
                };
                let wire = if truncated { wire[..wire.len() / 2].to_vec() } else { wire };
                let d = match prior_wire {
                    Some(first) => {
                        let mut ds = ssudp::server_decode_seq(c, &sp, &us, &[first, wire.clone()]);
                        if !emitted(&ds[0].got) {
                            out.push(json!({"variant": c.name(), "emit": false, "user": "-", "reply": "none", "detail": format!("TOOL: the prior valid datagram was refused: {}", brief(&ds[0].got))}));
                            continue;
                        }
                        ds.pop().unwrap()
                    }
                    None => ssudp::server_decode_full(c, &sp, &us, &wire),
                };
                let mut reply = "none".to_owned();
                let mut user = "-".to_owned();
                if emitted(&d.got) {
                    let (csid, _, _, uname) = d.session.clone().unwrap();
                    let uidx = uname.as_ref().and_then(|nm| us.iter().position(|u| &u.0 == nm));
                    user = match uidx {
                        Some(0) => "A".to_owned(),
                        Some(1) => "B".to_owned(),
                        _ => "-".to_owned(),
                    };
                    // the server seals its answer for the session's user
                    let resp = ssudp::server_encode(c, &sp, &us, uidx, (csid, rng.random(), 1), &addr().to_octo(), b"reply").unwrap_or_default();
                    let opens = |key: &[u8]| if c.is_2022() { rc::open_udp2022(c, key, key, 0, true, &resp).is_some() } else { rc::open_legacy_udp(c, key, &resp).is_some() };
                    let server_master = if c.is_2022() { rc::b64(&sp) } else { rc::evp_bytes_to_key(sp.as_bytes(), n) };
                    reply = if multi && opens(&rc::b64(&us[0].1)) {
                        "A".to_owned()
                    } else if multi && opens(&rc::b64(&us[1].1)) {
                        "B".to_owned()
                    } else if opens(&server_master) {
                        "server".to_owned()
                    } else {
                        "other".to_owned()
                    };
                }
                out.push(json!({"variant": c.name(), "emit": emitted(&d.got), "user": user, "reply": reply, "detail": brief(&d.got)}));
            }
        }
        _ => {}
    }
    out
}

fn emitted(g: &Got) -> bool {
    matches!(g, Got::Connect(..) | Got::Tcp(..) | Got::Udp(..))
}

fn brief(g: &Got) -> String {
    format!("{:?}", g).chars().take(120).collect()
}

/// A valid first message of some *other* protocol, or random bytes.
fn other_protocol(rng: &mut SmallRng, which: usize) -> Vec<u8> {
    match (which + rng.random_range(0..3usize)) % 4 {
        0 => {
            let ck = rv::cmd_key(sut::UUID_A).unwrap();
            let req = rv::VmessReq { iv: rng.random(), key: rng.random(), resp_auth: 1, option: 0x1d, security: rv::SEC_AES128_GCM, cmd: 1, addr: addr(), header_padding: 0 };
            let aid = rv::auth_id(&ck, rc::unix_now() as i64, rng.random(), false);
            rv::seal_request_header(&ck, &aid, &rng.random(), &req.plain_header())
        }
        1 => {
            let mut w = rv::trojan_header(sut::TROJAN_PW, 1, &addr());
            w.extend_from_slice(b"data data data");
            w
        }
        2 => {
            let c = Cipher::Aes256Gcm2022;
            let mut salt = vec![0u8; 32];
            rng.fill(&mut salt[..]);
            let r = rc::Req2022 { typ: 0, ts: rc::unix_now(), addr: addr(), padding: 0, first_payload: b"x".to_vec(), salt };
            rc::ss2022_request(c, &sut::key_b64(c, 200), &r).out
        }
        _ => (0..rng.random_range(60..200)).map(|_| rng.random::<u8>()).collect(),
    }
}

pub fn replay(args: &[String]) -> anyhow::Result<()> {
    util::quiet_panics();
    let o = util::opts(args);
    let mut rng = SmallRng::seed_from_u64(util::opt_u64(&o, "seed", 1));
    let reps = util::opt_u64(&o, "reps", 1);
    for sc in util::stdin_json_lines() {
        for _ in 0..reps {
            for r in run_case(&sc, &mut rng) {
                let e = &sc["expect"];
                let mut why: Vec<String> = Vec::new();
                if r["emit"] != e["emit"] {
                    why.push(format!("emit: model {} real {}", e["emit"], r["emit"]));
                } else if e["emit"].as_bool() == Some(true) {
                    if r["user"] != e["user"] {
                        why.push(format!("attributed user: model {} real {}", e["user"], r["user"]));
                    }
                    if r["reply"] != e["reply"] {
                        why.push(format!("answer sealed under: model {} real {}", e["reply"], r["reply"]));
                    }
                }
                println!("{}", json!({"scenario": sc, "variant": r["variant"], "ok": why.is_empty(), "why": why, "obs": r}));
            }
        }
    }
    Ok(())
}
