//! C07: no input can crash a decoder. `c07-malformed`: the catalogue of Malformed.tla, each case built with
//! the reference codec (right keys, wrong content). `c07-garbage`: exhaustive short inputs, random inputs
//! and every truncation of valid streams into every network-facing decoder, with end of stream.

use bytes::BytesMut;
use octo_squirrel::protocol::socks5::codec::Socks5UdpCodec;
use octo_squirrel_client::client::verif as cv;
use octo_squirrel_server::server::verif as sv;
use rand::Rng;
use rand::SeedableRng;
use rand::rngs::SmallRng;
use serde_json::json;
use tokio_util::codec::Decoder;
use tokio_util::codec::Encoder;

use crate::c04;
use crate::refcodec as rc;
use crate::refcodec::Addr;
use crate::refcodec::Cipher;
use crate::refvmess as rv;
use crate::ssudp;
use crate::stream;
use crate::sut;
use crate::sut::Got;
use crate::util;

fn good_addr() -> Vec<u8> {
    Addr::Domain(b"example.com".to_vec(), 443).socks()
}

/// The "address + following bytes" region with the requested malformation (SOCKS5-style address).
fn bad_region(class: &str, tail: &[u8]) -> Option<Vec<u8>> {
    let mut v = match class {
        "BadAddrType" => vec![9, 1, 2, 3, 4, 5, 6, 7],
        "DomainBeyond" => vec![3, 200, b'a', b'b', b'c'],
        "AddrTruncated" => {
            let mut a = Addr::V6([7; 16], 443).socks();
            a.truncate(9);
            return Some(a);
        }
        "NonUtf8Domain" => vec![3, 4, 0xff, 0xfe, 0x80, 0x81, 1, 187],
        "Empty" => return Some(vec![]),
        _ => return None,
    };
    if class == "BadAddrType" || class == "NonUtf8Domain" {
        v.extend_from_slice(tail);
    }
    Some(v)
}

/// Timestamps a case is built with: the current one, or for ExtremeTimestamp the ends of the 64-bit range and of its signed half.
fn stamps(class: &str, now: u64) -> Vec<u64> {
    if class == "ExtremeTimestamp" { vec![0, 1, (1u64 << 63) - 1, 1u64 << 63, u64::MAX - 1, u64::MAX] } else { vec![now] }
}

fn outcome(g: &Got) -> &'static str {
    match g {
        Got::Err(_) => "refused",
        Got::None => "waits",
        Got::Panic(_) => "panic",
        _ => "accepted",
    }
}

fn run_case(dec: &str, class: &str, rng: &mut SmallRng) -> Vec<(String, Got)> {
    let mut out = Vec::new();
    let now = rc::unix_now();
    match dec {
        "ss-legacy-req" => {
            for c in [Cipher::Aes128Gcm, Cipher::Aes256Gcm, Cipher::ChaCha20Poly1305] {
                let Some(region) = bad_region(class, b"payload") else { continue };
                let mut salt = vec![0u8; c.key_len()];
                rng.fill(&mut salt[..]);
                let mut s = rc::legacy_stream(c, sut::LEGACY_PW, &salt);
                s.chunk(&region);
                let l = sv::listener(&sut::ss_server_cfg(c, 0)).unwrap();
                out.push((c.name().to_owned(), sut::server_decode(&mut l.new_codec().unwrap(), &mut BytesMut::from(&s.out[..]))));
            }
        }
        "ss2022-req" => {
            for c in [Cipher::Aes128Gcm2022, Cipher::Aes256Gcm2022, Cipher::ChaCha8Poly1305_2022, Cipher::ChaCha20Poly1305_2022] {
                let var: Vec<u8> = match class {
                    "PaddingBeyond" => {
                        let mut v = good_addr();
                        v.extend_from_slice(&500u16.to_be_bytes());
                        v.extend_from_slice(&[1, 2, 3]);
                        v
                    }
                    "ShorterThanFixed" => {
                        // a complete address but the padding-length field is missing
                        let mut v = good_addr();
                        v.push(0);
                        v
                    }
                    "ExtremeTimestamp" => {
                        let mut v = good_addr();
                        v.extend_from_slice(&[0, 0, b'x']);
                        v
                    }
                    _ => match bad_region(class, &[0, 0, b'x']) {
                        Some(v) => v,
                        None => continue,
                    },
                };
                let (cp, _, _) = sut::ss_passwords(c, 0);
                let (key, _) = rc::keys_2022(&cp);
                for ts in stamps(class, now) {
                    let mut salt = vec![0u8; c.key_len()];
                    rng.fill(&mut salt[..]);
                    // hand-made request: salt | seal(type ts len) | seal(var)
                    let sub = rc::session_subkey(&key, &salt);
                    let mut fixed = vec![0u8];
                    fixed.extend_from_slice(&ts.to_be_bytes());
                    fixed.extend_from_slice(&(var.len() as u16).to_be_bytes());
                    let mut wire = salt.clone();
                    wire.extend_from_slice(&rc::seal(c, &sub, &rc::le_nonce(0), &fixed));
                    wire.extend_from_slice(&rc::seal(c, &sub, &rc::le_nonce(1), &var));
                    let l = sv::listener(&sut::ss_server_cfg(c, 0)).unwrap();
                    out.push((format!("{} ts {ts:#x}", c.name()), sut::server_decode(&mut l.new_codec().unwrap(), &mut BytesMut::from(&wire[..]))));
                }
            }
        }
        "ss2022-resp" => {
            // the server's answer to a real client's request: salt | seal(type 1, ts, request salt, len) | seal(payload)
            for c in [Cipher::Aes128Gcm2022, Cipher::Aes256Gcm2022, Cipher::ChaCha8Poly1305_2022, Cipher::ChaCha20Poly1305_2022] {
                let (cp, _, _) = sut::ss_passwords(c, 0);
                let (key, _) = rc::keys_2022(&cp);
                for ts in stamps(class, now) {
                    let addr = Addr::Domain(b"example.com".to_vec(), 443);
                    let mut client = cv::tcp_codec(&sut::ss_client_cfg(c, 0), &addr.to_octo()).unwrap();
                    let mut c2s = BytesMut::new();
                    if Encoder::encode(&mut client, BytesMut::from(&b"hello"[..]), &mut c2s).is_err() {
                        continue;
                    }
                    let req_salt = c2s[..c.key_len()].to_vec();
                    let mut salt = vec![0u8; c.key_len()];
                    rng.fill(&mut salt[..]);
                    let sub = rc::session_subkey(&key, &salt);
                    let mut fixed = vec![1u8];
                    fixed.extend_from_slice(&ts.to_be_bytes());
                    fixed.extend_from_slice(&req_salt);
                    fixed.extend_from_slice(&4u16.to_be_bytes());
                    let mut wire = salt.clone();
                    wire.extend_from_slice(&rc::seal(c, &sub, &rc::le_nonce(0), &fixed));
                    wire.extend_from_slice(&rc::seal(c, &sub, &rc::le_nonce(1), b"pong"));
                    out.push((format!("{} ts {ts:#x}", c.name()), sut::client_decode(&mut client, &mut BytesMut::from(&wire[..]))));
                }
            }
        }
        "ss2022-udp-c2s" | "ss2022-udp-s2c" => {
            let s2c = dec.ends_with("s2c");
            for c in [Cipher::Aes128Gcm2022, Cipher::Aes256Gcm2022, Cipher::ChaCha8Poly1305_2022, Cipher::ChaCha20Poly1305_2022] {
                // body after (type ts [client sid]): padlen padding addr payload
              for ts in stamps(class, now) {
                let mut body = vec![if s2c { 1u8 } else { 0u8 }];
                body.extend_from_slice(&ts.to_be_bytes());
                if s2c {
                    body.extend_from_slice(&7u64.to_be_bytes());
                }
                match class {
                    "ExtremeTimestamp" => {
                        body.extend_from_slice(&0u16.to_be_bytes());
                        body.extend_from_slice(&good_addr());
                        body.extend_from_slice(b"dgram");
                    }
                    "PaddingBeyond" => {
                        body.extend_from_slice(&700u16.to_be_bytes());
                        body.extend_from_slice(&[1, 2, 3]);
                    }
                    "ShorterThanFixed" => body.truncate(5),
                    "Empty" => body.clear(),
                    _ => {
                        let Some(r) = bad_region(class, b"dgram") else { continue };
                        body.extend_from_slice(&0u16.to_be_bytes());
                        body.extend_from_slice(&r);
                    }
                }
                let wire = raw_udp2022(c, &sut::key_raw(c, 1), rng.random(), 1, &body, rng);
                let got = if s2c {
                    let mut client = cv::packet_codec(&sut::ss_client_cfg(c, 0), &Addr::V4([1, 2, 3, 4], 5).to_octo()).unwrap();
                    sut::client_packet_decode(&mut client, &mut BytesMut::from(&wire[..]))
                } else {
                    ssudp::server_decode(c, &sut::key_b64(c, 1), &[], &wire)
                };
                out.push((format!("{} ts {ts:#x}", c.name()), got));
              }
            }
        }
        "ss-legacy-udp" => {
            for c in [Cipher::Aes128Gcm, Cipher::Aes256Gcm, Cipher::ChaCha20Poly1305] {
                let Some(region) = bad_region(class, b"dgram") else { continue };
                let key = rc::evp_bytes_to_key(sut::LEGACY_PW.as_bytes(), c.key_len());
                let mut salt = vec![0u8; c.key_len()];
                rng.fill(&mut salt[..]);
                let sub = rc::legacy_subkey(&key, &salt);
                let mut wire = salt.clone();
                wire.extend_from_slice(&rc::seal(c, &sub, &rc::le_nonce(0), &region));
                out.push((format!("{} server", c.name()), ssudp::server_decode(c, sut::LEGACY_PW, &[], &wire)));
                let mut client = cv::packet_codec(&sut::ss_client_cfg(c, 0), &Addr::V4([1, 2, 3, 4], 5).to_octo()).unwrap();
                out.push((format!("{} client", c.name()), sut::client_packet_decode(&mut client, &mut BytesMut::from(&wire[..]))));
            }
        }
        "vmess-req-header" => {
            let ck = rv::cmd_key(sut::UUID_A).unwrap();
            let base = rv::VmessReq { iv: rng.random(), key: rng.random(), resp_auth: 9, option: 0x1d, security: rv::SEC_AES128_GCM, cmd: 1, addr: Addr::Domain(b"example.com".to_vec(), 443), header_padding: 0 };
            let mut fixed = base.plain_header();
            fixed.truncate(38); // version .. command
            let headers: Vec<Vec<u8>> = match class {
                "ShorterThanFixed" => vec![fixed[..10].to_vec(), fixed[..3].to_vec(), fixed[..37].to_vec(), fixed.clone(), {
                    let mut h = fixed.clone();
                    h.extend_from_slice(&[1, 187, 1, 10, 0, 0, 1]); // address but no checksum
                    h
                }],
                "Empty" => vec![vec![]],
                "BadCommand" => {
                    let mut h = fixed.clone();
                    h[37] = 7;
                    h.extend_from_slice(&[1, 187, 1, 10, 0, 0, 1]);
                    vec![with_fnv(h)]
                }
                "PaddingBeyond" => {
                    let mut h = fixed.clone();
                    h[35] = (15 << 4) | rv::SEC_AES128_GCM;
                    h.extend_from_slice(&[1, 187, 1, 10, 0, 0, 1]);
                    vec![with_fnv(h.clone()), h]
                }
                "BadAddrType" => {
                    let mut h = fixed.clone();
                    h.extend_from_slice(&[1, 187, 9, 10, 0, 0, 1]);
                    vec![with_fnv(h)]
                }
                "DomainBeyond" => {
                    let mut h = fixed.clone();
                    h.extend_from_slice(&[1, 187, 2, 200, b'a', b'b']);
                    vec![with_fnv(h)]
                }
                "AddrTruncated" => {
                    let mut h = fixed.clone();
                    h.extend_from_slice(&[1, 187, 3, 1, 2, 3, 4, 5]);
                    vec![h.clone(), with_fnv(h)]
                }
                "NonUtf8Domain" => {
                    let mut h = fixed.clone();
                    h.extend_from_slice(&[1, 187, 2, 4, 0xff, 0xfe, 0x80, 0x81]);
                    vec![with_fnv(h)]
                }
                "UnusualOptions" => {
                    // every option mask with the two documented ciphers, every security code with the usual masks
                    let mut v = Vec::new();
                    for option in 0..=255u8 {
                        for sec in [rv::SEC_AES128_GCM, rv::SEC_CHACHA20_POLY1305] {
                            let mut h = fixed.clone();
                            h[34] = option;
                            h[35] = sec;
                            h.extend_from_slice(&[1, 187, 1, 10, 0, 0, 1]);
                            v.push(with_fnv(h));
                        }
                    }
                    for sec in 0..16u8 {
                        for option in [0u8, 1, 0x1d] {
                            let mut h = fixed.clone();
                            h[34] = option;
                            h[35] = sec;
                            h.extend_from_slice(&[1, 187, 1, 10, 0, 0, 1]);
                            v.push(with_fnv(h));
                        }
                    }
                    v
                }
                // a complete, well-formed request under an auth-id stamped at the ends of the signed range and at the
                // values whose distance from the server's clock does not fit it
                "ExtremeTimestamp" => {
                    let mut h = fixed.clone();
                    h.extend_from_slice(&[1, 187, 1, 10, 0, 0, 1]);
                    vec![with_fnv(h); 10]
                }
                _ => vec![],
            };
            let n = now as i64;
            let far = [i64::MIN, i64::MIN + 1, i64::MIN.wrapping_add(n), i64::MIN.wrapping_add(n - 1), i64::MIN.wrapping_add(n + 1), i64::MIN.wrapping_add(n + 120), -1, 0, i64::MAX - 1, i64::MAX];
            for (i, h) in headers.iter().enumerate() {
                let aid = rv::auth_id(&ck, if class == "ExtremeTimestamp" { far[i % far.len()] } else { n }, rng.random(), false);
                let mut wire = rv::seal_request_header(&ck, &aid, &rng.random(), h);
                if class != "UnusualOptions" {
                    wire.extend_from_slice(&[0u8; 40]);
                }
                let l = sv::listener(&sut::vmess_server_cfg(&[sut::UUID_A])).unwrap();
                let mut codec = l.new_codec().unwrap();
                let mut got = sut::server_decode(&mut codec, &mut BytesMut::from(&wire[..]));
                if class == "UnusualOptions" && matches!(got, Got::Connect(..) | Got::Tcp(..) | Got::Udp(..) | Got::None) {
                    // the request is served: the server writes its answer (response header + first chunk) for it
                    let mut dst = BytesMut::new();
                    for _ in 0..2 {
                        match crate::util::catch(|| tokio_util::codec::Encoder::encode(&mut codec, sv::Out::Tcp(BytesMut::from(&b"answer"[..])), &mut dst)) {
                            Ok(Ok(())) => {}
                            Ok(Err(e)) => {
                                got = Got::Err(format!("answer refused: {e}"));
                                break;
                            }
                            Err(p) => {
                                got = Got::Panic(format!("while writing the answer: {p}"));
                                break;
                            }
                        }
                    }
                }
                out.push((format!("variant {i} option {:#04x} security {}", h.get(34).copied().unwrap_or(0), h.get(35).copied().unwrap_or(0)), got));
            }
        }
        "vmess-resp-header" => {
            // the server's answer begins with a sealed length and a sealed header of that length; both open under the
            // request-derived keys (a server that holds the user's id), the header is shorter than its four fixed bytes
            let ck = rv::cmd_key(sut::UUID_A).unwrap();
            for cipher in c04::VMESS {
                let lens: Vec<usize> = if class == "Empty" { vec![0] } else { vec![1, 2, 3] };
                for hl in lens {
                    let addr = Addr::Domain(b"example.com".to_vec(), 443);
                    let mut client = cv::tcp_codec(&sut::vmess_client_cfg(cipher, sut::UUID_A), &addr.to_octo()).unwrap();
                    let mut c2s = BytesMut::new();
                    if tokio_util::codec::Encoder::encode(&mut client, BytesMut::from(&b"hello"[..]), &mut c2s).is_err() {
                        continue;
                    }
                    let Some((_, h, _)) = rv::open_request_header(&ck, &c2s) else { continue };
                    let Some(req) = rv::VmessReq::parse(&h) else { continue };
                    let (rk, ri) = rv::resp_keys(&req.key, &req.iv);
                    let full = rv::seal_response_header_raw(&rk, &ri, &[req.resp_auth, req.option, 0, 0][..hl]);
                    let mut buf = BytesMut::from(&full[..]);
                    buf.extend_from_slice(&[0u8; 64]);
                    out.push((format!("{cipher} response header of {hl} bytes"), sut::client_decode(&mut client, &mut buf)));
                }
            }
        }
        "vmess-req-body" | "vmess-resp-body" => {
            // a well-formed header, possibly well-formed chunks, then a chunk whose size field is right for its position
            // (masked / sealed under the session's keys) but declares fewer bytes than its padding + tag need
            let ck = rv::cmd_key(sut::UUID_A).unwrap();
            for sec in [rv::SEC_AES128_GCM, rv::SEC_CHACHA20_POLY1305] {
                for option in [0x01u8, 0x05, 0x09, 0x0d, 0x11, 0x15, 0x19, 0x1d] {
                    if class == "ChunkShorterThanPadding" && option & rv::OPT_GLOBAL_PADDING == 0 {
                        continue;
                    }
                    // an authenticated length counts the bytes BEFORE the tag: it cannot say "shorter than a tag"
                    if class == "ChunkShorterThanTag" && option & rv::OPT_AUTH_LEN != 0 {
                        continue;
                    }
                    for good_before in [0usize, 2] {
                        for attempt in 0..6 {
                            let cipher = if sec == rv::SEC_AES128_GCM { "aes-128-gcm" } else { "chacha20-poly1305" };
                            let total = |padding: usize| -> usize {
                                if class == "ChunkShorterThanTag" { [0usize, 1, 15][attempt % 3] } else if padding == 0 { 16 } else { 16 + (attempt * 7) % padding.max(1) }
                            };
                            if dec == "vmess-req-body" {
                                let req = rv::VmessReq { iv: rng.random(), key: rng.random(), resp_auth: 9, option, security: sec, cmd: 1, addr: Addr::Domain(b"example.com".to_vec(), 443), header_padding: 0 };
                                let aid = rv::auth_id(&ck, now as i64, rng.random(), false);
                                let mut wire = rv::seal_request_header(&ck, &aid, &rng.random(), &req.plain_header());
                                let mut body = rv::VmessBody::new(option, sec, req.key, req.iv, req.key, req.iv);
                                for _ in 0..good_before {
                                    body.chunk(b"good chunk", &mut wire);
                                }
                                let (bad, padding) = body.malformed_chunk(total, 200);
                                if class == "ChunkShorterThanPadding" && padding == 0 {
                                    continue;
                                }
                                wire.extend_from_slice(&bad);
                                let l = sv::listener(&sut::vmess_server_cfg(&[sut::UUID_A])).unwrap();
                                let mut codec = l.new_codec().unwrap();
                                let mut buf = BytesMut::from(&wire[..]);
                                // decode until the decoder stops releasing: the last outcome is the verdict on the bad chunk
                                let mut last = sut::server_decode(&mut codec, &mut buf);
                                for _ in 0..8 {
                                    if !matches!(last, Got::Connect(..) | Got::Tcp(..)) {
                                        break;
                                    }
                                    last = sut::server_decode(&mut codec, &mut buf);
                                }
                                out.push((format!("{cipher} option {option:#04x} after {good_before} good chunks, padding {padding}"), last));
                            } else {
                                // the client has sent its request; the answer carries the bad chunk
                                let addr = Addr::Domain(b"example.com".to_vec(), 443);
                                let mut client = cv::tcp_codec(&sut::vmess_client_cfg(cipher, sut::UUID_A), &addr.to_octo()).unwrap();
                                let mut c2s = BytesMut::new();
                                if tokio_util::codec::Encoder::encode(&mut client, BytesMut::from(&b"hello"[..]), &mut c2s).is_err() {
                                    continue;
                                }
                                let Some((_, h, _)) = rv::open_request_header(&ck, &c2s) else { continue };
                                let Some(req) = rv::VmessReq::parse(&h) else { continue };
                                if req.option != option {
                                    continue; // the real client chooses its own option mask
                                }
                                let (rk, ri) = rv::resp_keys(&req.key, &req.iv);
                                let mut wire = rv::seal_response_header(&rk, &ri, req.resp_auth, req.option);
                                let mut body = rv::VmessBody::new(req.option, req.security, rk, ri, req.key, req.iv);
                                for _ in 0..good_before {
                                    body.chunk(b"good chunk", &mut wire);
                                }
                                let (bad, padding) = body.malformed_chunk(total, 200);
                                if class == "ChunkShorterThanPadding" && padding == 0 {
                                    continue;
                                }
                                wire.extend_from_slice(&bad);
                                let mut buf = BytesMut::from(&wire[..]);
                                let mut last = sut::client_decode(&mut client, &mut buf);
                                for _ in 0..8 {
                                    if !matches!(last, Got::Tcp(..)) {
                                        break;
                                    }
                                    last = sut::client_decode(&mut client, &mut buf);
                                }
                                out.push((format!("{cipher} option {option:#04x} after {good_before} good chunks, padding {padding}"), last));
                            }
                        }
                    }
                }
            }
        }
        "trojan-req" => {
            let l = sv::listener(&sut::trojan_server_cfg(sut::TROJAN_PW)).unwrap();
            let mut wire = rv::trojan_key(sut::TROJAN_PW).to_vec();
            wire.extend_from_slice(b"\r\n");
            match class {
                "BadCommand" => {
                    wire.push(9);
                    wire.extend_from_slice(&good_addr());
                    wire.extend_from_slice(b"\r\n");
                }
                _ => {
                    let Some(r) = bad_region(class, b"\r\nGET /") else { return out };
                    wire.push(1);
                    wire.extend_from_slice(&r);
                }
            }
            out.push(("server".to_owned(), sut::server_decode(&mut l.new_codec().unwrap(), &mut BytesMut::from(&wire[..]))));
            // the same bytes followed by more data (a too-long length would then just be a longer name)
            if class == "BadCommand" || class == "BadAddrType" {
                wire.extend_from_slice(&[b'x'; 300]);
                out.push(("server+tail".to_owned(), sut::server_decode(&mut l.new_codec().unwrap(), &mut BytesMut::from(&wire[..]))));
            }
        }
        "trojan-udp-c2s" | "trojan-udp-s2c" => {
            let frame: Vec<u8> = match class {
                "LenBeyond" => {
                    let mut v = good_addr();
                    v.extend_from_slice(&5000u16.to_be_bytes());
                    v.extend_from_slice(b"\r\nshort");
                    v
                }
                "ShorterThanFixed" => {
                    let mut v = good_addr();
                    v.push(0);
                    v
                }
                _ => match bad_region(class, &[0, 3, b'\r', b'\n', 1, 2, 3]) {
                    Some(v) => v,
                    None => return out,
                },
            };
            if dec.ends_with("c2s") {
                let l = sv::listener(&sut::trojan_server_cfg(sut::TROJAN_PW)).unwrap();
                let mut wire = rv::trojan_header(sut::TROJAN_PW, 3, &Addr::V4([1, 2, 3, 4], 53));
                wire.extend_from_slice(&frame);
                out.push(("server".to_owned(), sut::server_decode(&mut l.new_codec().unwrap(), &mut BytesMut::from(&wire[..]))));
            } else {
                let mut c = cv::packet_codec(&sut::trojan_client_cfg(sut::TROJAN_PW), &Addr::V4([1, 2, 3, 4], 53).to_octo()).unwrap();
                out.push(("client".to_owned(), sut::client_packet_decode(&mut c, &mut BytesMut::from(&frame[..]))));
            }
        }
        "socks5-udp-local" => {
            let mut wire = vec![0u8, 0, 0];
            match class {
                "ShorterThanFixed" => wire = vec![0, 0, 0, 1],
                "Empty" => wire.clear(),
                _ => match bad_region(class, b"dgram") {
                    Some(v) => wire.extend_from_slice(&v),
                    None => return out,
                },
            }
            let mut src = BytesMut::from(&wire[..]);
            let got = match util::catch(|| Socks5UdpCodec.decode(&mut src)) {
                Ok(Ok(Some((b, a)))) => Got::Udp(b.to_vec(), a.to_string()),
                Ok(Ok(None)) => Got::None,
                Ok(Err(e)) => Got::Err(e.to_string()),
                Err(p) => Got::Panic(p),
            };
            out.push(("local".to_owned(), got));
        }
        _ => {}
    }
    out
}

fn with_fnv(mut h: Vec<u8>) -> Vec<u8> {
    let f = rv::fnv1a32(&h);
    h.extend_from_slice(&f.to_be_bytes());
    h
}

/// A 2022 datagram whose sealed body is exactly `body` (right keys, arbitrary content).
fn raw_udp2022(c: Cipher, key: &[u8], sid: u64, pid: u64, body: &[u8], rng: &mut SmallRng) -> Vec<u8> {
    let mut header = [0u8; 16];
    header[..8].copy_from_slice(&sid.to_be_bytes());
    header[8..].copy_from_slice(&pid.to_be_bytes());
    if c.is_2022_aes() {
        let mut nonce = [0u8; 12];
        nonce.copy_from_slice(&header[4..16]);
        let mut sealed_header = header;
        rc::aes_ecb_encrypt(&key[..c.key_len()], &mut sealed_header);
        let mut out = sealed_header.to_vec();
        out.extend_from_slice(&rc::seal(c, &rc::session_subkey(key, &sid.to_be_bytes()), &nonce, body));
        out
    } else {
        use chacha20poly1305::aead::Aead;
        use chacha20poly1305::aead::KeyInit;
        let n24: [u8; 24] = rng.random();
        let mut plain = header.to_vec();
        plain.extend_from_slice(body);
        let mut out = n24.to_vec();
        let ct = match c {
            Cipher::ChaCha8Poly1305_2022 => chacha20poly1305::XChaCha8Poly1305::new_from_slice(&key[..32]).unwrap().encrypt((&n24).into(), &plain[..]).unwrap(),
            _ => chacha20poly1305::XChaCha20Poly1305::new_from_slice(&key[..32]).unwrap().encrypt((&n24).into(), &plain[..]).unwrap(),
        };
        out.extend_from_slice(&ct);
        out
    }
}

pub fn malformed(args: &[String]) -> anyhow::Result<()> {
    util::quiet_panics();
    let o = util::opts(args);
    let mut rng = SmallRng::seed_from_u64(util::opt_u64(&o, "seed", 1));
    for sc in util::stdin_json_lines() {
        let dec = sc["dec"].as_str().unwrap_or("");
        let class = sc["class"].as_str().unwrap_or("");
        let allowed: Vec<String> = sc["allowed"].as_array().map(|a| a.iter().filter_map(|v| v.as_str().map(|s| s.to_owned())).collect()).unwrap_or_default();
        let results = run_case(dec, class, &mut rng);
        if results.is_empty() {
            println!("{}", json!({"scenario": sc, "skipped": true}));
        }
        for (variant, got) in results {
            let oc = outcome(&got);
            println!("{}", json!({"scenario": sc, "variant": variant, "got": oc, "ok": allowed.iter().any(|a| a == oc), "detail": format!("{:?}", got).chars().take(200).collect::<String>()}));
        }
    }
    Ok(())
}

// ------------------------------------------------------------------------------------------------

struct Target {
    name: String,
    make: Box<dyn Fn() -> Option<stream::Dec>>,
}

fn targets() -> Vec<Target> {
    let mut v: Vec<Target> = Vec::new();
    let addr = Addr::Domain(b"example.com".to_vec(), 443);
    for c in Cipher::ALL {
        for users in if c.is_2022_aes() { vec![0, 2] } else { vec![0] } {
            v.push(Target { name: format!("server ss {} users={}", c.name(), users), make: Box::new(move || sv::listener(&sut::ss_server_cfg(c, users)).ok()?.new_codec().ok().map(stream::Dec::Server)) });
        }
        let a = addr.clone();
        v.push(Target {
            name: format!("client ss {}", c.name()),
            make: Box::new(move || {
                let mut cl = cv::tcp_codec(&sut::ss_client_cfg(c, 0), &a.to_octo()).ok()?;
                cl.encode(BytesMut::from(&b"x"[..]), &mut BytesMut::new()).ok()?;
                Some(stream::Dec::Client(cl))
            }),
        });
        let a = addr.clone();
        v.push(Target { name: format!("client ss-udp {}", c.name()), make: Box::new(move || cv::packet_codec(&sut::ss_client_cfg(c, 0), &a.to_octo()).ok().map(stream::Dec::ClientPkt)) });
    }
    v.push(Target { name: "server vmess".to_owned(), make: Box::new(|| sv::listener(&sut::vmess_server_cfg(&[sut::UUID_A, sut::UUID_B])).ok()?.new_codec().ok().map(stream::Dec::Server)) });
    v.push(Target { name: "server trojan".to_owned(), make: Box::new(|| sv::listener(&sut::trojan_server_cfg(sut::TROJAN_PW)).ok()?.new_codec().ok().map(stream::Dec::Server)) });
    for cipher in ["aes-128-gcm", "chacha20-poly1305"] {
        for udp in [false, true] {
            let a = addr.clone();
            v.push(Target {
                name: format!("client vmess {} udp={}", cipher, udp),
                make: Box::new(move || {
                    let cfg = sut::vmess_client_cfg(cipher, sut::UUID_A);
                    let mut cl = if udp { cv::vmess_udp_codec(&cfg, &a.to_octo()).ok()? } else { cv::tcp_codec(&cfg, &a.to_octo()).ok()? };
                    cl.encode(BytesMut::from(&b"x"[..]), &mut BytesMut::new()).ok()?;
                    Some(stream::Dec::Client(cl))
                }),
            });
        }
    }
    let a = addr.clone();
    v.push(Target { name: "client trojan-udp".to_owned(), make: Box::new(move || cv::packet_codec(&sut::trojan_client_cfg(sut::TROJAN_PW), &a.to_octo()).ok().map(stream::Dec::ClientPkt)) });
    v
}

pub fn garbage(args: &[String]) -> anyhow::Result<()> {
    util::quiet_panics();
    let o = util::opts(args);
    let seed = util::opt_u64(&o, "seed", 1);
    let random_n = util::opt_u64(&o, "random", 300);
    let exhaustive2 = o.contains_key("exhaustive2");
    let mut rng = SmallRng::seed_from_u64(seed);
    let mut inputs = 0u64;
    let mut distinct = std::collections::HashSet::new();
    let mut panics: Vec<serde_json::Value> = Vec::new();
    let mut outcomes: std::collections::BTreeMap<String, u64> = std::collections::BTreeMap::new();
    let ts = targets();
    let mut feed = |t: &Target, adapter: &str, segs: &[Vec<u8>], panics: &mut Vec<serde_json::Value>, what: &str| {
        let Some(dec) = (t.make)() else { return };
        let steps = stream::run_adapter(adapter, dec, segs, true);
        inputs += 1;
        distinct.insert((t.name.clone(), segs.concat()));
        let mut kind = "quiet";
        for s in &steps {
            if let Some(p) = &s.panic {
                kind = "panic";
                if panics.len() < 200 {
                    panics.push(json!({"target": t.name, "adapter": adapter, "what": what, "segments": segs.iter().map(|s| util::hex(s)).collect::<Vec<_>>(), "panic": p}));
                }
            } else if s.err.is_some() && kind != "panic" {
                kind = "error";
            } else if !s.items.is_empty() && kind == "quiet" {
                kind = "items";
            }
        }
        *outcomes.entry(kind.to_owned()).or_insert(0) += 1;
    };
    for t in &ts {
        // every input of length 0 and 1, every input of length 2 (optional), in one piece and byte by byte
        feed(t, "framed", &[], &mut panics, "empty");
        for b in 0..=255u8 {
            feed(t, "framed", &[vec![b]], &mut panics, "1 byte");
        }
        let step = if exhaustive2 { 1 } else { 17 };
        let mut x = 0u32;
        while x < 65536 {
            let v = vec![(x >> 8) as u8, x as u8];
            feed(t, if x % 2 == 0 { "framed" } else { "ws" }, &[v.clone()], &mut panics, "2 bytes");
            x += step;
        }
        // random inputs around the sizes the decoders compare against
        for _ in 0..random_n {
            let len = [3usize, 15, 16, 17, 18, 31, 32, 33, 34, 42, 43, 50, 58, 59, 60, 61, 62, 70, 100, 300][rng.random_range(0..20)];
            let mut v: Vec<u8> = (0..len).map(|_| rng.random()).collect();
            // sometimes make it look like the start of each protocol
            match rng.random_range(0..4) {
                0 => {
                    let k = rv::trojan_key(sut::TROJAN_PW);
                    let n = k.len().min(v.len());
                    v[..n].copy_from_slice(&k[..n]);
                    if v.len() > 58 {
                        v[56] = b'\r';
                        v[57] = b'\n';
                    }
                }
                1 => {
                    for b in v.iter_mut().take(56) {
                        *b |= 0x80; // non-ASCII where a hex key is expected
                    }
                    if v.len() > 58 {
                        v[56] = b'\r';
                        v[57] = b'\n';
                    }
                }
                _ => {}
            }
            let cutpos = rng.random_range(0..=v.len());
            let segs = if rng.random_range(0..2) == 0 { vec![v.clone()] } else { vec![v[..cutpos].to_vec(), v[cutpos..].to_vec()] };
            let segs: Vec<Vec<u8>> = segs.into_iter().filter(|s| !s.is_empty()).collect();
            feed(t, if rng.random_range(0..2) == 0 { "framed" } else { "ws" }, &segs, &mut panics, "random");
        }
    }
    // every truncation of a valid stream of every protocol, then end of stream
    let mut trunc = 0u64;
    for layout in c04::all_layouts() {
        let (protos, nwrites) = c04::protos_for_layout(layout);
        for proto in &protos {
            let writes: Vec<usize> = (0..nwrites).map(|i| [5usize, 40, 3][i % 3]).collect();
            let Ok(probe) = stream::fixture(proto, &writes, "real", 0, &mut rng) else { continue };
            let len = probe.wire.len();
            let stride = if exhaustive2 { 1 } else { 3 };
            let mut cut_at = 0;
            while cut_at <= len {
                let Ok(mut fx) = stream::fixture(proto, &writes, "real", 0, &mut rng) else { break };
                let at = cut_at.min(fx.wire.len());
                let segs: Vec<Vec<u8>> = if at == 0 { vec![] } else { vec![fx.wire[..at].to_vec()] };
                let dec = fx.dec.take().unwrap();
                let steps = stream::run_adapter(if cut_at % 2 == 0 { "framed" } else { "ws" }, dec, &segs, true);
                trunc += 1;
                for s in &steps {
                    if let Some(p) = &s.panic {
                        if panics.len() < 200 {
                            panics.push(json!({"target": proto, "what": format!("valid stream truncated at {at} of {len}, then end of stream"), "panic": p}));
                        }
                    }
                }
                cut_at += stride;
            }
        }
    }
    println!("{}", json!({"summary": true, "inputs": inputs + trunc, "distinct": distinct.len() as u64 + trunc, "targets": ts.len(), "truncations": trunc,
        "outcomes": outcomes, "panics": panics.len(), "examples": panics.iter().take(25).collect::<Vec<_>>()}));
    Ok(())
}
