//! C09: the process-wide datagram cipher cache under concurrency.
//!
//! `c09-replay`  spec -> impl: each TLC behaviour of SharedState (a schedule of Call / Acquire / Body / Exit / Use steps of
//!               2-3 threads) is replayed on REAL threads that encode datagrams through the REAL SessionCodec (and so through
//!               the real get_cipher) with the sync-point controller.  While one thread is parked inside the cache region,
//!               the thread that the schedule lets in next is released early: the specification says it cannot get in.
//! `c09-stress`  impl -> spec: N OS threads encode and decode without any controller; the Region marker's enter / exit events
//!               are written as an NDJSON trace for TraceSharedState; every produced datagram is opened by the reference
//!               codec and every reference-made datagram by the real decoder (corrupted output is an outcome).
use std::sync::Arc;
use std::sync::atomic::AtomicBool;
use std::sync::atomic::AtomicU64;
use std::sync::atomic::Ordering;

use bytes::BytesMut;
use octo_squirrel::codec::shadowsocks::udp::AEADCipherCodec;
use octo_squirrel::codec::shadowsocks::udp::Context;
use octo_squirrel::codec::shadowsocks::udp::Session;
use octo_squirrel::codec::shadowsocks::udp::SessionCodec;
use octo_squirrel::manager::shadowsocks::ServerUserManager;
use octo_squirrel::protocol::shadowsocks::Mode;
use octo_squirrel::verif as hooks;
use rand::Rng;
use rand::SeedableRng;
use rand::rngs::SmallRng;
use serde_json::Value;
use serde_json::json;

use crate::refcodec as rc;
use crate::refcodec::Addr;
use crate::refcodec::Cipher;
use crate::ssudp;
use crate::sut;
use crate::util;

/// One server-side codec shared by every thread (as the server's datagram loop and its tasks share theirs): the key lives
/// at one address, so equal session ids mean equal cache keys.
fn shared_codec(c: Cipher) -> &'static SessionCodec<'static, 16> {
    let key: &'static [u8; 16] = Box::leak(Box::new(<[u8; 16]>::try_from(&sut::key_raw(c, 1)[..]).unwrap()));
    let ikeys: &'static Vec<[u8; 16]> = Box::leak(Box::new(Vec::new()));
    let um: ServerUserManager<16> = ServerUserManager::new();
    let ctx = Context::new(Mode::Server, Some(Arc::new(um)), &key[..], &ikeys[..]);
    Box::leak(Box::new(SessionCodec::<16>::new(ctx, AEADCipherCodec::new(ssudp::kind(c)))))
}

const CIPHER: Cipher = Cipher::Aes128Gcm2022;

fn target() -> Addr {
    Addr::V4([127, 0, 0, 1], 5353)
}

/// Encode one server -> client datagram for session `sid` with the real codec and open it with the reference codec.
fn encode_and_check(codec: &SessionCodec<'static, 16>, client_sid: u64, sid: u64, pid: u64, payload: &[u8]) -> Result<(), String> {
    let mut dst = BytesMut::new();
    let session = Session::new(client_sid, sid, pid, None);
    match util::catch(|| codec.encode((BytesMut::from(payload), target().to_octo(), session), &mut dst)) {
        Ok(Ok(())) => {}
        Ok(Err(e)) => return Err(format!("encode error: {e}")),
        Err(p) => return Err(format!("panic: {p}")),
    }
    let key = sut::key_raw(CIPHER, 1);
    match rc::open_udp2022(CIPHER, &key, &key, 0, true, &dst) {
        Some(p) if p.session_id == sid && p.packet_id == pid && p.payload == payload && p.client_session_id == Some(client_sid) => Ok(()),
        Some(p) => Err(format!("datagram opens but differs: sid {} pid {} len {}", p.session_id, p.packet_id, p.payload.len())),
        None => Err("datagram of the real encoder does not open under the session's key".to_owned()),
    }
}

/// Build a client -> server datagram with the reference codec and decode it with the real codec.
fn decode_and_check(codec: &SessionCodec<'static, 16>, sid: u64, pid: u64, payload: &[u8], rng: &mut SmallRng) -> Result<(), String> {
    let p = rc::Udp2022 { session_id: sid, packet_id: pid, typ: 0, ts: rc::unix_now(), client_session_id: None, padding: 0, addr: target(), payload: payload.to_vec() };
    let mut nonce = [0u8; 24];
    rng.fill(&mut nonce[..]);
    let wire = rc::udp2022_packet(CIPHER, &sut::key_b64(CIPHER, 1), &p, &nonce);
    let mut src = BytesMut::from(&wire[..]);
    match util::catch(|| codec.decode(&mut src)) {
        Ok(Ok(Some((content, _, session)))) if content[..] == payload[..] && session.client_session_id == sid && session.packet_id == pid => Ok(()),
        Ok(Ok(Some(_))) => Err("decoded datagram differs from what was sent".to_owned()),
        Ok(Ok(None)) => Err("decoder returned nothing".to_owned()),
        Ok(Err(e)) => Err(format!("decode error: {e}")),
        Err(p) => Err(format!("panic: {p}")),
    }
}

static BASE: AtomicU64 = AtomicU64::new(0);

fn run_schedule(sc: &Value, codec: &'static SessionCodec<'static, 16>, seed: u64) -> Value {
    let n = sc["threads"].as_u64().unwrap_or(2);
    let ops = sc["ops"].as_u64().unwrap_or(1);
    // fresh session ids per scenario, so that earlier scenarios' cache entries do not turn inserts into hits
    let base = (seed << 32) ^ (BASE.fetch_add(1, Ordering::SeqCst) << 12) ^ 0x0100_0000_0000_0000;
    let keys: Vec<Vec<u64>> = (0..n as usize)
        .map(|t| sc["keys"][t].as_array().map(|a| a.iter().map(|k| k.as_u64().unwrap_or(0)).collect()).unwrap_or_default())
        .collect();
    hooks::reset_region_max();
    hooks::install_controller();
    let mut handles = Vec::new();
    let mut done = Vec::new();
    for tag in 1..=n {
        let d = Arc::new(AtomicBool::new(false));
        done.push(d.clone());
        let ks = keys[(tag - 1) as usize].clone();
        handles.push(std::thread::spawn(move || {
            hooks::set_thread_tag(tag);
            let mut errs = Vec::new();
            for i in 0..ops as usize {
                let sid = base + ks.get(i).copied().unwrap_or(0);
                let payload = format!("t{tag}-op{i}-sid{sid}").into_bytes();
                if let Err(e) = encode_and_check(codec, 0xC11E_0000 + tag, sid, (tag << 20) + i as u64 + 1, &payload) {
                    errs.push(e);
                }
            }
            d.store(true, Ordering::SeqCst);
            errs
        }));
    }
    let is_done = |tag: u64| done[(tag - 1) as usize].load(Ordering::SeqCst);
    // where is thread `tag` now?  Some(point) once parked, None when finished; Err when neither within the cap
    let locate = |tag: u64, cap_ms: u64| -> Result<Option<String>, ()> {
        for _ in 0..cap_ms.div_ceil(2) {
            if is_done(tag) {
                return Ok(None);
            }
            if let Some(p) = hooks::wait_parked(tag, 2) {
                return Ok(Some(p));
            }
        }
        Err(())
    };
    let sched: Vec<(u64, String)> = sc["sched"].as_array().map(|a| a.iter().map(|s| (s[0].as_u64().unwrap_or(0), s[1].as_str().unwrap_or("").to_owned())).collect()).unwrap_or_default();
    let mut diverged: Option<String> = None;
    let mut overlap: Option<String> = None;
    let mut early: Vec<u64> = Vec::new(); // threads released from cache.before ahead of their Acquire step
    let mut inside_now: Option<u64> = None; // model: who is inside the region
    let mut probes = 0;
    'outer: for (i, (tag, action)) in sched.iter().enumerate() {
        let tag = *tag;
        // probe: while somebody is parked inside, the next thread the schedule lets in is released early
        if let Some(h) = inside_now {
            if let Some((u, _)) = sched[i..].iter().find(|(_, a)| a == "Acquire") {
                let u = *u;
                let called = sched[..i].iter().filter(|(t, a)| *t == u && a == "Call").count();
                let acquired = sched[..i].iter().filter(|(t, a)| *t == u && a == "Acquire").count();
                if u != h && called > acquired && !early.contains(&u) {
                    if let Ok(Some(p)) = locate(u, 400) {
                        if p == "cache.before" {
                            hooks::release(u);
                            early.push(u);
                            probes += 1;
                            std::thread::sleep(std::time::Duration::from_millis(25));
                            if let Some(p2) = hooks::wait_parked(u, 25) {
                                if p2 == "region.enter" || p2 == "region.exit" {
                                    overlap = Some(format!("step {i}: thread {u} entered the cache region while thread {h} was inside it"));
                                    break 'outer;
                                }
                            }
                        }
                    }
                }
            }
        }
        let (want, next_inside): (&str, Option<Option<u64>>) = match action.as_str() {
            "Call" => ("", None),
            "Acquire" => ("cache.before", Some(Some(tag))),
            "Body" => ("region.enter", None),
            "Exit" => ("region.exit", Some(None)),
            _ => ("", None),
        };
        if want.is_empty() {
            continue;
        }
        if action == "Acquire" && early.contains(&tag) {
            // already past cache.before: it must now arrive inside
            early.retain(|x| *x != tag);
        } else {
            match locate(tag, 3000) {
                Ok(Some(p)) if p == want => hooks::release(tag),
                Ok(Some(p)) => {
                    diverged = Some(format!("step {i}: thread {tag} is at {p}, the schedule expects {action} ({want})"));
                    break 'outer;
                }
                Ok(None) => {
                    diverged = Some(format!("step {i}: thread {tag} already finished, the schedule expects {action}"));
                    break 'outer;
                }
                Err(()) => {
                    diverged = Some(format!("step {i}: thread {tag} neither parked nor finished before {action}"));
                    break 'outer;
                }
            }
        }
        // the step is complete when the thread is parked at its next point (or has finished)
        let after = match action.as_str() {
            "Acquire" => Some("region.enter"),
            "Body" => Some("region.exit"),
            _ => None,
        };
        match locate(tag, 3000) {
            Ok(Some(p)) => {
                if let Some(a) = after {
                    if p != a {
                        diverged = Some(format!("after step {i} ({action}): thread {tag} is at {p}, expected {a}"));
                        break 'outer;
                    }
                }
            }
            Ok(None) => {
                if after.is_some() {
                    diverged = Some(format!("after step {i} ({action}): thread {tag} finished, expected it at {}", after.unwrap_or("")));
                    break 'outer;
                }
            }
            Err(()) => {
                diverged = Some(format!("after step {i} ({action}): thread {tag} neither parked nor finished"));
                break 'outer;
            }
        }
        if let Some(x) = next_inside {
            inside_now = x;
        }
    }
    // let everything run to completion
    for _ in 0..3000 {
        if (1..=n).all(is_done) {
            break;
        }
        for tag in 1..=n {
            if !is_done(tag) && hooks::wait_parked(tag, 1).is_some() {
                hooks::release(tag);
            }
        }
    }
    hooks::remove_controller();
    let mut errs: Vec<String> = Vec::new();
    for h in handles {
        match h.join() {
            Ok(e) => errs.extend(e),
            Err(_) => errs.push("thread panicked".to_owned()),
        }
    }
    let max_inside = hooks::region_max_inside();
    json!({"ok": diverged.is_none() && overlap.is_none() && errs.is_empty() && max_inside <= 1,
           "diverged": diverged, "overlap": overlap, "max_inside": max_inside, "output_errors": errs, "probes": probes})
}

pub fn replay(args: &[String]) -> anyhow::Result<()> {
    let o = util::opts(args);
    let seed = util::opt_u64(&o, "seed", 1);
    util::quiet_panics();
    let codec = shared_codec(CIPHER);
    for sc in util::stdin_json_lines() {
        let mut r = run_schedule(&sc, codec, seed);
        r["scenario"] = sc;
        println!("{r}");
    }
    Ok(())
}

pub fn stress(args: &[String]) -> anyhow::Result<()> {
    let o = util::opts(args);
    let seed = util::opt_u64(&o, "seed", 1);
    let threads = util::opt_u64(&o, "threads", 8);
    let ops = util::opt_u64(&o, "ops", 2000);
    let pool = util::opt_u64(&o, "sessions", 64);
    let out = o.get("out").cloned().unwrap_or_else(|| "c09-trace.ndjson".to_owned());
    util::quiet_panics();
    let codec = shared_codec(CIPHER);
    hooks::reset_region_max();
    hooks::install_memory_sink();
    let bad = Arc::new(std::sync::Mutex::new(Vec::<String>::new()));
    let mut handles = Vec::new();
    for tag in 1..=threads {
        let bad = bad.clone();
        handles.push(std::thread::spawn(move || {
            hooks::set_thread_tag(tag);
            let mut rng = SmallRng::seed_from_u64(seed.wrapping_mul(1000).wrapping_add(tag));
            let base = (seed << 40) ^ 0x0200_0000_0000_0000;
            for i in 0..ops {
                // a small pool of sessions shared by all threads (hits) with a steady trickle of new ones (inserts)
                let sid = if rng.random_range(0..4) == 0 { base + (tag << 24) + i } else { base + rng.random_range(0..pool) };
                let len = rng.random_range(0..200usize);
                let payload: Vec<u8> = (0..len).map(|j| (j as u64 ^ sid ^ i) as u8).collect();
                let r = if rng.random_bool(0.5) {
                    encode_and_check(codec, 0xC11E_0000 + tag, sid, (tag << 32) + i + 1, &payload)
                } else {
                    decode_and_check(codec, sid, (tag << 32) + i + 1, &payload, &mut rng)
                };
                if let Err(e) = r {
                    let mut b = bad.lock().unwrap_or_else(|e| e.into_inner());
                    if b.len() < 20 {
                        b.push(format!("thread {tag} op {i}: {e}"));
                    }
                }
            }
        }));
    }
    let mut panicked = 0;
    for h in handles {
        if h.join().is_err() {
            panicked += 1;
        }
    }
    let lines = hooks::drain_memory_sink();
    let mut f = std::io::BufWriter::new(std::fs::File::create(&out)?);
    use std::io::Write;
    let mut events = 0;
    for l in &lines {
        if let Ok(v) = serde_json::from_str::<Value>(l) {
            let ev = v["ev"].as_str().unwrap_or("");
            if ev == "enter" || ev == "exit" {
                writeln!(f, "{}", json!({"ev": ev, "th": v["th"], "inside": v["inside"], "seq": v["seq"]}))?;
                events += 1;
            }
        }
    }
    f.flush()?;
    let bad = bad.lock().unwrap_or_else(|e| e.into_inner()).clone();
    println!("{}", json!({"threads": threads, "ops": ops, "events": events, "max_inside": hooks::region_max_inside(), "bad_outputs": bad, "threads_panicked": panicked, "trace": out}));
    Ok(())
}

/// One Shadowsocks 2022 request (reference codec), printed as hex: the bytes that C09's same-handshake scenario presents on
/// many connections at once.
pub fn request(args: &[String]) -> anyhow::Result<()> {
    let o = util::opts(args);
    let c = Cipher::from_name(o.get("cipher").map(String::as_str).unwrap_or("")).ok_or_else(|| anyhow::anyhow!("cipher"))?;
    let password = o.get("password").cloned().unwrap_or_default();
    let port = util::opt_u64(&o, "target-port", 0) as u16;
    let payload = util::unhex(o.get("payload").map(String::as_str).unwrap_or(""));
    let mut rng = SmallRng::seed_from_u64(util::opt_u64(&o, "seed", 1) ^ rc::unix_now());
    let mut salt = vec![0u8; c.key_len()];
    rng.fill(&mut salt[..]);
    let r = rc::Req2022 { typ: 0, ts: rc::unix_now(), addr: Addr::V4([127, 0, 0, 1], port), padding: 0, first_payload: payload, salt };
    println!("{}", json!({"hex": util::hex(&rc::ss2022_request(c, &password, &r).out)}));
    Ok(())
}

/// impl -> spec, salt cache: `threads` connections of one server (one shared context) present the very same Shadowsocks 2022
/// request at the same moment (spin barrier), round after round, each round with a fresh request. One event per round for
/// TraceSharedState: SameHandshake(copies, accepted) - exactly one copy may be accepted.
pub fn salt_stress(args: &[String]) -> anyhow::Result<()> {
    use std::sync::atomic::AtomicUsize;
    let o = util::opts(args);
    let seed = util::opt_u64(&o, "seed", 1);
    let threads = util::opt_u64(&o, "threads", 8) as usize;
    let rounds = util::opt_u64(&o, "rounds", 1500) as usize;
    let out = o.get("out").cloned().unwrap_or_else(|| "c09-salt.ndjson".to_owned());
    util::quiet_panics();
    let mut rng = SmallRng::seed_from_u64(seed);
    let mut f = std::io::BufWriter::new(std::fs::File::create(&out)?);
    use std::io::Write;
    let mut worst = 0usize;
    let mut bad_rounds = 0usize;
    for (c, users) in [(Cipher::Aes128Gcm2022, 0usize), (Cipher::Aes256Gcm2022, 2), (Cipher::ChaCha20Poly1305_2022, 0)] {
        let listener = Arc::new(octo_squirrel_server::server::verif::listener(&sut::ss_server_cfg(c, users))?);
        let requests: Arc<Vec<Vec<u8>>> = Arc::new((0..rounds).map(|_| crate::c10::request_bytes(c, users, rc::unix_now(), 0, &mut rng)).collect());
        let arrived = Arc::new(AtomicUsize::new(0));
        let accepted: Arc<Vec<AtomicUsize>> = Arc::new((0..rounds).map(|_| AtomicUsize::new(0)).collect());
        let mut hs = Vec::new();
        for _ in 0..threads {
            let (l, reqs, arrived, accepted) = (listener.clone(), requests.clone(), arrived.clone(), accepted.clone());
            hs.push(std::thread::spawn(move || {
                for r in 0..reqs.len() {
                    // spin barrier: everybody starts round r together
                    arrived.fetch_add(1, Ordering::SeqCst);
                    while arrived.load(Ordering::SeqCst) < (r + 1) * threads {
                        std::hint::spin_loop();
                    }
                    if crate::c10::present(&l, &reqs[r]).verdict() == "accept" {
                        accepted[r].fetch_add(1, Ordering::SeqCst);
                    }
                }
            }));
        }
        for h in hs {
            let _ = h.join();
        }
        for a in accepted.iter() {
            let k = a.load(Ordering::SeqCst);
            worst = worst.max(k);
            if k != 1 {
                bad_rounds += 1;
            }
            writeln!(f, "{}", json!({"ev": "SameHandshake", "copies": threads, "accepted": k, "conf": c.name()}))?;
        }
    }
    f.flush()?;
    println!("{}", json!({"rounds": rounds * 3, "threads": threads, "bad_rounds": bad_rounds, "most_accepted": worst, "trace": out}));
    Ok(())
}
