//! C12 / C03: the wire as sessions of sealed units. `c12-record` drives the real encoders (every protocol,
//! cipher, direction; streams and datagrams; many sessions, many writes of many sizes), opens what they
//! produce with the reference opener and logs Session / Fresh / Unit events for TraceWire.tla.
//! `c03-replay` runs abstract message scripts from TLC in both directions: real encoder -> reference opener,
//! reference encoder (including legal choices the real encoder never makes) -> real decoder.

use std::collections::HashMap;
use std::io::Write;

use bytes::BytesMut;
use octo_squirrel_client::client::verif as cv;
use octo_squirrel_server::server::verif as sv;
use rand::Rng;
use rand::SeedableRng;
use rand::rngs::SmallRng;
use serde_json::json;
use tokio_util::codec::Encoder;

use crate::c04;
use crate::refcodec as rc;
use crate::refcodec::Addr;
use crate::refcodec::Cipher;
use crate::refvmess as rv;
use crate::ssudp;
use crate::stream;
use crate::sut;
use crate::util;

#[derive(Default)]
struct Ids {
    map: HashMap<Vec<u8>, i64>,
}

impl Ids {
    fn id(&mut self, tag: &str, bytes: &[u8]) -> i64 {
        let mut k = tag.as_bytes().to_vec();
        k.push(0);
        k.extend_from_slice(bytes);
        let n = self.map.len() as i64 + 1;
        *self.map.entry(k).or_insert(n)
    }
}

struct Rec<W: Write> {
    w: W,
    fresh: Vec<String>,
    ids: Ids,
    units: u64,
    sessions: u64,
}

impl<W: Write> Rec<W> {
    fn session(&mut self, proto: &str, dir: &str, fmt: &str, limit: usize) {
        self.sessions += 1;
        let _ = writeln!(self.w, "{}", json!({"ev": "Session", "proto": proto, "dir": dir, "fmt": fmt, "limit": limit}));
    }

    fn fresh(&mut self, what: &str, bytes: &[u8]) {
        let id = self.ids.id(what, bytes);
        self.fresh.push(json!({"ev": "Fresh", "what": what, "id": id}).to_string());
    }

    fn unit(&mut self, kind: &str, key: &[u8], nonce: i64, counted: bool, plain: usize) {
        let k = self.ids.id("key", key);
        self.units += 1;
        let _ = writeln!(self.w, "{}", json!({"ev": "Unit", "kind": kind, "key": k, "nonce": nonce, "counted": counted, "plain": plain}));
    }
}

const WRITE_SIZES: [usize; 12] = [1, 2, 15, 16, 17, 255, 1400, 2047, 2048, 2049, 16383, 16384];

fn pick_sizes(rng: &mut SmallRng, big: bool) -> Vec<usize> {
    let n = rng.random_range(1..6);
    let mut v: Vec<usize> = (0..n).map(|_| WRITE_SIZES[rng.random_range(0..WRITE_SIZES.len())]).collect();
    if big && rng.random_range(0..4) == 0 {
        v.push([16385usize, 40000, 65535, 70000][rng.random_range(0..4)]);
    }
    v
}

fn ss_stream_session<W: Write>(r: &mut Rec<W>, c: Cipher, users: usize, rng: &mut SmallRng) -> Result<(), String> {
    let addr = stream::test_addr(rng.random_range(0..3));
    let (cp, sp, us) = sut::ss_passwords(c, users);
    let n = c.key_len();
    let mut client = cv::tcp_codec(&sut::ss_client_cfg(c, users), &addr.to_octo()).map_err(|e| e.to_string())?;
    let listener = sv::listener(&sut::ss_server_cfg(c, users)).map_err(|e| e.to_string())?;
    let limit = if c.is_2022() { 0xffff } else { 0x3fff };
    // client -> server
    let mut c2s = BytesMut::new();
    for l in pick_sizes(rng, true) {
        client.encode(BytesMut::from(&vec![0x41u8; l][..]), &mut c2s).map_err(|e| e.to_string())?;
    }
    let master: Vec<u8> = if c.is_2022() { rc::keys_2022(&cp).0 } else { rc::evp_bytes_to_key(cp.as_bytes(), n) };
    let o = rc::open_ss_stream(c, &master, &c2s, if users > 0 { 1 } else { 0 }, if c.is_2022() { Some(11) } else { None });
    if o.failed_at.is_some() || o.rest != 0 {
        return Err(format!("reference opener cannot read the real client's {} stream (failed at {:?})", c.name(), o.failed_at));
    }
    r.session(&format!("ss:{}", c.name()), "c2s", "ss-stream", limit);
    r.fresh("salt", &o.salt);
    let sub = if c.is_2022() { rc::session_subkey(&master, &o.salt).to_vec() } else { rc::legacy_subkey(&master, &o.salt) };
    let alen = addr.socks().len();
    let mut first_pay = !c.is_2022();
    for u in &o.units {
        if u.kind == "eih" {
            continue;
        }
        // the first legacy payload carries the address: that is protocol, not application payload
        let plain = if u.kind == "pay" && first_pay {
            first_pay = false;
            u.plain.len() - alen
        } else {
            u.plain.len()
        };
        r.unit(u.kind, &sub, u.nonce, true, if u.kind == "var" { 0 } else { plain });
    }
    // server -> client
    let mut server = listener.new_codec().map_err(|e| e.to_string())?;
    if !matches!(sut::server_decode(&mut server, &mut c2s.clone()), sut::Got::Connect(..)) {
        return Err(format!("real server does not accept the real client's {} request", c.name()));
    }
    let mut s2c = BytesMut::new();
    for l in pick_sizes(rng, true) {
        server.encode(sv::Out::Tcp(BytesMut::from(&vec![0x42u8; l][..])), &mut s2c).map_err(|e| e.to_string())?;
    }
    let master2: Vec<u8> = if c.is_2022() { if users > 0 { rc::b64(&us[0].1) } else { rc::b64(&sp) } } else { master.clone() };
    let o = rc::open_ss_stream(c, &master2, &s2c, 0, if c.is_2022() { Some(1 + 8 + n + 2) } else { None });
    if o.failed_at.is_some() || o.rest != 0 {
        return Err(format!("reference opener cannot read the real server's {} stream (failed at {:?})", c.name(), o.failed_at));
    }
    r.session(&format!("ss:{}", c.name()), "s2c", "ss-stream", limit);
    r.fresh("salt", &o.salt);
    let sub = if c.is_2022() { rc::session_subkey(&master2, &o.salt).to_vec() } else { rc::legacy_subkey(&master2, &o.salt) };
    for u in &o.units {
        r.unit(u.kind, &sub, u.nonce, true, if u.kind == "var" { 0 } else { u.plain.len() });
    }
    Ok(())
}

fn vmess_session<W: Write>(r: &mut Rec<W>, cipher: &str, udp: bool, rng: &mut SmallRng) -> Result<(), String> {
    let addr = stream::test_addr(rng.random_range(0..3));
    let ccfg = sut::vmess_client_cfg(cipher, sut::UUID_A);
    let mut client = if udp { cv::vmess_udp_codec(&ccfg, &addr.to_octo()) } else { cv::tcp_codec(&ccfg, &addr.to_octo()) }.map_err(|e| e.to_string())?;
    let listener = sv::listener(&sut::vmess_server_cfg(&[sut::UUID_A])).map_err(|e| e.to_string())?;
    let ck = rv::cmd_key(sut::UUID_A).unwrap();
    let mut c2s = BytesMut::new();
    for l in pick_sizes(rng, !udp) {
        client.encode(BytesMut::from(&vec![0x43u8; l.min(if udp { 16000 } else { usize::MAX })][..]), &mut c2s).map_err(|e| e.to_string())?;
    }
    let (_, h, hlen) = rv::open_request_header(&ck, &c2s).ok_or("reference opener cannot open the real client's VMess header")?;
    let req = rv::VmessReq::parse(&h).ok_or("reference parser rejects the real client's VMess header")?;
    r.session(&format!("vmess:{cipher}"), "c2s", "vmess-stream", 1 << 14);
    r.fresh("vmess-body-key", &req.key);
    r.fresh("vmess-body-iv", &req.iv);
    r.fresh("vmess-auth-id", &c2s[..16]);
    r.fresh("vmess-conn-nonce", &c2s[34..42]);
    // the two header units are sealed under keys derived from (auth id, connection nonce): fresh per connection
    r.unit("hdrlen", &[&c2s[..16], &c2s[34..42], b"len"].concat(), 0, false, 2);
    r.unit("hdr", &[&c2s[..16], &c2s[34..42], b"hdr"].concat(), 0, false, h.len());
    let mut body = rv::VmessBody::new(req.option, req.security, req.key, req.iv, req.key, req.iv);
    let (units, failed, rest) = body.open_all(&c2s[hlen..], hlen);
    if failed.is_some() || rest != 0 {
        return Err(format!("reference opener cannot read the real client's VMess body (failed at {:?})", failed));
    }
    for u in &units {
        match u.kind {
            "size" if u.nonce >= 0 => r.unit("size", &[&req.key[..], b"auth_len c2s"].concat(), u.nonce, true, 2),
            "pay" => r.unit("pay", &[&req.key[..], b"body c2s"].concat(), u.nonce, true, u.plain.len()),
            _ => {}
        }
    }
    // response
    let mut server = listener.new_codec().map_err(|e| e.to_string())?;
    let got = sut::server_decode(&mut server, &mut c2s.clone());
    if !matches!(got, sut::Got::Connect(..) | sut::Got::Udp(..)) {
        return Err(format!("real VMess server does not accept the real client's request: {:?}", got));
    }
    let mut s2c = BytesMut::new();
    for l in pick_sizes(rng, !udp) {
        let b = BytesMut::from(&vec![0x44u8; l.min(if udp { 16000 } else { usize::MAX })][..]);
        let item = if udp { sv::Out::Udp(b, "10.1.2.3:80".parse().unwrap()) } else { sv::Out::Tcp(b) };
        server.encode(item, &mut s2c).map_err(|e| e.to_string())?;
    }
    let (rk, ri) = rv::resp_keys(&req.key, &req.iv);
    let (rh, rhl) = rv::open_response_header(&rk, &ri, &s2c).ok_or("reference opener cannot open the real server's VMess response header")?;
    if rh[0] != req.resp_auth {
        return Err("response authentication byte differs from the request's".to_owned());
    }
    r.session(&format!("vmess:{cipher}"), "s2c", "vmess-stream", 1 << 14);
    r.unit("hdrlen", &[&rk[..], b"resp len"].concat(), 0, false, 2);
    r.unit("hdr", &[&rk[..], b"resp hdr"].concat(), 0, false, rh.len());
    let mut body = rv::VmessBody::new(req.option, req.security, rk, ri, req.key, req.iv);
    let (units, failed, rest) = body.open_all(&s2c[rhl..], rhl);
    if failed.is_some() || rest != 0 {
        return Err(format!("reference opener cannot read the real server's VMess body (failed at {:?})", failed));
    }
    for u in &units {
        match u.kind {
            // the authenticated-length cipher uses the request key and IV in both directions (as v2ray does):
            // the ledger keeps the directions apart, the reuse across them is the protocol's own
            "size" if u.nonce >= 0 => r.unit("size", &[&req.key[..], b"auth_len s2c"].concat(), u.nonce, true, 2),
            "pay" => r.unit("pay", &[&rk[..], b"body s2c"].concat(), u.nonce, true, u.plain.len()),
            _ => {}
        }
    }
    Ok(())
}

fn ss_udp_session<W: Write>(r: &mut Rec<W>, c: Cipher, users: usize, rng: &mut SmallRng) -> Result<(), String> {
    let addr = stream::test_addr(rng.random_range(0..3));
    let (cp, sp, us) = sut::ss_passwords(c, users);
    let mut client = cv::packet_codec(&sut::ss_client_cfg(c, users), &addr.to_octo()).map_err(|e| e.to_string())?;
    let n = rng.random_range(1..8);
    r.session(&format!("ss-udp:{}", c.name()), "c2s", "datagram", 0xffff);
    let mut sid_logged = false;
    let (key, _) = if c.is_2022() { rc::keys_2022(&cp) } else { (rc::evp_bytes_to_key(cp.as_bytes(), c.key_len()), vec![]) };
    let header_key = if c.is_2022() && users > 0 { rc::keys_2022(&cp).1[0].clone() } else { key.clone() };
    let mut csid = 0u64;
    let reply_ssid: u64 = rng.random();
    let mut replies_fed = 0u64;
    for i in 0..n {
        // Replies arrive while the client keeps sending, and fewer of them than it has sent (unanswered datagrams, two
        // requests in flight): the server's packet ids run behind the client's.  What the client reads must not touch
        // the counter it writes with.
        if c.is_2022() && sid_logged && i % 2 == 0 {
            use tokio_util::codec::Decoder;
            let user = if users > 0 { Some(0) } else { None };
            replies_fed += 1;
            let reply = ssudp::server_encode(c, &sp, &us, user, (csid, reply_ssid, replies_fed), &addr.to_octo(), b"reply while sending")?;
            match crate::util::catch(|| client.decode(&mut BytesMut::from(&reply[..]))) {
                Ok(Ok(Some(_))) => {}
                other => return Err(format!("the real client refuses a reply of its own session made by the real server codec ({}): {:?}", c.name(), other.map(|r| r.map(|o| o.is_some()).map_err(|e| e.to_string())))),
            }
        }
        let mut w = BytesMut::new();
        let payload = vec![0x45u8; [0usize, 1, 100, 1400, 8000][rng.random_range(0..5)]];
        client.encode((BytesMut::from(&payload[..]), addr.to_octo()), &mut w).map_err(|e| e.to_string())?;
        if c.is_2022() {
            let p = rc::open_udp2022(c, &key, &header_key, if users > 0 { 1 } else { 0 }, false, &w).ok_or_else(|| format!("reference opener cannot read the real client's {} datagram", c.name()))?;
            if p.payload != payload || p.addr != addr {
                return Err("datagram content differs".to_owned());
            }
            if !sid_logged {
                r.fresh("udp-session-id", &p.session_id.to_be_bytes());
                sid_logged = true;
                csid = p.session_id;
            }
            if c.is_2022_aes() {
                // key = subkey(session id), nonce = packet id
                r.unit("dgram", &[&key[..], &p.session_id.to_be_bytes()[..]].concat(), p.packet_id as i64 - 1, true, payload.len());
            } else {
                let nid = r.ids.id("xnonce", &w[..24]);
                r.fresh("udp-random-nonce", &w[..24]);
                r.unit("dgram", &key, nid, false, payload.len());
            }
        } else {
            let (a, p) = rc::open_legacy_udp(c, &key, &w).ok_or("reference opener cannot read the real client's legacy datagram")?;
            if p != payload || a != addr {
                return Err("datagram content differs".to_owned());
            }
            r.fresh("salt", &w[..c.key_len()]);
            r.unit("dgram", &rc::legacy_subkey(&key, &w[..c.key_len()]), 0, false, payload.len());
        }
    }
    // server -> client datagrams of that association, sealed by the real server-side codec
    if c.is_2022() {
        let ssid: u64 = rng.random();
        r.fresh("udp-session-id", &ssid.to_be_bytes());
        let user = if users > 0 { Some(0) } else { None };
        let ukey = if users > 0 { rc::b64(&us[0].1) } else { rc::b64(&sp) };
        r.session(&format!("ss-udp:{}", c.name()), "s2c", "datagram", 0xffff);
        for pid in 1..=rng.random_range(1..6u64) {
            let w = ssudp::server_encode(c, &sp, &us, user, (csid, ssid, pid), &addr.to_octo(), b"reply")?;
            let p = rc::open_udp2022(c, &ukey, &ukey, 0, true, &w).ok_or_else(|| format!("reference opener cannot read the real server's {} datagram", c.name()))?;
            if p.client_session_id != Some(csid) || p.payload != b"reply" {
                return Err("server datagram content differs".to_owned());
            }
            if c.is_2022_aes() {
                r.unit("dgram", &[&ukey[..], &ssid.to_be_bytes()[..]].concat(), pid as i64 - 1, true, 5);
            } else {
                let nid = r.ids.id("xnonce", &w[..24]);
                r.fresh("udp-random-nonce", &w[..24]);
                r.unit("dgram", &ukey, nid, false, 5);
            }
        }
    }
    Ok(())
}

/// SentFresh: a message that carries a timestamp is stamped when it is SENT.  The session object (the per-connection
/// codec) is created at clock offset `base`, the clock is then moved on by `idle` seconds before the first write goes
/// through it, and the reference opener reads the timestamp the real encoder put on the wire: `dts` = that timestamp
/// minus the (shifted) clock at the moment of the write.  Logged as Stamp events for TraceWire.
fn stamp_sessions<W: Write>(w: &mut W, rng: &mut SmallRng, errors: &mut Vec<String>) -> u64 {
    use octo_squirrel::verif::set_clock_offset;
    let mut n = 0u64;
    let now_shifted = |off: i64| rc::unix_now() as i64 + off;
    for idle in [0i64, 31, 45, 300] {
        for c in Cipher::ALL {
            if !c.is_2022() {
                continue;
            }
            let base = rng.random_range(-400..400i64) * 2 + 1; // never 0 (0 = real clock)
            let addr = stream::test_addr(rng.random_range(0..3));
            let (cp, sp, _us) = sut::ss_passwords(c, 0);
            let key_len = c.key_len();
            let res = (|| -> Result<Vec<(String, i64)>, String> {
                let mut out = Vec::new();
                // stream request
                set_clock_offset(base);
                let mut client = cv::tcp_codec(&sut::ss_client_cfg(c, 0), &addr.to_octo()).map_err(|e| e.to_string())?;
                let listener = sv::listener(&sut::ss_server_cfg(c, 0)).map_err(|e| e.to_string())?;
                let mut server = listener.new_codec().map_err(|e| e.to_string())?;
                set_clock_offset(base + idle);
                let mut c2s = BytesMut::new();
                client.encode(BytesMut::from(&b"ping"[..]), &mut c2s).map_err(|e| e.to_string())?;
                let at = now_shifted(base + idle);
                let master = rc::keys_2022(&cp).0;
                let o = rc::open_ss_stream(c, &master, &c2s, 0, Some(11));
                let fixed = o.units.iter().find(|u| u.kind == "fixed").ok_or("no fixed header in the real client's request")?;
                let ts = u64::from_be_bytes(fixed.plain[1..9].try_into().unwrap()) as i64;
                out.push(("ss2022-req".to_owned(), ts - at));
                // stream response: the server codec exists since `base`, its first answer is written idle seconds later
                let got = sut::server_decode(&mut server, &mut c2s.clone());
                if !matches!(got, sut::Got::Connect(..)) {
                    out.push(("ss2022-req-refused-by-real-server".to_owned(), 999));
                } else {
                    set_clock_offset(base + 2 * idle);
                    let mut s2c = BytesMut::new();
                    server.encode(sv::Out::Tcp(BytesMut::from(&b"pong"[..])), &mut s2c).map_err(|e| e.to_string())?;
                    let at = now_shifted(base + 2 * idle);
                    let o = rc::open_ss_stream(c, &rc::b64(&sp), &s2c, 0, Some(1 + 8 + key_len + 2));
                    let fixed = o.units.iter().find(|u| u.kind == "fixed").ok_or("no fixed header in the real server's response")?;
                    let ts = u64::from_be_bytes(fixed.plain[1..9].try_into().unwrap()) as i64;
                    out.push(("ss2022-resp".to_owned(), ts - at));
                }
                // datagram
                set_clock_offset(base);
                let mut pc = cv::packet_codec(&sut::ss_client_cfg(c, 0), &addr.to_octo()).map_err(|e| e.to_string())?;
                set_clock_offset(base + idle);
                let mut w = BytesMut::new();
                pc.encode((BytesMut::from(&b"dgram"[..]), addr.to_octo()), &mut w).map_err(|e| e.to_string())?;
                let at = now_shifted(base + idle);
                let key = rc::keys_2022(&cp).0;
                let p = rc::open_udp2022(c, &key, &key, 0, false, &w).ok_or("reference opener cannot read the real client's datagram")?;
                out.push(("ss2022-udp-c2s".to_owned(), p.ts as i64 - at));
                Ok(out)
            })();
            set_clock_offset(0);
            match res {
                Ok(rows) => {
                    for (what, dts) in rows {
                        let _ = writeln!(w, "{}", json!({"ev": "Stamp", "what": what, "cipher": c.name(), "idle": idle, "dts": dts}));
                        n += 1;
                    }
                }
                Err(e) => errors.push(format!("stamp {}: {e}", c.name())),
            }
        }
        for cipher in c04::VMESS {
            let base = rng.random_range(-400..400i64) * 2 + 1;
            let addr = stream::test_addr(0);
            let res = (|| -> Result<i64, String> {
                set_clock_offset(base);
                let mut client = cv::tcp_codec(&sut::vmess_client_cfg(cipher, sut::UUID_A), &addr.to_octo()).map_err(|e| e.to_string())?;
                set_clock_offset(base + idle);
                let mut c2s = BytesMut::new();
                client.encode(BytesMut::from(&b"ping"[..]), &mut c2s).map_err(|e| e.to_string())?;
                let at = now_shifted(base + idle);
                let ck = rv::cmd_key(sut::UUID_A).unwrap();
                let (t, _, _) = rv::open_request_header(&ck, &c2s).ok_or("reference opener cannot open the real client's VMess header")?;
                Ok(t - at)
            })();
            set_clock_offset(0);
            match res {
                Ok(dts) => {
                    let _ = writeln!(w, "{}", json!({"ev": "Stamp", "what": "vmess-auth", "cipher": cipher, "idle": idle, "dts": dts}));
                    n += 1;
                }
                Err(e) => errors.push(format!("stamp vmess:{cipher}: {e}")),
            }
        }
    }
    n
}

pub fn record(args: &[String]) -> anyhow::Result<()> {
    util::quiet_panics();
    let o = util::opts(args);
    let seed = util::opt_u64(&o, "seed", 1);
    let rounds = util::opt_u64(&o, "rounds", 3);
    let out = o.get("out").cloned().unwrap_or_else(|| "c12".to_owned());
    let batch = util::opt_u64(&o, "batch", 4000);
    let mut rng = SmallRng::seed_from_u64(seed);
    let mut files: Vec<String> = Vec::new();
    let mut file_no = 0;
    let new_file = |n: usize| -> anyhow::Result<(String, std::io::BufWriter<std::fs::File>)> {
        let p = format!("{out}_{n}.ndjson");
        Ok((p.clone(), std::io::BufWriter::new(std::fs::File::create(&p)?)))
    };
    let (p, w) = new_file(file_no)?;
    files.push(p);
    let mut r = Rec { w, fresh: Vec::new(), ids: Ids::default(), units: 0, sessions: 0 };
    let mut errors: Vec<String> = Vec::new();
    let mut total_units = 0u64;
    let mut total_sessions = 0u64;
    for _ in 0..rounds {
        for c in Cipher::ALL {
            for users in if c.is_2022_aes() { vec![0, 2] } else { vec![0] } {
                if let Err(e) = ss_stream_session(&mut r, c, users, &mut rng) {
                    errors.push(e);
                }
                if let Err(e) = ss_udp_session(&mut r, c, users, &mut rng) {
                    errors.push(e);
                }
            }
        }
        for cipher in c04::VMESS {
            for udp in [false, true] {
                if let Err(e) = vmess_session(&mut r, cipher, udp, &mut rng) {
                    errors.push(e);
                }
            }
        }
        if r.units >= batch {
            r.w.flush()?;
            total_units += r.units;
            total_sessions += r.sessions;
            file_no += 1;
            let (p, w) = new_file(file_no)?;
            files.push(p);
            r.w = w;
            r.units = 0;
            r.sessions = 0;
        }
    }
    r.w.flush()?;
    total_units += r.units;
    total_sessions += r.sessions;
    // all fresh values of the whole run in one trace of their own (distinctness across every session)
    let fp = format!("{out}_fresh.ndjson");
    {
        let mut fw = std::io::BufWriter::new(std::fs::File::create(&fp)?);
        writeln!(fw, "{}", json!({"ev": "Session", "proto": "all", "dir": "-", "fmt": "datagram", "limit": 0}))?;
        for l in &r.fresh {
            writeln!(fw, "{l}")?;
        }
        fw.flush()?;
    }
    let sp = format!("{out}_stamp.ndjson");
    let stamps = {
        let mut sw = std::io::BufWriter::new(std::fs::File::create(&sp)?);
        writeln!(sw, "{}", json!({"ev": "Session", "proto": "all", "dir": "-", "fmt": "datagram", "limit": 0}))?;
        let n = stamp_sessions(&mut sw, &mut rng, &mut errors);
        sw.flush()?;
        n
    };
    println!("{}", json!({"summary": true, "files": files, "fresh_file": fp, "stamp_file": sp, "stamps": stamps, "fresh_values": r.fresh.len(), "sessions": total_sessions, "units": total_units,
        "errors": errors.len(), "examples": errors.iter().take(8).collect::<Vec<_>>()}));
    Ok(())
}

/// One VMess connection that lives longer than its 16-bit chunk counter has values: `chunks` one-byte writes through the
/// real client encoder, opened by the reference opener (whose counter wraps, as v2ray's uint16 does) and logged as units;
/// and the same number of reference-made chunks through the real server decoder.
pub fn long_session(args: &[String]) -> anyhow::Result<()> {
    util::quiet_panics();
    let o = util::opts(args);
    let chunks = util::opt_u64(&o, "chunks", 66000) as usize;
    let out = o.get("out").cloned().unwrap_or_else(|| "c12_long".to_owned());
    let mut rng = SmallRng::seed_from_u64(util::opt_u64(&o, "seed", 1));
    let mut errors: Vec<String> = Vec::new();
    let mut files: Vec<String> = Vec::new();
    let mut units_total = 0u64;
    for cipher in c04::VMESS {
        let addr = stream::test_addr(0);
        let ccfg = sut::vmess_client_cfg(cipher, sut::UUID_A);
        let ck = rv::cmd_key(sut::UUID_A).unwrap();
        // real encoder -> reference opener
        let run = (|| -> Result<String, String> {
            let mut client = cv::tcp_codec(&ccfg, &addr.to_octo()).map_err(|e| e.to_string())?;
            let mut c2s = BytesMut::new();
            for i in 0..chunks {
                client.encode(BytesMut::from(&[(i % 251) as u8][..]), &mut c2s).map_err(|e| format!("encode of write {i}: {e}"))?;
            }
            let (_, h, hlen) = rv::open_request_header(&ck, &c2s).ok_or("reference opener cannot open the real client's VMess header")?;
            let req = rv::VmessReq::parse(&h).ok_or("reference parser rejects the real client's VMess header")?;
            let mut body = rv::VmessBody::new(req.option, req.security, req.key, req.iv, req.key, req.iv);
            let (units, failed, rest) = body.open_all(&c2s[hlen..], hlen);
            let pays = units.iter().filter(|u| u.kind == "pay").count();
            if failed.is_some() || rest != 0 {
                return Err(format!("vmess:{cipher}: the reference opener (16-bit counter that wraps to 0) cannot read chunk {} of {} written by the real encoder", pays + 1, chunks));
            }
            for (i, u) in units.iter().filter(|u| u.kind == "pay").enumerate() {
                if u.plain != [(i % 251) as u8] {
                    return Err(format!("vmess:{cipher}: chunk {} opens to other bytes than were written", i + 1));
                }
            }
            let p = format!("{out}_{cipher}.ndjson");
            let mut w = std::io::BufWriter::new(std::fs::File::create(&p).map_err(|e| e.to_string())?);
            let mut r = Rec { w: &mut w, fresh: Vec::new(), ids: Ids::default(), units: 0, sessions: 0 };
            r.session(&format!("vmess:{cipher}"), "c2s", "vmess-stream", 1 << 14);
            r.unit("hdrlen", &[&c2s[..16], &c2s[34..42], b"len"].concat(), 0, false, 2);
            r.unit("hdr", &[&c2s[..16], &c2s[34..42], b"hdr"].concat(), 0, false, h.len());
            for u in &units {
                match u.kind {
                    "size" if u.nonce >= 0 => r.unit("size", &[&req.key[..], b"auth_len c2s"].concat(), u.nonce, true, 2),
                    "pay" => r.unit("pay", &[&req.key[..], b"body c2s"].concat(), u.nonce, true, u.plain.len()),
                    _ => {}
                }
            }
            units_total += r.units;
            drop(r);
            w.flush().map_err(|e| e.to_string())?;
            Ok(p)
        })();
        match run {
            Ok(p) => files.push(p),
            Err(e) => errors.push(e),
        }
        // reference encoder -> real decoder
        let sec = if cipher == "aes-128-gcm" { rv::SEC_AES128_GCM } else { rv::SEC_CHACHA20_POLY1305 };
        let req = rv::VmessReq { iv: rng.random(), key: rng.random(), resp_auth: rng.random(), option: 0x1d, security: sec, cmd: 1, addr: addr.clone(), header_padding: 0 };
        let aid = rv::auth_id(&ck, rc::unix_now() as i64, rng.random(), false);
        let mut wire = rv::seal_request_header(&ck, &aid, &rng.random(), &req.plain_header());
        let mut body = rv::VmessBody::new(req.option, sec, req.key, req.iv, req.key, req.iv);
        for i in 0..chunks {
            body.chunk(&[(i % 251) as u8], &mut wire);
        }
        let res = (|| -> Result<(), String> {
            let listener = sv::listener(&sut::vmess_server_cfg(&[sut::UUID_A])).map_err(|e| e.to_string())?;
            let mut server = listener.new_codec().map_err(|e| e.to_string())?;
            let mut buf = BytesMut::from(&wire[..]);
            let mut got = 0usize;
            loop {
                match sut::server_decode(&mut server, &mut buf) {
                    sut::Got::Connect(b, _) | sut::Got::Tcp(b) => {
                        for x in b {
                            if x != (got % 251) as u8 {
                                return Err(format!("vmess:{cipher}: the real decoder released other bytes than the reference wrote at chunk {}", got + 1));
                            }
                            got += 1;
                        }
                    }
                    sut::Got::None => break,
                    other => return Err(format!("vmess:{cipher}: the real decoder refuses chunk {} of {} written by the reference encoder (16-bit counter that wraps to 0): {:?}", got + 1, chunks, other)),
                }
            }
            if got != chunks {
                return Err(format!("vmess:{cipher}: the real decoder released {got} of {chunks} chunks"));
            }
            Ok(())
        })();
        if let Err(e) = res {
            errors.push(e);
        }
    }
    println!("{}", json!({"summary": true, "files": files, "units": units_total, "chunks": chunks, "errors": errors}));
    Ok(())
}

// ------------------------------------------------------------------------------------------------
// C03: message scripts in both directions

pub fn c03_replay(args: &[String]) -> anyhow::Result<()> {
    util::quiet_panics();
    let o = util::opts(args);
    let mut rng = SmallRng::seed_from_u64(util::opt_u64(&o, "seed", 1));
    let stdout = std::io::stdout();
    for (idx, sc) in util::stdin_json_lines().iter().enumerate() {
        let family = sc["family"].as_str().unwrap_or("");
        let dir = sc["dir"].as_str().unwrap_or("req");
        let producer = sc["producer"].as_str().unwrap_or("real");
        let sizes: Vec<usize> = sc["sizes"].as_array().map(|a| a.iter().map(|v| v.as_u64().unwrap_or(1) as usize).collect()).unwrap_or_default();
        let mask = sc["mask"].as_u64().unwrap_or(0x1d);
        let protos: Vec<String> = match family {
            "ss-legacy" => c04::LEGACY.iter().map(|c| format!("ss-{dir}:{c}")).collect(),
            "ss2022" => c04::C2022.iter().map(|c| format!("ss-{dir}:{c}")).collect(),
            "ss2022-eih" => c04::C2022[..2].iter().map(|c| format!("ss-{dir}:{c}:eih")).collect(),
            "vmess" => c04::VMESS.iter().map(|c| format!("vmess-{dir}:{c}:{mask}")).collect(),
            "vmess-udp" => c04::VMESS.iter().map(|c| format!("vmess-udp-{dir}:{c}:{mask}")).collect(),
            "trojan" => vec![format!("trojan-{dir}")],
            "trojan-udp" => vec![format!("trojan-udp-{dir}")],
            "ss2022-eih2" | "ss2022-eih3" => {
                // a chain of identity keys: judged header by header against the reference
                for c in [Cipher::Aes128Gcm2022, Cipher::Aes256Gcm2022] {
                    let why = eih_chain(c, if family == "ss2022-eih2" { 2 } else { 3 }, sizes.first().copied().unwrap_or(1), &mut rng);
                    writeln!(stdout.lock(), "{}", json!({"scenario": sc, "proto": format!("ss-req:{}:eih-chain", c.name()), "ok": why.is_empty(), "why": why}))?;
                }
                vec![]
            }
            _ => vec![],
        };
        for proto in protos {
            let mut why: Vec<String> = Vec::new();
            match stream::fixture(&proto, &sizes, producer, idx, &mut rng) {
                Err(e) => why.push(format!("{e:#}")),
                Ok(mut fx) => {
                    // sender limits, as seen by the reference opener
                    let limit = if proto.contains("2022") { 0xffff } else if proto.starts_with("ss-") { 0x3fff } else { 1 << 14 };
                    for f in &fx.fields {
                        if (f.name == "pay" || f.name == "body" || f.name == "dgram" || f.name == "var") && f.plain > limit {
                            why.push(format!("a {} unit carries {} payload bytes, the sender limit is {}", f.name, f.plain, limit));
                        }
                    }
                    let (steps, arrived, first) = c04::run_cuts(&mut fx, "framed", &[]);
                    why.extend(c04::judge(&fx, &steps, &arrived, first));
                }
            }
            writeln!(stdout.lock(), "{}", json!({"scenario": sc, "proto": proto, "ok": why.is_empty(), "why": why}))?;
        }
    }
    Ok(())
}

/// The real client with `hops` identity keys in its password (iPSK_1:..:iPSK_hops:uPSK): every identity header on the wire
/// must be the one SIP023 prescribes - header i = AES-ECB(identity_subkey(iPSK_i, salt), blake3(next key)[..16]) - and the
/// rest of the request must open under the user key.
fn eih_chain(c: Cipher, hops: usize, first_write: usize, rng: &mut SmallRng) -> Vec<String> {
    let mut why = Vec::new();
    let keys: Vec<Vec<u8>> = (0..=hops).map(|i| sut::key_raw(c, 120 + i as u8)).collect();
    let pw: String = keys.iter().map(|k| rc::b64e(k)).collect::<Vec<_>>().join(":");
    let addr = stream::test_addr(rng.random_range(0..3));
    let cfg = json!({"host":"127.0.0.1","port":1,"password":pw,"protocol":"shadowsocks","cipher":c.name()}).to_string();
    let mut client = match cv::tcp_codec(&cfg, &addr.to_octo()) {
        Ok(x) => x,
        Err(e) => return vec![format!("client refuses a password with {hops} identity keys: {e}")],
    };
    let payload = vec![0x5au8; first_write.min(60000)];
    let mut wire = BytesMut::new();
    if let Err(e) = client.encode(BytesMut::from(&payload[..]), &mut wire) {
        return vec![format!("encode: {e}")];
    }
    let n = c.key_len();
    if wire.len() < n + 16 * hops {
        return vec!["request shorter than salt + identity headers".to_owned()];
    }
    let salt = wire[..n].to_vec();
    for i in 0..hops {
        let sub = rc::identity_subkey(&keys[i], &salt);
        let mut block: [u8; 16] = blake3::hash(&keys[i + 1]).as_bytes()[..16].try_into().unwrap();
        rc::aes_ecb_encrypt(&sub[..n], &mut block);
        if wire[n + 16 * i..n + 16 * (i + 1)] != block {
            why.push(format!("identity header {} of {} is not AES(identity_subkey(iPSK_{}, salt), blake3(key_{})[..16])", i + 1, hops, i + 1, i + 2));
        }
    }
    let o = rc::open_ss_stream(c, &keys[hops], &wire, hops, Some(11));
    if o.failed_at.is_some() || o.rest != 0 {
        why.push(format!("the request behind the identity headers does not open under the user key (failed at {:?})", o.failed_at));
    } else {
        let plain: Vec<u8> = o.units.iter().filter(|u| u.kind == "var" || u.kind == "pay").flat_map(|u| u.plain.clone()).collect();
        if !plain.ends_with(&payload) {
            why.push("payload differs".to_owned());
        }
    }
    why
}
