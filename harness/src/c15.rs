//! C15 / C01: the sink contract under back-pressure (SinkClose.tla).  `c15-sink` replays every schedule TLC exports
//! (send / close poll / peer read) on the REAL `WebSocketFramed` sink over a bounded in-memory transport and records what
//! is observable: bytes accepted, the result of every `poll_close`, what the peer could read.  Once `poll_close` has
//! reported Ready the adapter is never polled again (the relay drops it): what the peer can still read then is `Final`.

use std::io::Read;
use std::io::Write;
use std::task::Poll;

use bytes::BytesMut;
use futures::SinkExt;
use futures::StreamExt;
use octo_squirrel::codec::BytesCodec;
use octo_squirrel::codec::WebSocketFramed;
use serde_json::Value;
use serde_json::json;

use crate::util;

fn noop_cx<R>(f: impl FnOnce(&mut std::task::Context<'_>) -> R) -> R {
    let waker = futures::task::noop_waker();
    let mut cx = std::task::Context::from_waker(&waker);
    f(&mut cx)
}

/// Reads what the peer can get right now: (payload bytes, close frame seen, stream ended).
fn drain<S>(peer: &mut tokio_websockets::WebSocketStream<S>, max_msgs: usize) -> (usize, bool)
where
    S: tokio::io::AsyncRead + tokio::io::AsyncWrite + Unpin,
{
    let mut n = 0;
    let mut close = false;
    let mut msgs = 0;
    let mut quiet = 0;
    while quiet < 3 && msgs < max_msgs {
        match noop_cx(|cx| peer.poll_next_unpin(cx)) {
            Poll::Ready(Some(Ok(m))) => {
                quiet = 0;
                if m.is_close() {
                    close = true;
                } else if m.is_binary() || m.is_text() {
                    n += m.as_payload().len();
                    msgs += 1;
                }
            }
            Poll::Ready(Some(Err(_))) | Poll::Ready(None) => break,
            Poll::Pending => quiet += 1,
        }
    }
    (n, close)
}

fn run_one(script: &[Value], unit: usize, cap_units: usize, drain_msgs: usize, out: &mut Vec<Value>) {
    let rt = tokio::runtime::Builder::new_current_thread().enable_all().build().unwrap();
    rt.block_on(async {
        let (a, b) = tokio::io::duplex(cap_units * unit + unit / 2);
        let limits = tokio_websockets::Limits::default().max_payload_len(Some(1 << 24));
        let mut peer = tokio_websockets::ClientBuilder::new().limits(limits).take_over(a);
        let ws = tokio_websockets::ServerBuilder::new().serve(b);
        let mut sink: WebSocketFramed<_, BytesCodec, BytesMut, BytesMut> = WebSocketFramed::new(ws, BytesCodec);
        out.push(json!({"ev": "Reset", "unit": unit, "cap": cap_units}));
        let mut ready = false;
        for st in script {
            match st["op"].as_str().unwrap_or("") {
                "send" => match noop_cx(|cx| sink.poll_ready_unpin(cx)) {
                    Poll::Ready(Ok(())) => {
                        if sink.start_send_unpin(BytesMut::from(&vec![0x5au8; unit][..])).is_ok() {
                            out.push(json!({"ev": "Send", "n": unit}));
                        } else {
                            out.push(json!({"ev": "NotReady", "why": "start_send failed"}));
                        }
                    }
                    _ => out.push(json!({"ev": "NotReady", "why": "poll_ready pending"})),
                },
                "close" => {
                    let r = noop_cx(|cx| sink.poll_close_unpin(cx));
                    ready = matches!(r, Poll::Ready(Ok(())));
                    out.push(json!({"ev": "ClosePoll", "ready": ready}));
                    if ready {
                        break;
                    }
                }
                "drain" => {
                    let (n, close) = drain(&mut peer, drain_msgs);
                    out.push(json!({"ev": "Drained", "n": n, "close": close}));
                }
                _ => {}
            }
        }
        // the adapter is not polled any more (a relay that saw Ready drops it after the grace; one that did not keeps polling)
        if ready {
            std::mem::forget(sink); // not even its destructor runs: what is in the transport is all there is
            let (n, close) = drain(&mut peer, usize::MAX);
            out.push(json!({"ev": "Final", "n": n, "close": close}));
        }
    });
}

pub fn sink_replay(args: &[String]) -> anyhow::Result<()> {
    util::quiet_panics();
    let o = util::opts(args);
    let outp = o.get("out").cloned().unwrap_or_else(|| "c15_sink.ndjson".to_owned());
    let mut input = String::new();
    std::io::stdin().read_to_string(&mut input)?;
    let mut events: Vec<Value> = Vec::new();
    let mut runs = 0u64;
    for line in input.lines() {
        let Ok(sc) = serde_json::from_str::<Value>(line) else { continue };
        let Some(script) = sc["script"].as_array() else { continue };
        // concretisations of the model's unit and capacity: item sizes around the library's internal flush threshold
        for (unit, cap) in [(3000usize, 2usize), (9000, 2), (40000, 1), (70000, 2), (1200, 3)] {
            for drain_msgs in [1usize, usize::MAX] {
                run_one(script, unit, cap, drain_msgs, &mut events);
                runs += 1;
            }
        }
    }
    let mut w = std::io::BufWriter::new(std::fs::File::create(&outp)?);
    for e in &events {
        writeln!(w, "{e}")?;
    }
    w.flush()?;
    let closes_ready = events.iter().filter(|e| e["ev"] == "ClosePoll" && e["ready"] == true).count();
    let closes_pending = events.iter().filter(|e| e["ev"] == "ClosePoll" && e["ready"] == false).count();
    println!("{}", json!({"summary": true, "file": outp, "runs": runs, "events": events.len(), "close_ready": closes_ready, "close_pending": closes_pending}));
    Ok(())
}
