//! Engine A core: fixtures (a valid wire stream of one protocol/direction with its field table and the
//! real decoder that must read it) and the two real adapters the code uses around its decoders:
//! `tokio_util::codec::FramedRead` over a scripted transport and `WebSocketFramed` over an in-memory
//! WebSocket. A run delivers chosen segments and reports what the adapter yielded after each one.
#![allow(dead_code)]

use std::collections::VecDeque;
use std::pin::Pin;
use std::sync::Arc;
use std::sync::Mutex;
use std::task::Context;
use std::task::Poll;
use std::task::Waker;

use bytes::BytesMut;
use futures::SinkExt;
use futures::StreamExt;
use octo_squirrel::codec::WebSocketFramed;
use octo_squirrel_client::client::verif as cv;
use octo_squirrel_server::server::verif as sv;
use rand::Rng;
use rand::rngs::SmallRng;
use serde_json::Value;
use serde_json::json;
use tokio::io::AsyncRead;
use tokio::io::ReadBuf;
use tokio_util::codec::Decoder;
use tokio_util::codec::Encoder;
use tokio_util::codec::FramedRead;

use crate::refcodec as rc;
use crate::refcodec::Addr;
use crate::refcodec::Cipher;
use crate::refvmess as rv;
use crate::sut;

// ------------------------------------------------------------------------------------------------
// items and the unified decoder

#[derive(Clone, Debug, PartialEq, Eq)]
pub enum Item {
    Connect(Vec<u8>, String),
    Data(Vec<u8>),
    Udp(Vec<u8>, String),
}

pub enum Dec {
    Server(sv::ServerCodec),
    Client(cv::ClientStream),
    /// a client stream codec whose items are datagrams (VMess UDP): no address on the items
    ClientDgram(cv::ClientStream),
    ClientPkt(cv::ClientPacket),
}

impl Decoder for Dec {
    type Item = Item;
    type Error = anyhow::Error;

    fn decode(&mut self, src: &mut BytesMut) -> anyhow::Result<Option<Item>> {
        Ok(match self {
            Dec::Server(c) => c.decode(src)?.map(|i| match i {
                sv::In::ConnectTcp(b, a) => Item::Connect(b.to_vec(), a.to_string()),
                sv::In::RelayTcp(b) => Item::Data(b.to_vec()),
                sv::In::RelayUdp(b, a) => Item::Udp(b.to_vec(), a.to_string()),
            }),
            Dec::Client(c) => c.decode(src)?.map(|b| Item::Data(b.to_vec())),
            Dec::ClientDgram(c) => c.decode(src)?.map(|b| Item::Udp(b.to_vec(), String::new())),
            Dec::ClientPkt(c) => c.decode(src)?.map(|(b, a)| Item::Udp(b.to_vec(), a.to_string())),
        })
    }
}

impl Encoder<()> for Dec {
    type Error = anyhow::Error;

    fn encode(&mut self, _: (), _: &mut BytesMut) -> anyhow::Result<()> {
        Ok(())
    }
}

// ------------------------------------------------------------------------------------------------
// fixtures

#[derive(Clone, Debug)]
pub struct Field {
    pub name: &'static str,
    pub len: usize,
    /// plaintext bytes delivered when this field's group completes (raw: as its bytes arrive)
    pub plain: usize,
    /// fields of one group are awaited together (all-or-nothing)
    pub group: usize,
    pub raw: bool,
}

pub struct Fixture {
    pub proto: String,
    pub wire: Vec<u8>,
    pub fields: Vec<Field>,
    /// index of the last group of the handshake (its completion makes the connect item due); -1 = none
    pub hs_group: i64,
    pub connect: Option<String>,
    pub plain: Vec<u8>,
    pub datagrams: Vec<(Vec<u8>, String)>,
    pub datagram_mode: bool,
    /// Shadowsocks 2022: the first read must hold this many bytes (exempt boundary); 0 otherwise
    pub exempt_first: usize,
    pub dec: Option<Dec>,
}

impl Fixture {
    pub fn layout_json(&self) -> Value {
        json!({
            "fields": self.fields.iter().map(|f| json!({"name": f.name, "len": f.len, "plain": f.plain, "group": f.group, "raw": f.raw})).collect::<Vec<_>>(),
            "hs_group": self.hs_group, "datagram": self.datagram_mode, "exempt_first": self.exempt_first,
            "total": self.wire.len(), "plain_total": if self.datagram_mode { self.datagrams.iter().map(|d| d.0.len()).sum() } else { self.plain.len() },
        })
    }

    /// Ideal deliverable state after `arrived` bytes: (connect due, plaintext bytes, datagram items).
    pub fn deliverable(&self, arrived: usize) -> (bool, usize, usize) {
        let mut pos = 0usize;
        let mut plain = 0usize;
        let mut items = 0usize;
        let mut connect = self.hs_group < 0;
        let mut i = 0;
        while i < self.fields.len() {
            let g = self.fields[i].group;
            let mut j = i;
            let mut glen = 0;
            let mut gplain = 0;
            while j < self.fields.len() && self.fields[j].group == g {
                glen += self.fields[j].len;
                gplain += self.fields[j].plain;
                j += 1;
            }
            if self.fields[i].raw {
                let got = arrived.saturating_sub(pos).min(glen);
                plain += got;
                if got < glen {
                    break;
                }
            } else if pos + glen <= arrived {
                plain += gplain;
                if self.datagram_mode && self.fields[i].name == "dgram" {
                    items += 1;
                }
            } else {
                break;
            }
            if g as i64 == self.hs_group {
                connect = true;
            }
            pos += glen;
            i = j;
        }
        (connect && self.hs_group >= 0, plain, items)
    }

    /// Deliverable when only the first `nfields` fields are trustworthy (`bytes` = their total length).
    pub fn deliverable_before(&self, nfields: usize, bytes: usize) -> (bool, usize, usize) {
        // a group counts only if all of its fields lie before the tamper point
        let mut usable = bytes;
        if nfields < self.fields.len() {
            let g = self.fields[nfields].group;
            let mut k = nfields;
            while k > 0 && self.fields[k - 1].group == g && !self.fields[k - 1].raw {
                k -= 1;
                usable -= self.fields[k].len;
            }
        }
        self.deliverable(usable)
    }

    pub fn field_start(&self, idx: usize) -> usize {
        self.fields[..idx].iter().map(|f| f.len).sum()
    }
}

fn pattern(tag: u8, len: usize) -> Vec<u8> {
    (0..len).map(|i| (i as u8).wrapping_mul(31).wrapping_add(tag)).collect()
}

pub fn test_addr(kind: usize) -> Addr {
    // the shortest names there are make the shortest complete headers there are
    match kind % 5 {
        0 => Addr::Domain(b"target.example.org".to_vec(), 8443),
        1 => Addr::V4([10, 1, 2, 3], 80),
        2 => Addr::V6([0x20, 1, 0xd, 0xb8, 0, 0, 0, 0, 0, 0, 0, 0, 0, 0, 0, 1], 443),
        3 => Addr::Domain(b"a".to_vec(), 22),
        _ => Addr::Domain(b"io".to_vec(), 25),
    }
}

fn addr_string(a: &Addr) -> String {
    a.to_octo().to_string()
}

fn cipher_of(proto: &str) -> Cipher {
    proto.split(':').nth(1).and_then(Cipher::from_name).unwrap_or(Cipher::Aes128Gcm2022)
}

/// Build a fixture. `proto` is e.g. "ss-req:aes-128-gcm", "ss-resp:2022-blake3-aes-256-gcm", "ss-req:2022-blake3-aes-128-gcm:eih",
/// "vmess-req:aes-128-gcm", "vmess-resp:chacha20-poly1305", "vmess-udp-req:aes-128-gcm", "vmess-udp-resp:aes-128-gcm",
/// "trojan-req", "trojan-resp", "trojan-udp-req", "trojan-udp-resp".
/// `producer`: "real" = the real peer encoder makes the bytes; "ref" = the reference codec makes them.
pub fn fixture(proto: &str, writes: &[usize], producer: &str, addr_kind: usize, rng: &mut SmallRng) -> anyhow::Result<Fixture> {
    let kind = proto.split(':').next().unwrap_or("");
    match kind {
        "ss-req" | "ss-resp" => ss_fixture(proto, writes, producer, addr_kind, rng),
        "vmess-req" | "vmess-resp" | "vmess-udp-req" | "vmess-udp-resp" => vmess_fixture(proto, writes, producer, addr_kind, rng),
        "trojan-req" | "trojan-resp" | "trojan-udp-req" | "trojan-udp-resp" => trojan_fixture(proto, writes, producer, addr_kind, rng),
        _ => anyhow::bail!("unknown proto {proto}"),
    }
}

fn ss_fixture(proto: &str, writes: &[usize], producer: &str, addr_kind: usize, rng: &mut SmallRng) -> anyhow::Result<Fixture> {
    let c = cipher_of(proto);
    let eih = proto.ends_with(":eih");
    let users = if eih { 2 } else { 0 };
    let req = proto.starts_with("ss-req");
    let addr = test_addr(addr_kind);
    let n = c.key_len();
    let (cp, sp, us) = sut::ss_passwords(c, users);
    let plains: Vec<Vec<u8>> = writes.iter().enumerate().map(|(i, l)| pattern(i as u8 + 1, *l)).collect();
    let all_plain: Vec<u8> = plains.concat();
    let mut client = cv::tcp_codec(&sut::ss_client_cfg(c, users), &addr.to_octo())?;
    let listener = sv::listener(&sut::ss_server_cfg(c, users))?;
    // request bytes (always needed: the response direction needs an established session)
    let mut c2s = BytesMut::new();
    let req_writes: Vec<Vec<u8>> = if req { plains.clone() } else { vec![b"hello".to_vec()] };
    let master_c2s: Vec<u8> = if c.is_2022() { rc::keys_2022(&cp).0 } else { rc::evp_bytes_to_key(cp.as_bytes(), n) };
    if producer == "real" || !req {
        for w in &req_writes {
            client.encode(BytesMut::from(&w[..]), &mut c2s)?;
        }
    } else {
        let mut salt = vec![0u8; n];
        rng.fill(&mut salt[..]);
        if c.is_2022() {
            // a legal choice the real client never makes: random padding although there is payload is not allowed,
            // but splitting the first write between the header and a chunk is
            let head = req_writes[0].len().min(0xff00);
            let r = rc::Req2022 { typ: 0, ts: rc::unix_now(), addr: addr.clone(), padding: if req_writes[0].is_empty() { 900 } else { 0 }, first_payload: req_writes[0][..head].to_vec(), salt };
            let mut s = rc::ss2022_request(c, &cp, &r);
            for piece in req_writes[0][head..].chunks(0xffff) {
                s.chunk(piece);
            }
            for w in &req_writes[1..] {
                for piece in w.chunks(0xffff) {
                    s.chunk(piece);
                }
            }
            c2s.extend_from_slice(&s.out);
        } else {
            let mut s = rc::legacy_stream(c, &cp, &salt);
            let mut first = addr.socks();
            first.extend_from_slice(&req_writes[0]);
            for piece in first.chunks(0x3fff) {
                s.chunk(piece);
            }
            for w in &req_writes[1..] {
                for piece in w.chunks(0x3fff) {
                    s.chunk(piece);
                }
            }
            c2s.extend_from_slice(&s.out);
        }
    }
    if req {
        let eih_blocks = if eih { 1 } else { 0 };
        let opened = rc::open_ss_stream(c, &master_c2s, &c2s, eih_blocks, if c.is_2022() { Some(11) } else { None });
        anyhow::ensure!(opened.failed_at.is_none() && opened.rest == 0, "reference opener cannot read the request stream (failed at {:?})", opened.failed_at);
        let alen = addr.socks().len();
        let mut fields = vec![Field { name: "salt", len: n, plain: 0, group: 0, raw: false }];
        let mut group = 0;
        let mut hs_group = 0;
        let mut first_pay = true;
        for u in &opened.units {
            match u.kind {
                "eih" => fields.push(Field { name: "eih", len: 16, plain: 0, group: 0, raw: false }),
                "fixed" => fields.push(Field { name: "fixed", len: u.wire_len, plain: 0, group: 0, raw: false }),
                "var" => {
                    let pad = u16::from_be_bytes([u.plain[alen], u.plain[alen + 1]]) as usize;
                    fields.push(Field { name: "var", len: u.wire_len, plain: u.plain.len() - alen - 2 - pad, group: 0, raw: false });
                    hs_group = 0;
                    first_pay = false;
                }
                "len" => {
                    group += 1;
                    fields.push(Field { name: "len", len: u.wire_len, plain: 0, group, raw: false });
                }
                "pay" => {
                    group += 1;
                    let p = if first_pay { u.plain.len() - alen } else { u.plain.len() };
                    if first_pay {
                        hs_group = group;
                        first_pay = false;
                    }
                    fields.push(Field { name: "pay", len: u.wire_len, plain: p, group, raw: false });
                }
                _ => {}
            }
        }
        let exempt = if c.is_2022() { n + 16 * eih_blocks + 27 } else { 0 };
        let dec = Dec::Server(listener.new_codec()?);
        return Ok(Fixture {
            proto: proto.to_owned(), wire: c2s.to_vec(), fields, hs_group: hs_group as i64, connect: Some(addr_string(&addr)), plain: all_plain,
            datagrams: vec![], datagram_mode: false, exempt_first: exempt, dec: Some(dec),
        });
    }
    // response direction: a real server session decodes the request, then the stream is made
    let mut server = listener.new_codec()?;
    let got = sut::server_decode(&mut server, &mut c2s.clone());
    anyhow::ensure!(matches!(got, sut::Got::Connect(..)), "fixture: server does not accept the client's request: {:?}", got);
    let mut s2c = BytesMut::new();
    // the key the response is sealed under: the user's key for multi-user servers, else the PSK
    let master_s2c: Vec<u8> = if c.is_2022() { if eih { rc::b64(&us[0].1) } else { rc::b64(&sp) } } else { master_c2s.clone() };
    if producer == "real" {
        for w in &plains {
            server.encode(sv::Out::Tcp(BytesMut::from(&w[..])), &mut s2c)?;
        }
    } else {
        let mut salt = vec![0u8; n];
        rng.fill(&mut salt[..]);
        if c.is_2022() {
            let head = plains[0].len().min(0xffff);
            let mut s = rc::ss2022_response(c, &master_s2c, &salt, 1, rc::unix_now(), &c2s[..n], &plains[0][..head]);
            for piece in plains[0][head..].chunks(0xffff) {
                s.chunk(piece);
            }
            for w in &plains[1..] {
                for piece in w.chunks(0xffff) {
                    s.chunk(piece);
                }
            }
            s2c.extend_from_slice(&s.out);
        } else {
            let mut s = rc::legacy_stream(c, &cp, &salt);
            for w in &plains {
                for piece in w.chunks(0x3fff) {
                    s.chunk(piece);
                }
            }
            s2c.extend_from_slice(&s.out);
        }
    }
    let opened = rc::open_ss_stream(c, &master_s2c, &s2c, 0, if c.is_2022() { Some(1 + 8 + n + 2) } else { None });
    anyhow::ensure!(opened.failed_at.is_none() && opened.rest == 0, "reference opener cannot read the response stream (failed at {:?})", opened.failed_at);
    let mut fields = vec![Field { name: "salt", len: n, plain: 0, group: 0, raw: false }];
    let mut group = 0;
    for u in &opened.units {
        match u.kind {
            "fixed" => fields.push(Field { name: "fixed", len: u.wire_len, plain: 0, group: 0, raw: false }),
            "var" => fields.push(Field { name: "var", len: u.wire_len, plain: u.plain.len(), group: 0, raw: false }),
            "len" => {
                group += 1;
                fields.push(Field { name: "len", len: u.wire_len, plain: 0, group, raw: false });
            }
            "pay" => {
                group += 1;
                fields.push(Field { name: "pay", len: u.wire_len, plain: u.plain.len(), group, raw: false });
            }
            _ => {}
        }
    }
    let exempt = if c.is_2022() { n + 1 + 8 + n + 2 + 16 } else { 0 };
    Ok(Fixture {
        proto: proto.to_owned(), wire: s2c.to_vec(), fields, hs_group: -1, connect: None, plain: all_plain, datagrams: vec![], datagram_mode: false,
        exempt_first: exempt, dec: Some(Dec::Client(client)),
    })
}

fn vmess_fixture(proto: &str, writes: &[usize], producer: &str, addr_kind: usize, rng: &mut SmallRng) -> anyhow::Result<Fixture> {
    let cipher = proto.split(':').nth(1).unwrap_or("aes-128-gcm");
    let option: u8 = proto.split(':').nth(2).and_then(|s| s.parse().ok()).unwrap_or(0x1d);
    let kind = proto.split(':').next().unwrap_or("");
    let udp = kind.contains("udp");
    let req = kind.ends_with("req");
    let addr = test_addr(addr_kind);
    let plains: Vec<Vec<u8>> = writes.iter().enumerate().map(|(i, l)| pattern(i as u8 + 1, *l)).collect();
    let ck = rv::cmd_key(sut::UUID_A).unwrap();
    let ccfg = sut::vmess_client_cfg(cipher, sut::UUID_A);
    let mut client = if udp { cv::vmess_udp_codec(&ccfg, &addr.to_octo())? } else { cv::tcp_codec(&ccfg, &addr.to_octo())? };
    let listener = sv::listener(&sut::vmess_server_cfg(&[sut::UUID_B, sut::UUID_A]))?;
    let security = if cipher == "chacha20-poly1305" { rv::SEC_CHACHA20_POLY1305 } else { rv::SEC_AES128_GCM };
    let mut c2s = BytesMut::new();
    let req_writes: Vec<Vec<u8>> = if req { plains.clone() } else { vec![b"hello".to_vec()] };
    let use_ref = producer == "ref" && req;
    if use_ref {
        let r = rv::VmessReq { iv: rng.random(), key: rng.random(), resp_auth: rng.random(), option, security, cmd: if udp { 2 } else { 1 }, addr: addr.clone(), header_padding: rng.random_range(0..16) };
        let aid = rv::auth_id(&ck, rc::unix_now() as i64, rng.random(), false);
        let mut w = rv::seal_request_header(&ck, &aid, &rng.random(), &r.plain_header());
        let mut body = rv::VmessBody::new(option, security, r.key, r.iv, r.key, r.iv);
        for p in &req_writes {
            if udp {
                body.chunk(p, &mut w);
            } else {
                for piece in p.chunks(16000) {
                    body.chunk(piece, &mut w);
                }
            }
        }
        c2s.extend_from_slice(&w);
    } else {
        for w in &req_writes {
            client.encode(BytesMut::from(&w[..]), &mut c2s)?;
        }
    }
    let (_, h, hlen) = rv::open_request_header(&ck, &c2s).ok_or_else(|| anyhow::anyhow!("reference opener cannot open the VMess request header"))?;
    let r = rv::VmessReq::parse(&h).ok_or_else(|| anyhow::anyhow!("reference parser rejects the VMess request header"))?;
    let chunk_fields = |units: &[rv::VUnit], fields: &mut Vec<Field>, group: &mut usize| {
        let mut i = 0;
        while i < units.len() {
            let u = &units[i];
            if u.kind == "size" {
                *group += 1;
                let sg = *group;
                let mut body_len = 0;
                let mut plain = 0;
                let mut j = i + 1;
                while j < units.len() && units[j].kind != "size" {
                    body_len += units[j].wire_len;
                    if units[j].kind == "pay" {
                        plain = units[j].plain.len();
                    }
                    j += 1;
                }
                if udp {
                    // a datagram is one all-or-nothing group
                    fields.push(Field { name: "dgram", len: u.wire_len + body_len, plain, group: sg, raw: false });
                } else {
                    fields.push(Field { name: "size", len: u.wire_len, plain: 0, group: sg, raw: false });
                    *group += 1;
                    fields.push(Field { name: "body", len: body_len, plain, group: *group, raw: false });
                }
                i = j;
            } else {
                i += 1;
            }
        }
    };
    if req {
        let mut body = rv::VmessBody::new(r.option, r.security, r.key, r.iv, r.key, r.iv);
        let (units, failed, rest) = body.open_all(&c2s[hlen..], hlen);
        anyhow::ensure!(failed.is_none() && rest == 0, "reference opener cannot read the VMess request body (failed at {:?}, rest {})", failed, rest);
        let mut fields = vec![
            Field { name: "authid", len: 16, plain: 0, group: 0, raw: false },
            Field { name: "hlen", len: 18, plain: 0, group: 0, raw: false },
            Field { name: "nonce", len: 8, plain: 0, group: 0, raw: false },
            Field { name: "hbody", len: h.len(), plain: 0, group: 0, raw: false },
            Field { name: "htag", len: 16, plain: 0, group: 0, raw: false },
        ];
        let mut group = 0;
        chunk_fields(&units, &mut fields, &mut group);
        // the connect / first datagram item is due with the first body group
        let hs_group = if udp { -1 } else { 2 };
        let dgs: Vec<(Vec<u8>, String)> = if udp { plains.iter().map(|p| (p.clone(), addr_string(&addr))).collect() } else { vec![] };
        return Ok(Fixture {
            proto: proto.to_owned(), wire: c2s.to_vec(), fields, hs_group, connect: Some(addr_string(&addr)), plain: plains.concat(), datagrams: dgs,
            datagram_mode: udp, exempt_first: 0, dec: Some(Dec::Server(listener.new_codec()?)),
        });
    }
    let mut server = listener.new_codec()?;
    let got = sut::server_decode(&mut server, &mut c2s.clone());
    anyhow::ensure!(matches!(got, sut::Got::Connect(..) | sut::Got::Udp(..)), "fixture: VMess server does not accept the client's request: {:?}", got);
    let (rk, ri) = rv::resp_keys(&r.key, &r.iv);
    let mut s2c = BytesMut::new();
    if producer == "real" {
        for w in &plains {
            if udp {
                server.encode(sv::Out::Udp(BytesMut::from(&w[..]), "10.1.2.3:80".parse().unwrap()), &mut s2c)?;
            } else {
                server.encode(sv::Out::Tcp(BytesMut::from(&w[..])), &mut s2c)?;
            }
        }
    } else {
        let mut w = rv::seal_response_header(&rk, &ri, r.resp_auth, r.option);
        let mut body = rv::VmessBody::new(r.option, r.security, rk, ri, r.key, r.iv);
        for p in &plains {
            if udp {
                body.chunk(p, &mut w);
            } else {
                for piece in p.chunks(16000) {
                    body.chunk(piece, &mut w);
                }
            }
        }
        s2c.extend_from_slice(&w);
    }
    let (_, rh) = rv::open_response_header(&rk, &ri, &s2c).ok_or_else(|| anyhow::anyhow!("reference opener cannot open the VMess response header"))?;
    let mut body = rv::VmessBody::new(r.option, r.security, rk, ri, r.key, r.iv);
    let (units, failed, rest) = body.open_all(&s2c[rh..], rh);
    anyhow::ensure!(failed.is_none() && rest == 0, "reference opener cannot read the VMess response body (failed at {:?}, rest {})", failed, rest);
    let mut fields = vec![Field { name: "rlen", len: 18, plain: 0, group: 0, raw: false }, Field { name: "rhdr", len: rh - 18, plain: 0, group: 0, raw: false }];
    let mut group = 0;
    chunk_fields(&units, &mut fields, &mut group);
    let dgs: Vec<(Vec<u8>, String)> = if udp { plains.iter().map(|p| (p.clone(), addr_string(&addr))).collect() } else { vec![] };
    Ok(Fixture {
        proto: proto.to_owned(), wire: s2c.to_vec(), fields, hs_group: -1, connect: None, plain: plains.concat(), datagrams: dgs, datagram_mode: udp,
        exempt_first: 0, dec: Some(if udp { Dec::ClientDgram(client) } else { Dec::Client(client) }),
    })
}

fn trojan_fixture(proto: &str, writes: &[usize], producer: &str, addr_kind: usize, _rng: &mut SmallRng) -> anyhow::Result<Fixture> {
    let kind = proto.split(':').next().unwrap_or("");
    let udp = kind.contains("udp");
    let req = kind.ends_with("req");
    let addr = test_addr(addr_kind);
    let plains: Vec<Vec<u8>> = writes.iter().enumerate().map(|(i, l)| pattern(i as u8 + 1, *l)).collect();
    let ccfg = sut::trojan_client_cfg(sut::TROJAN_PW);
    let listener = sv::listener(&sut::trojan_server_cfg(sut::TROJAN_PW))?;
    // datagrams travel to / from this address
    let dg_addr = test_addr(addr_kind + 1);
    if req {
        let mut wire = BytesMut::new();
        if producer == "real" {
            if udp {
                let mut c = cv::packet_codec(&ccfg, &addr.to_octo())?;
                for w in &plains {
                    c.encode((BytesMut::from(&w[..]), dg_addr.to_octo()), &mut wire)?;
                }
            } else {
                let mut c = cv::tcp_codec(&ccfg, &addr.to_octo())?;
                for w in &plains {
                    c.encode(BytesMut::from(&w[..]), &mut wire)?;
                }
            }
        } else {
            wire.extend_from_slice(&rv::trojan_header(sut::TROJAN_PW, if udp { 3 } else { 1 }, &addr));
            for w in &plains {
                if udp {
                    wire.extend_from_slice(&rv::trojan_udp(&dg_addr, w));
                } else {
                    wire.extend_from_slice(w);
                }
            }
        }
        let (_, _, hlen) = rv::parse_trojan_header(sut::TROJAN_PW, &wire).ok_or_else(|| anyhow::anyhow!("reference parser rejects the Trojan header"))?;
        let alen = addr.socks().len();
        let mut fields = vec![
            Field { name: "key", len: 56, plain: 0, group: 0, raw: false },
            Field { name: "crlf", len: 2, plain: 0, group: 0, raw: false },
            Field { name: "cmd", len: 1, plain: 0, group: 0, raw: false },
            Field { name: "atyp", len: 1, plain: 0, group: 0, raw: false },
            Field { name: "addr", len: alen - 1, plain: 0, group: 0, raw: false },
            Field { name: "crlf2", len: 2, plain: 0, group: 0, raw: false },
        ];
        anyhow::ensure!(hlen == 62 + alen - 1 + 0, "trojan header length mismatch");
        let mut dgs = vec![];
        if udp {
            let mut pos = hlen;
            let mut g = 0;
            while pos < wire.len() {
                let (a, p, n) = rv::parse_trojan_udp(&wire[pos..]).ok_or_else(|| anyhow::anyhow!("reference parser rejects a Trojan datagram"))?;
                g += 1;
                fields.push(Field { name: "dgram", len: n, plain: p.len(), group: g, raw: false });
                dgs.push((p, addr_string(&a)));
                pos += n;
            }
        } else {
            fields.push(Field { name: "tail", len: wire.len() - hlen, plain: wire.len() - hlen, group: 1, raw: true });
        }
        // UDP: the first datagram is the first item (there is no separate connect item)
        return Ok(Fixture {
            proto: proto.to_owned(), wire: wire.to_vec(), fields, hs_group: if udp { -1 } else { 0 }, connect: Some(addr_string(&addr)), plain: plains.concat(),
            datagrams: dgs, datagram_mode: udp, exempt_first: 0, dec: Some(Dec::Server(listener.new_codec()?)),
        });
    }
    // responses: raw bytes (tcp) or datagrams
    let mut wire = BytesMut::new();
    let mut fields = vec![];
    let mut dgs = vec![];
    if udp {
        let mut server = listener.new_codec()?;
        let from: std::net::SocketAddr = "10.1.2.3:80".parse().unwrap();
        for (i, w) in plains.iter().enumerate() {
            let before = wire.len();
            if producer == "real" {
                server.encode(sv::Out::Udp(BytesMut::from(&w[..]), from), &mut wire)?;
            } else {
                wire.extend_from_slice(&rv::trojan_udp(&Addr::V4([10, 1, 2, 3], 80), w));
            }
            fields.push(Field { name: "dgram", len: wire.len() - before, plain: w.len(), group: i, raw: false });
            dgs.push((w.clone(), "10.1.2.3:80".to_owned()));
        }
        let c = cv::packet_codec(&ccfg, &addr.to_octo())?;
        return Ok(Fixture {
            proto: proto.to_owned(), wire: wire.to_vec(), fields, hs_group: -1, connect: None, plain: plains.concat(), datagrams: dgs, datagram_mode: true,
            exempt_first: 0, dec: Some(Dec::ClientPkt(c)),
        });
    }
    for w in &plains {
        wire.extend_from_slice(w);
    }
    fields.push(Field { name: "tail", len: wire.len(), plain: wire.len(), group: 0, raw: true });
    let c = cv::tcp_codec(&ccfg, &addr.to_octo())?;
    Ok(Fixture {
        proto: proto.to_owned(), wire: wire.to_vec(), fields, hs_group: -1, connect: None, plain: plains.concat(), datagrams: dgs, datagram_mode: false,
        exempt_first: 0, dec: Some(Dec::Client(c)),
    })
}

// ------------------------------------------------------------------------------------------------
// adapters

#[derive(Default)]
struct ScriptState {
    queue: VecDeque<u8>,
    eof: bool,
    waker: Option<Waker>,
}

/// A transport that holds exactly what the script has delivered; `Pending` when drained.
#[derive(Clone, Default)]
pub struct Scripted(Arc<Mutex<ScriptState>>);

impl Scripted {
    pub fn push(&self, b: &[u8]) {
        let mut s = self.0.lock().unwrap();
        s.queue.extend(b.iter());
        if let Some(w) = s.waker.take() {
            w.wake();
        }
    }

    pub fn close(&self) {
        let mut s = self.0.lock().unwrap();
        s.eof = true;
        if let Some(w) = s.waker.take() {
            w.wake();
        }
    }
}

impl AsyncRead for Scripted {
    fn poll_read(self: Pin<&mut Self>, cx: &mut Context<'_>, buf: &mut ReadBuf<'_>) -> Poll<std::io::Result<()>> {
        let mut s = self.0.lock().unwrap();
        if s.queue.is_empty() {
            if s.eof {
                return Poll::Ready(Ok(()));
            }
            s.waker = Some(cx.waker().clone());
            return Poll::Pending;
        }
        let n = buf.remaining().min(s.queue.len());
        let chunk: Vec<u8> = s.queue.drain(..n).collect();
        buf.put_slice(&chunk);
        Poll::Ready(Ok(()))
    }
}

/// What the adapter yielded after one delivery (all items until it went quiet).
#[derive(Clone, Debug, Default)]
pub struct StepObs {
    pub items: Vec<Item>,
    pub err: Option<String>,
    pub ended: bool,
    pub panic: Option<String>,
}

/// Totals over a run.
#[derive(Clone, Debug, Default)]
pub struct Totals {
    pub connect: Option<(Vec<u8>, String)>,
    pub connects: usize,
    pub plain: Vec<u8>,
    pub datagrams: Vec<(Vec<u8>, String)>,
    pub items: usize,
    /// index (in item order) of the connect item, if any
    pub connect_pos: Option<usize>,
}

impl Totals {
    pub fn absorb(&mut self, o: &StepObs) {
        for it in &o.items {
            match it {
                Item::Connect(b, a) => {
                    if self.connect.is_none() {
                        self.connect = Some((b.clone(), a.clone()));
                        self.connect_pos = Some(self.items);
                    }
                    self.connects += 1;
                    self.plain.extend_from_slice(b);
                }
                Item::Data(b) => self.plain.extend_from_slice(b),
                Item::Udp(b, a) => self.datagrams.push((b.clone(), a.clone())),
            }
            self.items += 1;
        }
    }
}

fn noop_cx<R>(f: impl FnOnce(&mut Context<'_>) -> R) -> R {
    let waker = futures::task::noop_waker();
    let mut cx = Context::from_waker(&waker);
    f(&mut cx)
}

/// Deliver `segments` (then optionally EOF) through the real FramedRead around `dec`.
pub fn run_framed(dec: Dec, segments: &[Vec<u8>], eof: bool) -> Vec<StepObs> {
    let io = Scripted::default();
    let mut fr = FramedRead::new(io.clone(), dec);
    let mut out = Vec::new();
    let mut dead = false;
    let steps = segments.len() + if eof { 1 } else { 0 };
    for i in 0..steps {
        let mut obs = StepObs::default();
        if dead {
            out.push(obs);
            continue;
        }
        if i < segments.len() {
            io.push(&segments[i]);
        } else {
            io.close();
        }
        let r = crate::util::catch(|| {
            let mut budget = 100000;
            loop {
                budget -= 1;
                if budget == 0 {
                    return Some("adapter does not go quiet (livelock)".to_owned());
                }
                match noop_cx(|cx| fr.poll_next_unpin(cx)) {
                    Poll::Ready(Some(Ok(item))) => obs.items.push(item),
                    Poll::Ready(Some(Err(e))) => {
                        obs.err = Some(e.to_string());
                    }
                    Poll::Ready(None) => {
                        obs.ended = true;
                        return None;
                    }
                    Poll::Pending => return None,
                }
            }
        });
        match r {
            Ok(Some(l)) => {
                obs.err = Some(l);
                dead = true;
            }
            Ok(None) => {
                if obs.ended {
                    dead = true;
                }
            }
            Err(p) => {
                obs.panic = Some(p);
                dead = true;
            }
        }
        out.push(obs);
    }
    out
}

/// Deliver `segments` as binary WebSocket messages through the real WebSocketFramed around `dec`.
pub fn run_ws(dec: Dec, segments: &[Vec<u8>], eof: bool) -> Vec<StepObs> {
    let rt = tokio::runtime::Builder::new_current_thread().enable_all().build().unwrap();
    rt.block_on(async move {
        let (a, b) = tokio::io::duplex(1 << 22);
        let mut peer = Some(tokio_websockets::ClientBuilder::new().take_over(a));
        let limits = tokio_websockets::Limits::default().max_payload_len(Some(1 << 24));
        let ws = tokio_websockets::ServerBuilder::new().limits(limits).serve(b);
        let mut framed: WebSocketFramed<_, Dec, (), Item> = WebSocketFramed::new(ws, dec);
        let mut out = Vec::new();
        let mut dead = false;
        let steps = segments.len() + if eof { 1 } else { 0 };
        for i in 0..steps {
            let mut obs = StepObs::default();
            if dead {
                out.push(obs);
                continue;
            }
            if i < segments.len() {
                if let Some(p) = peer.as_mut() {
                    if p.send(tokio_websockets::Message::binary(segments[i].clone())).await.is_err() {
                        obs.err = Some("harness: injector send failed".to_owned());
                    }
                }
            } else {
                // the peer goes away: the transport reports end of stream
                drop(peer.take());
            }
            // poll until the adapter reports Pending twice in a row with a yield in between
            let mut quiet = 0;
            let mut budget = 100000;
            while quiet < 2 && budget > 0 {
                budget -= 1;
                let polled = std::panic::catch_unwind(std::panic::AssertUnwindSafe(|| noop_cx(|cx| framed.poll_next_unpin(cx))));
                match polled {
                    Ok(Poll::Ready(Some(Ok(item)))) => {
                        quiet = 0;
                        obs.items.push(item);
                    }
                    Ok(Poll::Ready(Some(Err(e)))) => {
                        quiet = 0;
                        if obs.err.is_none() {
                            obs.err = Some(e.to_string());
                        }
                        // a WebSocket protocol error after close ends the stream; decoding errors do not
                        if e.to_string().contains("closed") || obs.items.len() > 10000 {
                            dead = true;
                            break;
                        }
                    }
                    Ok(Poll::Ready(None)) => {
                        obs.ended = true;
                        dead = true;
                        break;
                    }
                    Ok(Poll::Pending) => {
                        quiet += 1;
                        tokio::task::yield_now().await;
                    }
                    Err(e) => {
                        obs.panic = Some(if let Some(s) = e.downcast_ref::<&str>() { (*s).to_owned() } else if let Some(s) = e.downcast_ref::<String>() { s.clone() } else { "panic".to_owned() });
                        dead = true;
                        break;
                    }
                }
            }
            if budget == 0 {
                obs.err = Some("adapter does not go quiet (livelock)".to_owned());
                dead = true;
            }
            out.push(obs);
        }
        out
    })
}

pub fn run_adapter(adapter: &str, dec: Dec, segments: &[Vec<u8>], eof: bool) -> Vec<StepObs> {
    if adapter == "ws" { run_ws(dec, segments, eof) } else { run_framed(dec, segments, eof) }
}

/// Cut `wire` at the sorted, deduplicated offsets.
pub fn cut(wire: &[u8], offsets: &[usize]) -> Vec<Vec<u8>> {
    let mut offs: Vec<usize> = offsets.iter().copied().filter(|o| *o > 0 && *o < wire.len()).collect();
    offs.sort();
    offs.dedup();
    let mut out = Vec::new();
    let mut prev = 0;
    for o in offs {
        out.push(wire[prev..o].to_vec());
        prev = o;
    }
    out.push(wire[prev..].to_vec());
    out
}
