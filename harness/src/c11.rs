//! C11: the real `PacketWindowFilter` against the TLA+ set model.
//! * `c11-replay`: scenario lines {"base":"<u64>","limit":"<u64>","ids":[off..],"expect":[bool..]} from TLC.
//! * `c11-record`: random histories on the real filter, recorded as offsets from a base (TLC ints are 32 bit).

use std::io::Write;

use octo_squirrel::manager::packet_window::PacketWindowFilter;
use rand::Rng;
use rand::SeedableRng;
use rand::rngs::SmallRng;
use serde_json::json;

use crate::util;

pub fn replay(_args: &[String]) -> anyhow::Result<()> {
    util::quiet_panics();
    let mut n = 0u64;
    let mut steps = 0u64;
    let mut bad = 0u64;
    for sc in util::stdin_json_lines() {
        let base: u64 = sc["base"].as_str().unwrap_or("0").parse()?;
        let limit: u64 = sc["limit"].as_str().unwrap_or("18446744073709551615").parse()?;
        let ids: Vec<u64> = sc["ids"].as_array().map(|a| a.iter().map(|v| v.as_u64().unwrap_or(0)).collect()).unwrap_or_default();
        let expect: Vec<bool> = sc["expect"].as_array().map(|a| a.iter().map(|v| v.as_bool().unwrap_or(false)).collect()).unwrap_or_default();
        let res = util::catch(|| {
            let mut f = PacketWindowFilter::new();
            ids.iter().map(|off| f.validate_packet_id(base.wrapping_add(*off), limit)).collect::<Vec<bool>>()
        });
        n += 1;
        steps += ids.len() as u64;
        match res {
            Ok(got) if got == expect => {}
            Ok(got) => {
                bad += 1;
                println!("{}", json!({"mismatch": true, "scenario": sc, "got": got}));
            }
            Err(p) => {
                bad += 1;
                println!("{}", json!({"mismatch": true, "scenario": sc, "panic": p}));
            }
        }
    }
    println!("{}", json!({"summary": true, "scenarios": n, "steps": steps, "mismatches": bad}));
    Ok(())
}

/// Random histories: sweeps, reversals, bursts, duplicates, ring wrap, jumps, near the limit.
pub fn record(args: &[String]) -> anyhow::Result<()> {
    let o = util::opts(args);
    let seed = util::opt_u64(&o, "seed", 1);
    let traces = util::opt_u64(&o, "traces", 4);
    let events = util::opt_u64(&o, "events", 1200);
    let out = o.get("out").cloned().unwrap_or_else(|| "c11.ndjson".to_owned());
    let mut w = std::io::BufWriter::new(std::fs::File::create(&out)?);
    let mut rng = SmallRng::seed_from_u64(seed);
    // (base, limit): base is a multiple of 8192 so that offsets keep block and bit indices
    let worlds: [(u64, u64); 6] = [
        (0, u64::MAX),
        (1 << 32, u64::MAX),
        (1 << 63, u64::MAX),
        (u64::MAX - (1 << 14) + 1, u64::MAX),
        (u64::MAX - (1 << 14) + 1, u64::MAX - (1 << 13) + 1),
        (0, 20000),
    ];
    let mut total = 0u64;
    for t in 0..traces {
        let (base, limit) = worlds[(t as usize + seed as usize) % worlds.len()];
        let initlast: i64 = if base == 0 { 0 } else { -(1 << 30) };
        let limoff: i64 = if limit - base > (1 << 30) { 1 << 30 } else { (limit - base) as i64 };
        writeln!(w, "{}", json!({"ev":"Reset","initlast":initlast,"limit":limoff,"base":base.to_string(),"off":0,"ok":false}))?;
        let mut f = PacketWindowFilter::new();
        let max_off: u64 = if base > (1 << 63) + 1 { (1 << 14) - 1 } else { 60000 };
        let mut cur: u64 = rng.random_range(0..200);
        let mut left = events;
        while left > 0 {
            let mode = rng.random_range(0..9);
            let burst = rng.random_range(1..40u64).min(left);
            let mut ids: Vec<u64> = Vec::new();
            match mode {
                0 | 1 => {
                    for i in 0..burst {
                        ids.push(cur + i);
                    }
                    cur += burst;
                }
                2 => {
                    for i in (0..burst).rev() {
                        ids.push(cur + i);
                    }
                    cur += burst;
                }
                3 => {
                    for _ in 0..burst {
                        ids.push(cur.saturating_sub(rng.random_range(0..9000)));
                    }
                }
                4 => {
                    // exactly at the window edge
                    for d in [8127u64, 8128, 8129, 8191, 8192, 8193] {
                        ids.push(cur.saturating_sub(d));
                    }
                }
                5 => {
                    cur += [63u64, 64, 65, 8127, 8128, 8129, 8192, 8193, 16384, 20000][rng.random_range(0..10)];
                    ids.push(cur);
                }
                6 => {
                    for _ in 0..burst {
                        ids.push(rng.random_range(0..=max_off));
                    }
                }
                7 => {
                    let x = cur.saturating_sub(rng.random_range(0..200));
                    ids.push(x);
                    ids.push(x);
                }
                _ => {
                    // around the limit
                    let l = limoff.min(max_off as i64) as u64;
                    for d in 0..4u64 {
                        ids.push(l.saturating_sub(d));
                        ids.push(l + d);
                    }
                }
            }
            for off in ids {
                if left == 0 {
                    break;
                }
                let off = off.min(max_off);
                let ok = f.validate_packet_id(base + off, limit);
                writeln!(w, "{}", json!({"ev":"Validate","off":off,"ok":ok,"initlast":0,"limit":0,"base":""}))?;
                left -= 1;
                total += 1;
            }
            if cur > max_off {
                cur = max_off;
            }
        }
    }
    w.flush()?;
    println!("{}", json!({"summary": true, "traces": traces, "events": total, "out": out}));
    Ok(())
}


/// `c11-sessions`: histories of (server session, packet id) presentations exported from PacketSessions.tla, replayed on the
/// REAL client datagram codec: the client sends one datagram (which fixes its session id), then every presentation is a
/// reply made by the real server-side codec for that client session under the given server session and packet id.
pub fn sessions(_args: &[String]) -> anyhow::Result<()> {
    use bytes::BytesMut;
    use octo_squirrel_client::client::verif as cv;
    use tokio_util::codec::Decoder;
    use tokio_util::codec::Encoder;

    use crate::refcodec as rc;
    use crate::refcodec::Cipher;
    use crate::ssudp;
    use crate::stream;
    use crate::sut;
    util::quiet_panics();
    let mut n = 0u64;
    let mut bad = 0u64;
    let mut steps = 0u64;
    let ciphers = [Cipher::Aes128Gcm2022, Cipher::ChaCha20Poly1305_2022, Cipher::Aes256Gcm2022, Cipher::ChaCha8Poly1305_2022];
    for (k, sc) in util::stdin_json_lines().into_iter().enumerate() {
        let Some(hist) = sc["hist"].as_array() else { continue };
        let c = ciphers[k % ciphers.len()];
        let addr = stream::test_addr(k % 3);
        let (cp, sp, us) = sut::ss_passwords(c, 0);
        let res = (|| -> Result<Vec<bool>, String> {
            let mut client = cv::packet_codec(&sut::ss_client_cfg(c, 0), &addr.to_octo()).map_err(|e| e.to_string())?;
            let mut w = BytesMut::new();
            client.encode((BytesMut::from(&b"first"[..]), addr.to_octo()), &mut w).map_err(|e| e.to_string())?;
            let key = rc::keys_2022(&cp).0;
            let p = rc::open_udp2022(c, &key, &key, 0, false, &w).ok_or("reference opener cannot read the real client's datagram")?;
            let csid = p.session_id;
            let mut got = Vec::new();
            for e in hist {
                let s = e["s"].as_u64().unwrap_or(0);
                let id = e["id"].as_u64().unwrap_or(0);
                let ssid = 0x5e55_0000_0000_0000u64 + s * 0x1_0001;
                let reply = ssudp::server_encode(c, &sp, &us, None, (csid, ssid, id), &addr.to_octo(), format!("reply {s}/{id}").as_bytes())?;
                let r = util::catch(|| client.decode(&mut BytesMut::from(&reply[..])));
                got.push(match r {
                    Ok(Ok(Some(_))) => true,
                    Ok(Ok(None)) | Ok(Err(_)) => false,
                    Err(p) => return Err(format!("panic: {p}")),
                });
            }
            Ok(got)
        })();
        n += 1;
        steps += hist.len() as u64;
        let expect: Vec<bool> = hist.iter().map(|e| e["ok"].as_bool().unwrap_or(false)).collect();
        match res {
            Ok(got) if got == expect => {}
            Ok(got) => {
                bad += 1;
                if bad <= 20 {
                    println!("{}", json!({"mismatch": true, "cipher": c.name(), "hist": hist, "got": got}));
                }
            }
            Err(e) => {
                bad += 1;
                if bad <= 20 {
                    println!("{}", json!({"mismatch": true, "cipher": c.name(), "hist": hist, "error": e}));
                }
            }
        }
    }
    println!("{}", json!({"summary": true, "histories": n, "steps": steps, "mismatches": bad}));
    Ok(())
}
