//! C13 (and the local side of C07): `c13-grammar` replays every request target of HttpTarget.tla on the real
//! authority-extraction helper; `c13-local` replays LocalHandshake.tla behaviours (segmentations, early
//! close, malformed requests) against the real `get_request_addr` over a loopback TCP connection.

use std::time::Duration;

use octo_squirrel_client::client::verif as cv;
use rand::Rng;
use rand::SeedableRng;
use rand::rngs::SmallRng;
use serde_json::Value;
use serde_json::json;
use tokio::io::AsyncReadExt;
use tokio::io::AsyncWriteExt;
use tokio::net::TcpListener;
use tokio::net::TcpStream;

use crate::util;

pub fn grammar(_args: &[String]) -> anyhow::Result<()> {
    util::quiet_panics();
    let mut n = 0u64;
    let mut bad = 0u64;
    for sc in util::stdin_json_lines() {
        let method = sc["method"].as_str().unwrap_or("");
        let uri = sc["uri"].as_str().unwrap_or("");
        let e = &sc["expect"];
        let got = util::catch(|| cv::recognize_http(method, uri));
        let (kind, host, port) = match &got {
            Ok(Ok((k, a))) => match a {
                octo_squirrel::protocol::address::Address::Domain(h, p) => (k.to_string(), h.clone(), *p as i64),
                octo_squirrel::protocol::address::Address::Socket(s) => (k.to_string(), s.ip().to_string(), s.port() as i64),
            },
            Ok(Err(_)) => ("refuse".to_owned(), String::new(), 0),
            Err(_) => ("panic".to_owned(), String::new(), 0),
        };
        n += 1;
        let lenient = e["kind"].as_str() == Some("lenient");
        let ok = if lenient {
            // no host of the grammar: malformed, so refused (and certainly no panic)
            kind == "refuse"
        } else {
            // a kind ending in '?' may also be refused
            let ek = e["kind"].as_str().unwrap_or("");
            (ek.ends_with('?') && kind == "refuse")
                || (kind == ek.trim_end_matches('?') && (!e["ok"].as_bool().unwrap_or(false) || (host == e["host"].as_str().unwrap_or("") && port == e["port"].as_i64().unwrap_or(-1))))
        };
        if !ok {
            bad += 1;
            println!("{}", json!({"scenario": sc, "ok": false, "got": {"kind": kind, "host": host, "port": port}, "detail": format!("{:?}", got.as_ref().map(|r| r.as_ref().map(|x| x.1.to_string())))}));
        }
    }
    println!("{}", json!({"summary": true, "targets": n, "bad": bad}));
    Ok(())
}

struct Concrete {
    msgs: Vec<(Vec<u8>, usize)>, // bytes, end of the request line (or whole message)
    target: String,              // expected address as the proxy prints it
    replies: Vec<Vec<u8>>,       // expected reply after each message (empty = none)
    what: String,
}

fn concrete(kind: &str, wellformed: bool, variant: usize, local_port: u16) -> Concrete {
    let (host, port) = [("example.com", 443u16), ("10.9.8.7", 8080), ("a.b-c.example.org", 1)][variant % 3];
    match kind {
        "socks5" => {
            let greeting = [vec![5u8, 1, 0], vec![5, 2, 0, 2], vec![5, 3, 2, 1, 0]][variant % 3].clone();
            let mut req = vec![5u8, 1, 0];
            let target;
            // domain, IPv4, and IPv6 in the shapes a well-meant "normalisation" would touch: loopback, unspecified,
            // IPv4-compatible, IPv4-mapped - the tunnel goes to exactly the address named, whatever its shape
            const V6: [&str; 6] = ["2001:db8::7", "::1", "::", "::10.9.8.7", "::ffff:10.9.8.7", "fe80::1"];
            match variant % 3 {
                0 => {
                    req.push(3);
                    req.push(host.len() as u8);
                    req.extend_from_slice(host.as_bytes());
                    target = format!("{host}:{port}");
                }
                1 => {
                    req.push(1);
                    req.extend_from_slice(&[10, 9, 8, 7]);
                    target = format!("10.9.8.7:{port}");
                }
                _ => {
                    req.push(4);
                    let ip: std::net::Ipv6Addr = V6[(variant / 3) % V6.len()].parse().unwrap();
                    req.extend_from_slice(&ip.octets());
                    target = format!("[{ip}]:{port}");
                }
            }
            req.extend_from_slice(&port.to_be_bytes());
            let mut what = "well-formed".to_owned();
            if !wellformed {
                match variant % 4 {
                    0 => {
                        req[0] = 4;
                        what = "request with version 4".to_owned();
                    }
                    1 => {
                        req[3] = 9;
                        what = "request with address type 9".to_owned();
                    }
                    2 => {
                        req[1] = 2;
                        what = "BIND command (unsupported)".to_owned();
                    }
                    _ => {
                        req[1] = 9;
                        what = "unknown command 9".to_owned();
                    }
                }
            }
            let mut r2 = vec![5u8, 0, 0, 1, 127, 0, 0, 1];
            r2.extend_from_slice(&local_port.to_be_bytes());
            let l1 = greeting.len();
            let l2 = req.len();
            Concrete { msgs: vec![(greeting, l1), (req, l2)], target, replies: vec![vec![5, 0], r2], what }
        }
        "connect" => {
            let hp = if wellformed { format!("{host}:{port}") } else { [host.to_owned(), format!("{host}:notaport"), format!("{host}:")][variant % 3].clone() };
            let line = format!("CONNECT {hp} HTTP/1.1\r\n");
            let filler = ["", "X-Filler: aaaaaaaaaaaaaaaaaaaaaaaaaaaaaaaaaaaaaaaaaaaaaaaaaaaaaaaaaaaaaaaaaaaaaaaaaaaaaaaaaaaaaaaaaaaa\r\n"][variant % 2].repeat(1 + 12 * (variant % 2));
            let msg = format!("{line}Host: {hp}\r\nProxy-Connection: keep-alive\r\n{filler}User-Agent: verif\r\n\r\n");
            Concrete { msgs: vec![(msg.into_bytes(), line.len())], target: format!("{host}:{port}"), replies: vec![b"HTTP/1.1 200 Connection established\r\n\r\n".to_vec()], what: if wellformed { "well-formed".into() } else { format!("CONNECT {hp}") } }
        }
        "http" => {
            let (uri, target) = if wellformed {
                match variant % 3 {
                    0 => (format!("http://{host}:{port}/a/b?x=1:2"), format!("{host}:{port}")),
                    1 => (format!("http://{host}/"), format!("{host}:80")),
                    _ => (format!("http://{host}:{port}"), format!("{host}:{port}")),
                }
            } else {
                ([format!("http://{host}:notaport/x"), "/origin/form".to_owned(), format!("http://{host}:70000/")][variant % 3].clone(), String::new())
            };
            let line = format!("{} {uri} HTTP/1.1\r\n", ["GET", "POST", "PUT"][variant % 3]);
            let msg = format!("{line}Host: {host}\r\nContent-Length: 4\r\n\r\nBODY");
            Concrete { msgs: vec![(msg.into_bytes(), line.len())], target, replies: vec![vec![]], what: if wellformed { "well-formed".into() } else { uri } }
        }
        _ => {
            let g: Vec<u8> = [vec![0u8, 1, 2], vec![0x16, 3, 1, 0, 5], b"\r\n\r\n".to_vec(), vec![4, 1, 0, 80]][variant % 4].clone();
            let l = g.len();
            Concrete { msgs: vec![(g, l)], target: String::new(), replies: vec![vec![]], what: "not SOCKS5 and not HTTP".into() }
        }
    }
}

/// Map a position of the scaled message (line mark, len) onto the real one, keeping its class.
fn map_pos(p: usize, sline: usize, slen: usize, rline: usize, rlen: usize) -> usize {
    if p == 0 {
        0
    } else if p >= slen {
        rlen
    } else if p == sline {
        rline
    } else if p < sline {
        if p == 1 { 1 } else if p == sline - 1 { rline - 1 } else { rline / 2 }
    } else {
        let d = p - sline;
        let span = slen - sline;
        if d == 1 { rline + 1 } else if d == span - 1 { rlen - 1 } else { rline + (rlen - rline) / 2 }
    }
}

async fn run_local(sc: &Value, variant: usize) -> Value {
    let kind = sc["kind"].as_str().unwrap_or("");
    let wellformed = sc["wellformed"].as_bool().unwrap_or(true);
    let hist: Vec<usize> = sc["hist"].as_array().map(|a| a.iter().map(|v| v.as_u64().unwrap_or(0) as usize).collect()).unwrap_or_default();
    let smsgs: Vec<(usize, usize)> = sc["msgs"].as_array().map(|a| a.iter().map(|m| (m["line"].as_u64().unwrap_or(0) as usize, m["len"].as_u64().unwrap_or(0) as usize)).collect()).unwrap_or_default();
    let listener = match TcpListener::bind("127.0.0.1:0").await {
        Ok(l) => l,
        Err(e) => return json!({"tool_error": e.to_string()}),
    };
    let port = listener.local_addr().map(|a| a.port()).unwrap_or(0);
    let c = concrete(kind, wellformed, variant, port);
    // the proxy side: accept, run the real handshake, then read what the tunnel would carry
    let proxy = tokio::spawn(async move {
        let (mut s, _) = listener.accept().await.ok()?;
        let r = cv::get_request_addr(&mut s).await;
        let mut tunnel = Vec::new();
        if r.is_ok() {
            let mut buf = [0u8; 4096];
            loop {
                match tokio::time::timeout(Duration::from_millis(2500), s.read(&mut buf)).await {
                    Ok(Ok(0)) | Ok(Err(_)) | Err(_) => break,
                    Ok(Ok(n)) => tunnel.extend_from_slice(&buf[..n]),
                }
            }
        }
        Some((r.map(|a| a.to_string()).map_err(|e| e.to_string()), tunnel))
    });
    let mut app = match TcpStream::connect(("127.0.0.1", port)).await {
        Ok(s) => s,
        Err(e) => return json!({"tool_error": e.to_string()}),
    };
    let _ = app.set_nodelay(true);
    // replay the application's writes: hist holds sizes in scaled bytes, 0 = close
    let mut mi = 0usize;
    let mut spos = 0usize; // scaled position inside message mi
    let mut sent = 0usize; // real bytes of message mi already written
    let mut got_replies: Vec<Vec<u8>> = Vec::new();
    let mut closed = false;
    let payload = b"TUNNEL-PAYLOAD".to_vec();
    for k in &hist {
        if *k == 0 {
            let _ = app.shutdown().await;
            closed = true;
            break;
        }
        if mi >= c.msgs.len() {
            break;
        }
        spos += k;
        let (sline, slen) = smsgs[mi];
        let (bytes, rline) = &c.msgs[mi];
        let upto = map_pos(spos, sline, slen, *rline, bytes.len()).max(sent).min(bytes.len());
        if upto > sent {
            if app.write_all(&bytes[sent..upto]).await.is_err() {
                break;
            }
            sent = upto;
            tokio::time::sleep(Duration::from_millis(25)).await;
        }
        if spos >= slen {
            // message complete: wait for the reply the protocol prescribes
            let want = &c.replies[mi];
            let mut r = vec![0u8; want.len()];
            if !want.is_empty() {
                match tokio::time::timeout(Duration::from_millis(1500), app.read_exact(&mut r)).await {
                    Ok(Ok(_)) => got_replies.push(r),
                    _ => {
                        got_replies.push(Vec::new());
                        break;
                    }
                }
            }
            mi += 1;
            spos = 0;
            sent = 0;
        }
    }
    let handshake_sent = mi >= c.msgs.len();
    // what the application has written in total, and what it writes after the handshake
    let mut written: Vec<u8> = c.msgs[..mi.min(c.msgs.len())].iter().flat_map(|m| m.0.clone()).collect();
    let mut after: Vec<u8> = Vec::new();
    if mi < c.msgs.len() {
        written.extend_from_slice(&c.msgs[mi].0[..sent]);
    }
    if !closed {
        if kind == "http" && mi < c.msgs.len() {
            // the proxy may already be relaying (plain HTTP needs only the request line): send the rest
            let rest = c.msgs[mi].0[sent..].to_vec();
            let _ = app.write_all(&rest).await;
            written.extend_from_slice(&rest);
            let _ = app.write_all(&payload).await;
            after = payload.clone();
        } else if handshake_sent {
            let _ = app.write_all(&payload).await;
            after = payload.clone();
        } else {
            // the behaviour ended before the handshake was complete (the proxy refused early)
            tokio::time::sleep(Duration::from_millis(50)).await;
        }
        let _ = app.shutdown().await;
    }
    // anything else the proxy said (e.g. 414)
    let mut extra = Vec::new();
    let _ = tokio::time::timeout(Duration::from_millis(300), app.read_to_end(&mut extra)).await;
    let (res, tunnel, panicked) = match tokio::time::timeout(Duration::from_secs(40), proxy).await {
        Ok(Ok(Some((r, t)))) => (r, t, false),
        Ok(Ok(None)) => (Err("accept failed".to_owned()), vec![], false),
        Ok(Err(e)) => (Err(format!("task: {e}")), vec![], e.is_panic()),
        Err(_) => (Err("proxy handshake still waiting after 40 s".to_owned()), vec![], false),
    };
    let expect_tunnel: Vec<u8> = if kind == "http" { [written.clone(), after.clone()].concat() } else { after.clone() };
    json!({"what": c.what, "target": c.target, "result": match &res { Ok(a) => json!({"ok": a}), Err(e) => json!({"err": e}) }, "panicked": panicked,
        "replies_ok": got_replies.iter().zip(c.replies.iter()).all(|(a, b)| a == b) && got_replies.len() == c.replies.iter().filter(|r| !r.is_empty()).count().min(got_replies.len()),
        "replies": got_replies.len(), "tunnel_ok": tunnel == expect_tunnel, "tunnel_len": tunnel.len(), "expect_tunnel_len": expect_tunnel.len(),
        "handshake_sent": handshake_sent, "extra": String::from_utf8_lossy(&extra).chars().take(60).collect::<String>()})
}

pub fn local(args: &[String]) -> anyhow::Result<()> {
    util::quiet_panics();
    let o = util::opts(args);
    let seed = util::opt_u64(&o, "seed", 1);
    let mut rng = SmallRng::seed_from_u64(seed);
    let scenarios = util::stdin_json_lines();
    let rt = tokio::runtime::Builder::new_multi_thread().worker_threads(8).enable_all().build()?;
    rt.block_on(async {
        // scenarios are independent connections: run them concurrently in small batches
        for chunk in scenarios.chunks(400) {
            let mut hs = Vec::new();
            for sc in chunk {
                let sc = sc.clone();
                let variant = rng.random_range(0..12usize);
                hs.push(tokio::spawn(async move {
                    let r = run_local(&sc, variant).await;
                    (sc, variant, r)
                }));
            }
            for h in hs {
                if let Ok((sc, variant, r)) = h.await {
                    let e = &sc["expect"];
                    let st = e["st"].as_str().unwrap_or("");
                    let ok_addr = r["result"]["ok"].as_str();
                    let mut why: Vec<String> = Vec::new();
                    if r.get("tool_error").is_some() {
                        println!("{}", json!({"tool_error": r["tool_error"]}));
                        continue;
                    }
                    if r["panicked"].as_bool() == Some(true) {
                        why.push(format!("handshake task panicked: {}", r["result"]["err"]));
                    } else if st == "tunnel" {
                        match ok_addr {
                            Some(a) if a == r["target"].as_str().unwrap_or("") => {}
                            Some(a) => why.push(format!("tunnel to {a}, requested {}", r["target"])),
                            None => why.push(format!("well-formed handshake refused: {}", r["result"]["err"])),
                        }
                        if ok_addr.is_some() && r["tunnel_ok"].as_bool() != Some(true) {
                            why.push(format!("tunnel would carry {} bytes, expected {} (handshake bytes leaked into the tunnel or payload lost)", r["tunnel_len"], r["expect_tunnel_len"]));
                        }
                        if r["replies_ok"].as_bool() != Some(true) {
                            why.push("replies differ from what the protocol prescribes".to_owned());
                        }
                    } else if ok_addr.is_some() {
                        why.push(format!("model says {st}, but a tunnel to {} was opened ({})", ok_addr.unwrap_or(""), r["what"]));
                    }
                    println!("{}", json!({"scenario": sc, "variant": variant, "ok": why.is_empty(), "why": why, "obs": r}));
                }
            }
        }
    });
    Ok(())
}
