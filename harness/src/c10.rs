//! C10: handshake acceptance rules. Scenarios come from TLC (MCHandshake*, MCHandshakeMsg); messages are
//! built by the reference codec with exact timestamps / type bytes / echoes and judged by the real codecs.

use std::io::Write;
use std::sync::Arc;
use std::sync::atomic::AtomicBool;
use std::sync::atomic::Ordering;
use std::time::Duration;

use bytes::BytesMut;
use octo_squirrel::verif as hooks;
use octo_squirrel_client::client::verif as cv;
use octo_squirrel_server::server::verif as sv;
use rand::Rng;
use rand::SeedableRng;
use rand::rngs::SmallRng;
use serde_json::Value;
use serde_json::json;
use tokio_util::codec::Encoder;

use crate::refcodec as rc;
use crate::refcodec::Addr;
use crate::refcodec::Cipher;
use crate::refvmess as rv;
use crate::sut;
use crate::util;

const C2022: [Cipher; 4] = [Cipher::Aes128Gcm2022, Cipher::Aes256Gcm2022, Cipher::ChaCha8Poly1305_2022, Cipher::ChaCha20Poly1305_2022];

fn variants() -> Vec<(Cipher, usize)> {
    let mut v: Vec<(Cipher, usize)> = C2022.iter().map(|c| (*c, 0)).collect();
    v.push((Cipher::Aes128Gcm2022, 2));
    v.push((Cipher::Aes256Gcm2022, 2));
    v
}

/// Sleep until the wall clock is in the first 150 ms of a second; returns that second.
fn align() -> u64 {
    loop {
        let d = std::time::SystemTime::now().duration_since(std::time::UNIX_EPOCH).unwrap();
        if d.subsec_millis() < 150 {
            return d.as_secs();
        }
        std::thread::sleep(Duration::from_millis((1000 - d.subsec_millis() as u64).min(50)));
    }
}

fn sleep_until(sec: u64, millis: u64) {
    loop {
        let d = std::time::SystemTime::now().duration_since(std::time::UNIX_EPOCH).unwrap();
        let now_ms = d.as_secs() * 1000 + d.subsec_millis() as u64;
        let target = sec * 1000 + millis;
        if now_ms >= target {
            return;
        }
        std::thread::sleep(Duration::from_millis((target - now_ms).min(200)));
    }
}

pub(crate) fn request_bytes(c: Cipher, users: usize, ts: u64, typ: u8, rng: &mut SmallRng) -> Vec<u8> {
    let (cp, _, _) = sut::ss_passwords(c, users);
    let mut salt = vec![0u8; c.key_len()];
    rng.fill(&mut salt[..]);
    let r = rc::Req2022 { typ, ts, addr: Addr::Domain(b"example.com".to_vec(), 443), padding: 0, first_payload: b"hello".to_vec(), salt };
    rc::ss2022_request(c, &cp, &r).out
}

pub(crate) fn present(listener: &sv::Listener, bytes: &[u8]) -> sut::Got {
    match listener.new_codec() {
        Ok(mut codec) => sut::server_decode(&mut codec, &mut BytesMut::from(bytes)),
        Err(e) => sut::Got::Err(format!("new_codec: {e}")),
    }
}

/// sequential / timed scenario: two presentations of one request at model times `times`.
fn run_seq(sc: &Value, c: Cipher, users: usize, seed: u64) -> Value {
    let dts = sc["dts"].as_i64().unwrap_or(0);
    let typ = sc["typ"].as_u64().unwrap_or(0) as u8;
    let times: Vec<u64> = sc["times"].as_array().map(|a| a.iter().map(|v| v.as_u64().unwrap_or(0)).collect()).unwrap_or_default();
    let mut rng = SmallRng::seed_from_u64(seed);
    let listener = match sv::listener(&sut::ss_server_cfg(c, users)) {
        Ok(l) => l,
        Err(e) => return json!({"tool_error": e.to_string()}),
    };
    for _attempt in 0..6 {
        let t0 = if times.iter().all(|t| *t == 0) { rc::unix_now() } else { align() };
        let bytes = request_bytes(c, users, (t0 as i64 + dts) as u64, typ, &mut rng);
        let mut got = Vec::new();
        let mut stable = true;
        for t in &times {
            if *t > 0 {
                sleep_until(t0 + *t, 250);
            }
            let before = rc::unix_now();
            got.push(present(&listener, &bytes).verdict().to_owned());
            if rc::unix_now() != before || before != t0 + *t {
                stable = false; // crossed a second boundary while judging: the boundary classes would blur
            }
        }
        if stable {
            return json!({"got": got, "cipher": c.name(), "users": users});
        }
    }
    json!({"tool_error": "could not keep a scenario within one clock second"})
}

const PASS_THROUGH: [&str; 3] = ["check.busy", "region.enter", "region.exit"];

fn point_of(action: &str) -> Option<&'static str> {
    match action {
        "CheckAcquire" | "CheckBusy" => Some("check.before"),
        "CheckBody" => Some("check.locked"),
        "SetAcquire" | "SetBusy" => Some("set.before"),
        "SetBody" => Some("set.locked"),
        _ => None,
    }
}

/// concurrent scenario: replay TLC's interleaving on real threads with the sync-point controller.
fn run_conc(sc: &Value, c: Cipher, users: usize, seed: u64) -> Value {
    let n = sc["n"].as_u64().unwrap_or(2);
    let mut rng = SmallRng::seed_from_u64(seed);
    let listener = match sv::listener(&sut::ss_server_cfg(c, users)) {
        Ok(l) => Arc::new(l),
        Err(e) => return json!({"tool_error": e.to_string()}),
    };
    let bytes = Arc::new(request_bytes(c, users, rc::unix_now(), 0, &mut rng));
    hooks::install_controller();
    let mut handles = Vec::new();
    let mut done = Vec::new();
    for tag in 1..=n {
        let l = listener.clone();
        let b = bytes.clone();
        let d = Arc::new(AtomicBool::new(false));
        done.push(d.clone());
        handles.push(std::thread::spawn(move || {
            hooks::set_thread_tag(tag);
            let r = present(&l, &b).verdict().to_owned();
            d.store(true, Ordering::SeqCst);
            r
        }));
    }
    let mut diverged: Option<String> = None;
    let sched = sc["sched"].as_array().cloned().unwrap_or_default();
    // quiescence: after a release, wait until that thread is parked at its next (non pass-through)
    // point or has finished, so that "the lock is free again" in the model is true in the real code
    let settle = |tag: u64| -> Result<Option<String>, String> {
        for _ in 0..2500 {
            if done[(tag - 1) as usize].load(Ordering::SeqCst) {
                return Ok(None);
            }
            match hooks::wait_parked(tag, 2) {
                Some(p) if PASS_THROUGH.contains(&p.as_str()) => hooks::release(tag),
                Some(p) => return Ok(Some(p)),
                None => {}
            }
        }
        Err(format!("connection {tag} neither parked nor finished (blocked on the cache mutex?)"))
    };
    'outer: for (i, st) in sched.iter().enumerate() {
        let tag = st[0].as_u64().unwrap_or(0);
        let action = st[1].as_str().unwrap_or("");
        let Some(want) = point_of(action) else { continue };
        match settle(tag) {
            Ok(Some(p)) if p == want => {
                hooks::release(tag);
                if let Err(e) = settle(tag) {
                    diverged = Some(format!("after step {i} ({action}): {e}"));
                    break 'outer;
                }
            }
            Ok(Some(p)) => {
                diverged = Some(format!("step {i}: connection {tag} is at {p}, model expects {action} ({want})"));
                break 'outer;
            }
            Ok(None) => {
                diverged = Some(format!("step {i}: connection {tag} already finished, model expects {action}"));
                break 'outer;
            }
            Err(e) => {
                diverged = Some(format!("step {i}: {e}"));
                break 'outer;
            }
        }
    }
    // let everything run to completion
    let mut extra = 0;
    for _ in 0..2000 {
        if done.iter().all(|d| d.load(Ordering::SeqCst)) {
            break;
        }
        for tag in 1..=n {
            if !done[(tag - 1) as usize].load(Ordering::SeqCst) && hooks::wait_parked(tag, 2).is_some() {
                hooks::release(tag);
                extra += 1;
            }
        }
    }
    hooks::remove_controller();
    let verdicts: Vec<String> = handles.into_iter().map(|h| h.join().unwrap_or_else(|_| "panic".to_owned())).collect();
    let accepted = verdicts.iter().filter(|v| *v == "accept").count();
    json!({"got": accepted, "verdicts": verdicts, "diverged": diverged, "extra_releases": extra, "cipher": c.name(), "users": users})
}

fn run_msg(sc: &Value, seed: u64) -> Vec<Value> {
    let kind = sc["kind"].as_str().unwrap_or("");
    let dts = sc["dts"].as_i64().unwrap_or(0);
    let ext = sc["ext"].as_str().unwrap_or("no");
    let typ = sc["typ"].as_u64().unwrap_or(0) as u8;
    let echo_own = sc["echo"].as_str() == Some("own");
    let auth = sc["auth"].as_str().unwrap_or("ok");
    let mut rng = SmallRng::seed_from_u64(seed);
    let mut out = Vec::new();
    let addr = Addr::Domain(b"example.com".to_vec(), 443);
    for _attempt in 0..6 {
        out.clear();
        let t0 = rc::unix_now();
        // the Shadowsocks field is unsigned, the VMess one signed; "wrap" is the value whose distance from the
        // receiver's clock is i64::MIN when taken as a signed 64-bit difference
        let ts = match ext {
            "lo" => 0,
            "hi" => u64::MAX,
            "wrap" => t0.wrapping_add(1 << 63),
            _ => (t0 as i64 + dts) as u64,
        };
        let vts = match ext {
            "lo" => i64::MIN,
            "hi" => i64::MAX,
            "wrap" => i64::MIN.wrapping_add(t0 as i64),
            _ => t0 as i64 + dts,
        };
        match kind {
            "ss-resp" => {
                for c in C2022 {
                    let mut client = cv::tcp_codec(&sut::ss_client_cfg(c, 0), &addr.to_octo()).unwrap();
                    let mut req = BytesMut::new();
                    client.encode(BytesMut::from(&b"ping"[..]), &mut req).unwrap();
                    let own = req[..c.key_len()].to_vec();
                    let mut other = own.clone();
                    other[0] ^= 0x80;
                    let mut salt = vec![0u8; c.key_len()];
                    rng.fill(&mut salt[..]);
                    let resp = rc::ss2022_response(c, &sut::key_raw(c, 1), &salt, typ, ts, if echo_own { &own } else { &other }, b"pong");
                    let got = sut::client_decode(&mut client, &mut BytesMut::from(&resp.out[..]));
                    out.push(json!({"got": got.verdict(), "cipher": c.name(), "detail": format!("{:?}", got)}));
                }
            }
            "ss-udp-c2s" => {
                for (c, users) in variants() {
                    let (cp, sp, us) = sut::ss_passwords(c, users);
                    let p = rc::Udp2022 { session_id: rng.random(), packet_id: 1, typ, ts, client_session_id: None, padding: 3, addr: addr.clone(), payload: b"dgram".to_vec() };
                    let mut n24 = [0u8; 24];
                    rng.fill(&mut n24[..]);
                    let wire = rc::udp2022_packet(c, &cp, &p, &n24);
                    let got = crate::ssudp::server_decode(c, &sp, &us, &wire);
                    out.push(json!({"got": got.verdict(), "cipher": c.name(), "users": users, "detail": format!("{:?}", got)}));
                }
            }
            "ss-udp-s2c" => {
                for c in C2022 {
                    let mut client = cv::packet_codec(&sut::ss_client_cfg(c, 0), &addr.to_octo()).unwrap();
                    let p = rc::Udp2022 { session_id: rng.random(), packet_id: 1, typ, ts, client_session_id: Some(rng.random()), padding: 0, addr: addr.clone(), payload: b"reply".to_vec() };
                    let mut n24 = [0u8; 24];
                    rng.fill(&mut n24[..]);
                    let wire = rc::udp2022_packet(c, &sut::key_b64(c, 1), &p, &n24);
                    let got = sut::client_packet_decode(&mut client, &mut BytesMut::from(&wire[..]));
                    out.push(json!({"got": got.verdict(), "cipher": c.name(), "detail": format!("{:?}", got)}));
                }
            }
            "vmess-auth" => {
                let listener = sv::listener(&sut::vmess_server_cfg(&[sut::UUID_A, sut::UUID_B])).unwrap();
                for sec in [rv::SEC_AES128_GCM, rv::SEC_CHACHA20_POLY1305] {
                    let uuid = if auth == "unknownuser" { sut::UUID_X } else { sut::UUID_A };
                    let ck = rv::cmd_key(uuid).unwrap();
                    let req = rv::VmessReq { iv: rng.random(), key: rng.random(), resp_auth: rng.random(), option: 0x1d, security: sec, cmd: 1, addr: addr.clone(), header_padding: 5 };
                    let aid = rv::auth_id(&ck, vts, rng.random(), auth == "badcrc");
                    let mut wire = rv::seal_request_header(&ck, &aid, &rng.random(), &req.plain_header());
                    let mut body = rv::VmessBody::new(req.option, sec, req.key, req.iv, req.key, req.iv);
                    body.chunk(b"hello", &mut wire);
                    let mut codec = listener.new_codec().unwrap();
                    let got = sut::server_decode(&mut codec, &mut BytesMut::from(&wire[..]));
                    out.push(json!({"got": got.verdict(), "security": sec, "detail": format!("{:?}", got)}));
                }
            }
            "vmess-resp" => {
                for cipher in ["aes-128-gcm", "chacha20-poly1305"] {
                    let mut client = cv::tcp_codec(&sut::vmess_client_cfg(cipher, sut::UUID_A), &addr.to_octo()).unwrap();
                    let mut reqb = BytesMut::new();
                    client.encode(BytesMut::from(&b"ping"[..]), &mut reqb).unwrap();
                    let ck = rv::cmd_key(sut::UUID_A).unwrap();
                    let Some((_, h, _)) = rv::open_request_header(&ck, &reqb) else {
                        out.push(json!({"tool_error": "reference opener cannot open the client's request header"}));
                        continue;
                    };
                    let Some(req) = rv::VmessReq::parse(&h) else {
                        out.push(json!({"tool_error": "reference parser rejects the client's request header"}));
                        continue;
                    };
                    let (mut rk, mut ri) = rv::resp_keys(&req.key, &req.iv);
                    if auth == "otherkeys" {
                        rk[0] ^= 1;
                        ri[0] ^= 1;
                    }
                    let ra = if echo_own { req.resp_auth } else { req.resp_auth ^ 0x55 };
                    let mut wire = rv::seal_response_header(&rk, &ri, ra, req.option);
                    let mut body = rv::VmessBody::new(req.option, req.security, rk, ri, req.key, req.iv);
                    body.chunk(b"pong", &mut wire);
                    let got = sut::client_decode(&mut client, &mut BytesMut::from(&wire[..]));
                    out.push(json!({"got": got.verdict(), "cipher": cipher, "detail": format!("{:?}", got)}));
                }
            }
            _ => out.push(json!({"tool_error": format!("unknown message kind {kind}")})),
        }
        if rc::unix_now() == t0 {
            return out;
        }
    }
    vec![json!({"tool_error": "could not keep a scenario within one clock second"})]
}

pub fn replay(args: &[String]) -> anyhow::Result<()> {
    util::quiet_panics();
    let o = util::opts(args);
    let seed = util::opt_u64(&o, "seed", 1);
    let scenarios = util::stdin_json_lines();
    let stdout = std::io::stdout();
    // timed scenarios sleep: run them on their own threads, all at once
    let mut timed = Vec::new();
    for (i, sc) in scenarios.iter().enumerate() {
        let k = sc["k"].as_str().unwrap_or("");
        let is_timed = k == "seq" && sc["times"].as_array().is_some_and(|a| a.iter().any(|t| t.as_u64().unwrap_or(0) > 0));
        if is_timed {
            let sc = sc.clone();
            timed.push(std::thread::spawn(move || {
                let mut res = Vec::new();
                for (j, (c, users)) in variants().into_iter().enumerate() {
                    if j % 2 == (i % 2) {
                        res.push(json!({"scenario": sc, "result": run_seq(&sc, c, users, seed + i as u64 * 31 + j as u64)}));
                    }
                }
                res
            }));
        }
    }
    for (i, sc) in scenarios.iter().enumerate() {
        let k = sc["k"].as_str().unwrap_or("");
        let s = seed.wrapping_mul(7919).wrapping_add(i as u64);
        match k {
            "seq" => {
                if sc["times"].as_array().is_some_and(|a| a.iter().any(|t| t.as_u64().unwrap_or(0) > 0)) {
                    continue;
                }
                for (c, users) in variants() {
                    writeln!(stdout.lock(), "{}", json!({"scenario": sc, "result": run_seq(sc, c, users, s)}))?;
                }
            }
            "conc" => {
                let vs = variants();
                let (c, users) = vs[i % vs.len()];
                writeln!(stdout.lock(), "{}", json!({"scenario": sc, "result": run_conc(sc, c, users, s)}))?;
            }
            "msg" => {
                for r in run_msg(sc, s) {
                    writeln!(stdout.lock(), "{}", json!({"scenario": sc, "result": r}))?;
                }
            }
            _ => {}
        }
    }
    for h in timed {
        for r in h.join().unwrap_or_default() {
            writeln!(stdout.lock(), "{}", r)?;
        }
    }
    Ok(())
}

/// One second more than the clock reads: `now - t_far()` is -1, the top of the unsigned timestamp field.
fn t_far() -> i64 {
    rc::unix_now() as i64 + 1
}

/// impl -> spec: a random walk of presentations against one listener; one NDJSON event each.
pub fn record(args: &[String]) -> anyhow::Result<()> {
    util::quiet_panics();
    let o = util::opts(args);
    let seed = util::opt_u64(&o, "seed", 1);
    let events = util::opt_u64(&o, "events", 400);
    let out = o.get("out").cloned().unwrap_or_else(|| "c10.ndjson".to_owned());
    let mut w = std::io::BufWriter::new(std::fs::File::create(&out)?);
    let mut rng = SmallRng::seed_from_u64(seed);
    let vs = variants();
    let (c, users) = vs[(seed as usize) % vs.len()];
    let listener = sv::listener(&sut::ss_server_cfg(c, users))?;
    let start = std::time::Instant::now();
    let mut pool: Vec<(Vec<u8>, i64, u8)> = Vec::new(); // request bytes, dts at creation, type
    // the far ones: decades ahead, and far enough back that the unsigned field wraps round to its top
    let dts_choices = [-40i64, -31, -30, -29, -5, 0, 0, 0, 7, 29, 30, 31, 45, 2_000_000_000, -2_000_000_000, -(t_far())];
    let mut n = 0;
    writeln!(w, "{}", json!({"ev":"Header","salt":0,"dts":0,"typ":0,"ok":false,"cipher":c.name(),"users":users}))?;
    while n < events {
        let t0 = rc::unix_now();
        let replay_old = !pool.is_empty() && rng.random_range(0..3) == 0;
        let idx = if replay_old {
            rng.random_range(0..pool.len())
        } else {
            let dts = dts_choices[rng.random_range(0..dts_choices.len())];
            let typ = if rng.random_range(0..6) == 0 { rng.random_range(1..3) } else { 0 };
            pool.push((request_bytes(c, users, (t0 as i64 + dts) as u64, typ, &mut rng), dts, typ));
            pool.len() - 1
        };
        let got = present(&listener, &pool[idx].0);
        if rc::unix_now() != t0 {
            // the second changed under us: drop this observation (its dts class is ambiguous) and
            // forget the pool, whose dts values are relative to creation time
            pool.clear();
            writeln!(w, "{}", json!({"ev":"Forget","salt":0,"dts":0,"typ":0,"ok":false,"cipher":"","users":0}))?;
            continue;
        }
        writeln!(w, "{}", json!({"ev":"Present","salt":idx + 1,"dts":pool[idx].1,"typ":pool[idx].2,"ok":got.verdict()=="accept","cipher":"","users":0}))?;
        n += 1;
    }
    w.flush()?;
    anyhow::ensure!(start.elapsed() < Duration::from_secs(20), "recording took too long for the no-expiry assumption");
    println!("{}", json!({"summary": true, "events": n, "out": out, "cipher": c.name(), "users": users}));
    Ok(())
}
