//! C04: decoding is independent of segmentation and never stalls.
//! `c04-replay`: segmentations exported by TLC (scaled layouts) are mapped onto real streams of every
//! protocol/cipher behind the layout and delivered through the real adapters.
//! `c04-record`: systematic and random segmentations of real streams, recorded as NDJSON runs for
//! validation against the StreamCodec design with the real field lengths.

use std::io::Write;

use rand::Rng;
use rand::SeedableRng;
use rand::rngs::SmallRng;
use serde_json::Value;
use serde_json::json;

use crate::stream;
use crate::stream::Fixture;
use crate::stream::StepObs;
use crate::stream::Totals;
use crate::util;

#[allow(dead_code)]
pub const LEGACY: [&str; 3] = ["aes-128-gcm", "aes-256-gcm", "chacha20-poly1305"];
pub const C2022: [&str; 4] = ["2022-blake3-aes-128-gcm", "2022-blake3-aes-256-gcm", "2022-blake3-chacha8-poly1305", "2022-blake3-chacha20-poly1305"];
pub const VMESS: [&str; 2] = ["aes-128-gcm", "chacha20-poly1305"];

/// Real protocols behind a model layout, and the number of application writes that gives the same field sequence.
pub fn protos_for_layout(layout: &str) -> (Vec<String>, usize) {
    match layout {
        "ss-legacy-req" => (LEGACY.iter().map(|c| format!("ss-req:{c}")).collect(), 3),
        "ss-legacy-resp" => (LEGACY.iter().map(|c| format!("ss-resp:{c}")).collect(), 3),
        "ss2022-req" => (C2022.iter().map(|c| format!("ss-req:{c}")).collect(), 3),
        "ss2022-req-eih" => (C2022[..2].iter().map(|c| format!("ss-req:{c}:eih")).collect(), 3),
        "ss2022-resp" => {
            let mut v: Vec<String> = C2022.iter().map(|c| format!("ss-resp:{c}")).collect();
            v.extend(C2022[..2].iter().map(|c| format!("ss-resp:{c}:eih")));
            (v, 3)
        }
        "vmess-req" => (VMESS.iter().map(|c| format!("vmess-req:{c}")).collect(), 3),
        "vmess-resp" => (VMESS.iter().map(|c| format!("vmess-resp:{c}")).collect(), 3),
        "vmess-udp-req" => (VMESS.iter().map(|c| format!("vmess-udp-req:{c}")).collect(), 3),
        "vmess-udp-resp" => (VMESS.iter().map(|c| format!("vmess-udp-resp:{c}")).collect(), 3),
        "trojan-req" => (vec!["trojan-req".to_owned()], 2),
        "trojan-udp-req" => (vec!["trojan-udp-req".to_owned()], 3),
        "dgrams" => (vec!["trojan-udp-resp".to_owned()], 3),
        "raw" => (vec!["trojan-resp".to_owned()], 2),
        _ => (vec![], 0),
    }
}

pub fn all_layouts() -> Vec<&'static str> {
    vec![
        "ss-legacy-req", "ss-legacy-resp", "ss2022-req", "ss2022-req-eih", "ss2022-resp", "vmess-req", "vmess-resp", "vmess-udp-req", "vmess-udp-resp",
        "trojan-req", "trojan-udp-req", "dgrams", "raw",
    ]
}

const SIZES: [usize; 9] = [1, 2, 3, 17, 64, 255, 300, 1400, 1900];

/// A legal choice other clients make and the bundled one never does: the first chunk of a Shadowsocks request carries the
/// target address and nothing else (SIP004 clients that connect before the application has written; SIP022 clients then
/// add the mandatory padding).  The connect item is owed as soon as that chunk has arrived.  Every third reference-made
/// Shadowsocks request stream starts that way.
fn address_only_first(writes: &mut [usize], layout: &str, producer: &str, turn: usize) {
    if producer == "ref" && matches!(layout, "ss-legacy-req" | "ss2022-req" | "ss2022-req-eih") && turn % 3 == 0 && !writes.is_empty() {
        writes[0] = 0;
    }
}

pub fn pick_writes(n: usize, rng: &mut SmallRng) -> Vec<usize> {
    (0..n).map(|_| SIZES[rng.random_range(0..SIZES.len())]).collect()
}

/// Map an offset of the scaled layout onto the real stream, keeping its class relative to the field boundary.
fn map_cut(scaled: &[(String, usize)], fx: &Fixture, s: usize, alt: bool) -> Option<usize> {
    if scaled.len() != fx.fields.len() {
        return None;
    }
    let mut start = 0;
    for (i, (name, len)) in scaled.iter().enumerate() {
        if fx.fields[i].name != name {
            return None;
        }
        if s < start + len || (i + 1 == scaled.len() && s == start + len) {
            let d = s - start;
            let rs = fx.field_start(i);
            let rl = fx.fields[i].len;
            let r = if d == 0 {
                rs
            } else if d == *len {
                rs + rl
            } else if *len == 2 {
                if alt { rs + rl - 1 } else { rs + 1 }
            } else if d == 1 {
                rs + 1
            } else if d == len - 1 {
                rs + rl - 1
            } else {
                rs + rl / 2
            };
            return Some(r.min(fx.wire.len()));
        }
        start += len;
    }
    None
}

/// Compare a run with what the fixture says must come out; returns the list of disagreements.
pub fn judge(fx: &Fixture, steps: &[StepObs], arrived: &[usize], first_seg: usize) -> Vec<String> {
    let mut why = Vec::new();
    let mut t = Totals::default();
    let exempt = fx.exempt_first > 0 && first_seg < fx.exempt_first;
    for (j, o) in steps.iter().enumerate() {
        t.absorb(o);
        if let Some(p) = &o.panic {
            why.push(format!("panic after delivery {}: {}", j + 1, p));
            return why;
        }
        if let Some(e) = &o.err {
            if !exempt {
                why.push(format!("error on a valid stream after delivery {}: {}", j + 1, e));
            }
            return why;
        }
        let (dc, dp, di) = fx.deliverable(arrived[j]);
        let got_plain = if fx.datagram_mode { t.datagrams.iter().map(|d| d.0.len()).sum() } else { t.plain.len() };
        if got_plain != dp || (fx.datagram_mode && t.datagrams.len() != di) || (fx.hs_group >= 0 && !fx.datagram_mode && (t.connects > 0) != dc) {
            why.push(format!(
                "after delivery {} ({} bytes arrived) the adapter waits for input having released {} plaintext bytes / {} datagrams / connect={} but {} / {} / {} are complete",
                j + 1, arrived[j], got_plain, t.datagrams.len(), t.connects > 0, dp, di, dc
            ));
            return why;
        }
    }
    if fx.datagram_mode {
        if t.datagrams.len() != fx.datagrams.len() || t.datagrams.iter().zip(fx.datagrams.iter()).any(|(a, b)| a.0 != b.0) {
            why.push("datagram payloads differ from what was sent".to_owned());
        }
        if fx.proto.starts_with("trojan-udp") && t.datagrams.iter().zip(fx.datagrams.iter()).any(|(a, b)| a.1 != b.1) {
            why.push(format!("datagram addresses differ: got {:?}", t.datagrams.iter().map(|d| d.1.clone()).collect::<Vec<_>>()));
        }
    } else {
        if t.plain != fx.plain {
            why.push(format!("plaintext differs from what was sent ({} vs {} bytes)", t.plain.len(), fx.plain.len()));
        }
        if fx.hs_group >= 0 {
            match &t.connect {
                None => why.push("no connect item".to_owned()),
                Some((_, a)) => {
                    if Some(a) != fx.connect.as_ref() {
                        why.push(format!("connect address {} differs from the requested {:?}", a, fx.connect));
                    }
                    if t.connect_pos != Some(0) || t.connects != 1 {
                        why.push(format!("connect item is not the single first item (position {:?}, count {})", t.connect_pos, t.connects));
                    }
                }
            }
        }
    }
    why
}

pub fn run_cuts(fx: &mut Fixture, adapter: &str, offsets: &[usize]) -> (Vec<StepObs>, Vec<usize>, usize) {
    let segs = stream::cut(&fx.wire, offsets);
    let mut arrived = Vec::new();
    let mut a = 0;
    for s in &segs {
        a += s.len();
        arrived.push(a);
    }
    let first = segs.first().map(|s| s.len()).unwrap_or(0);
    let dec = fx.dec.take().expect("fixture decoder already used");
    (stream::run_adapter(adapter, dec, &segs, false), arrived, first)
}

pub fn replay(args: &[String]) -> anyhow::Result<()> {
    util::quiet_panics();
    let o = util::opts(args);
    let seed = util::opt_u64(&o, "seed", 1);
    let mut rng = SmallRng::seed_from_u64(seed);
    let stdout = std::io::stdout();
    let mut n = 0u64;
    let mut bad = 0u64;
    for (idx, sc) in util::stdin_json_lines().iter().enumerate() {
        let layout = sc["layout"].as_str().unwrap_or("");
        let adapter = sc["adapter"].as_str().unwrap_or("framed");
        let scaled: Vec<(String, usize)> = sc["fields"].as_array().map(|a| a.iter().map(|f| (f["name"].as_str().unwrap_or("").to_owned(), f["len"].as_u64().unwrap_or(0) as usize)).collect()).unwrap_or_default();
        let cuts: Vec<usize> = sc["cuts"].as_array().map(|a| a.iter().map(|v| v.as_u64().unwrap_or(0) as usize).collect()).unwrap_or_default();
        let (protos, nwrites) = protos_for_layout(layout);
        if protos.is_empty() {
            println!("{}", json!({"tool_error": format!("no protocol for layout {layout}")}));
            continue;
        }
        // every scenario on one protocol of the family (rotating), both producers over time
        let proto = &protos[idx % protos.len()];
        let producer = if (idx / protos.len()) % 2 == 0 { "real" } else { "ref" };
        let mut writes = pick_writes(nwrites, &mut rng);
        address_only_first(&mut writes, layout, producer, idx / 7);
        let mut fx = match stream::fixture(proto, &writes, producer, idx, &mut rng) {
            Ok(f) => f,
            Err(e) => {
                n += 1;
                bad += 1;
                writeln!(stdout.lock(), "{}", json!({"scenario": sc, "proto": proto, "producer": producer, "ok": false, "why": [format!("fixture: {e:#}")], "fixture_failed": true}))?;
                continue;
            }
        };
        let mut offs = Vec::new();
        let mut unmapped = false;
        for c in &cuts {
            match map_cut(&scaled, &fx, *c, idx % 2 == 1) {
                Some(r) => offs.push(r),
                None => unmapped = true,
            }
        }
        if unmapped {
            writeln!(stdout.lock(), "{}", json!({"tool_error": format!("layout {layout} does not line up with the real fields of {proto}: {:?}", fx.fields.iter().map(|f| f.name).collect::<Vec<_>>())}))?;
            continue;
        }
        let (steps, arrived, first) = run_cuts(&mut fx, adapter, &offs);
        let why = judge(&fx, &steps, &arrived, first);
        n += 1;
        if !why.is_empty() {
            bad += 1;
        }
        writeln!(stdout.lock(), "{}", json!({"scenario": {"layout": layout, "adapter": adapter, "cuts": cuts}, "proto": proto, "producer": producer, "writes": writes,
            "real_cuts": arrived, "ok": why.is_empty(), "why": why}))?;
    }
    println!("{}", json!({"summary": true, "scenarios": n, "bad": bad}));
    Ok(())
}

pub fn layout_line(fx: &Fixture, adapter: &str, bad_from: usize) -> Value {
    json!({"ev": "Reset", "proto": fx.proto, "adapter": adapter,
        "fields": fx.fields.iter().map(|f| json!({"len": f.len, "plain": f.plain, "group": f.group, "raw": f.raw, "dgram": f.name == "dgram"})).collect::<Vec<_>>(),
        "hs": if fx.datagram_mode { -1 } else { fx.hs_group }, "datagram": fx.datagram_mode, "exempt": fx.exempt_first,
        "enc": !fx.proto.starts_with("trojan"), "badFrom": bad_from, "stop0": fx.exempt_first > 0})
}

/// Write one run (Reset, then Deliver/Quiet pairs, optionally Eof/Quiet) and return the harness's own judgement.
pub fn record_run(w: &mut impl Write, fx: &mut Fixture, adapter: &str, offsets: &[usize]) -> anyhow::Result<Vec<String>> {
    writeln!(w, "{}", layout_line(fx, adapter, 0))?;
    let segs = stream::cut(&fx.wire, offsets);
    let (steps, arrived, first) = run_cuts(fx, adapter, offsets);
    write_steps(w, fx, &segs, &steps, false)?;
    Ok(judge(fx, &steps, &arrived, first))
}

/// Deliver/Quiet (and Eof/Quiet) events of a run. `steps` has one more entry than `segs` when `eof`.
pub fn write_steps(w: &mut impl Write, fx: &Fixture, segs: &[Vec<u8>], steps: &[StepObs], eof: bool) -> anyhow::Result<()> {
    let mut t = Totals::default();
    let mut dead = false;
    for (j, o) in steps.iter().enumerate() {
        if dead {
            break;
        }
        t.absorb(o);
        let plain: usize = if fx.datagram_mode { t.datagrams.iter().map(|d| d.0.len()).sum() } else { t.plain.len() };
        dead = o.err.is_some() || o.panic.is_some() || o.ended;
        if j < segs.len() {
            writeln!(w, "{}", json!({"ev": "Deliver", "k": segs[j].len()}))?;
        } else if eof {
            writeln!(w, "{}", json!({"ev": "Eof"}))?;
        }
        writeln!(w, "{}", json!({"ev": "Quiet", "plain": plain, "items": t.datagrams.len(), "connect": t.connects > 0 && !fx.datagram_mode,
            "failed": o.err.is_some(), "panicked": o.panic.is_some(), "ended": o.ended && o.err.is_none(),
            "detail": o.err.clone().or(o.panic.clone()).unwrap_or_default()}))?;
    }
    Ok(())
}

pub fn record(args: &[String]) -> anyhow::Result<()> {
    util::quiet_panics();
    let o = util::opts(args);
    let seed = util::opt_u64(&o, "seed", 1);
    let runs = util::opt_u64(&o, "runs", 200);
    let mode = o.get("mode").cloned().unwrap_or_else(|| "mixed".to_owned());
    let out = o.get("out").cloned().unwrap_or_else(|| "c04.ndjson".to_owned());
    let only = o.get("layout").cloned();
    let mut w = std::io::BufWriter::new(std::fs::File::create(&out)?);
    let mut rng = SmallRng::seed_from_u64(seed);
    let layouts: Vec<&str> = all_layouts().into_iter().filter(|l| only.as_deref().is_none_or(|o| o == *l)).collect();
    let mut n = 0u64;
    let mut disagreements: Vec<Value> = Vec::new();
    let mut i = 0usize;
    while n < runs {
        let layout = layouts[i % layouts.len()];
        let (protos, nwrites) = protos_for_layout(layout);
        let proto = &protos[(i / layouts.len()) % protos.len()];
        let adapter = if (i / 3) % 2 == 0 { "framed" } else { "ws" };
        let producer = if (i / 5) % 2 == 0 { "real" } else { "ref" };
        i += 1;
        let mut writes = match mode.as_str() {
            "tiny" => (0..nwrites).map(|_| rng.random_range(1..4usize)).collect::<Vec<_>>(),
            _ => pick_writes(nwrites, &mut rng),
        };
        address_only_first(&mut writes, layout, producer, i / 11);
        let mut fx = match stream::fixture(proto, &writes, producer, i, &mut rng) {
            Ok(f) => f,
            Err(e) => {
                disagreements.push(json!({"proto": proto, "producer": producer, "why": [format!("fixture: {e:#}")]}));
                n += 1;
                continue;
            }
        };
        let len = fx.wire.len();
        let offsets: Vec<usize> = match (mode.as_str(), rng.random_range(0..6)) {
            ("tiny", 0) | ("tiny", 1) => (1..len).collect(), // byte by byte
            (_, 0) => vec![rng.random_range(1..len.max(2))],
            (_, 1) => vec![rng.random_range(1..len.max(2)), rng.random_range(1..len.max(2))],
            (_, 2) => {
                // cuts at / around field boundaries
                let mut v = Vec::new();
                let mut pos = 0;
                for f in &fx.fields {
                    pos += f.len;
                    match rng.random_range(0..4) {
                        0 => v.push(pos),
                        1 => v.push(pos + 1),
                        2 => v.push(pos.saturating_sub(1)),
                        _ => {}
                    }
                }
                v
            }
            (_, 3) => (0..rng.random_range(1..12)).map(|_| rng.random_range(1..len.max(2))).collect(),
            (_, 4) => vec![], // one segment
            _ => {
                // the handshake byte by byte, the rest in two pieces
                let hs: usize = fx.fields.iter().take_while(|f| f.group == 0).map(|f| f.len).sum();
                let from = if fx.exempt_first > 0 { fx.exempt_first } else { 1 };
                let mut v: Vec<usize> = (from..=hs.min(len - 1)).collect();
                v.push(rng.random_range(1..len.max(2)));
                v
            }
        };
        let why = record_run(&mut w, &mut fx, adapter, &offsets)?;
        if !why.is_empty() {
            disagreements.push(json!({"proto": proto, "adapter": adapter, "producer": producer, "writes": writes, "cuts": offsets, "why": why}));
        }
        n += 1;
    }
    w.flush()?;
    println!("{}", json!({"summary": true, "runs": n, "out": out, "harness_disagreements": disagreements.len(), "examples": disagreements.iter().take(12).collect::<Vec<_>>()}));
    Ok(())
}
