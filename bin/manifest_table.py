HOOK_COMMITS = ["2596038", "6457ecf", "dfc1def", "f459fae"]
NOTES = "All checks: TLA+ specification checked by TLC, bound to /repo by spec->impl replay and impl->spec trace validation (DESIGN.md)."
ENGINES = [
    {"name": "tlc", "path": "spec/", "serves_properties": [], "kind_free_text": "TLA+ specifications + TLC configs (exhaustive, deviation, trace)"},
    {"name": "vh", "path": "harness/", "serves_properties": [], "kind_free_text": "Rust harness linking /repo's crates with --cfg octo_verif: replays TLC scenarios on the real code, records NDJSON traces"},
    {"name": "e2e", "path": "e2e/", "serves_properties": [], "kind_free_text": "Python single-threaded selector loop driving the real client/server binaries"},
]
TB = "TLC 1.8.0; the Rust harness and its scenario concretisation; TLA+ model fidelity is bound by replay + trace validation, not proved"
CLAIMED["C11"] = (
    "model_checking", "TLA+ set model + ring design refinement (TLC), replay on real filter, trace validation; PacketSessions (one window per server session at the client) replayed on the real client datagram codec; live sessions over a duplicating / delaying / replaying link and across a server restart validated against TraceUdp",
    "TLC checks exhaustively that the ring design (packet_window.rs transcribed) refines the abstract set model at scaled constants, "
    "enumerates every history over a boundary alphabet at the real constants and replays each on the real PacketWindowFilter; "
    "random long histories recorded from the real filter are validated by TLC against the set model. Exhaustive on the model, "
    "sampled on 64-bit IDs. Unbounded history length at the scaled constants: Apalache discharges an inductive invariant of ring and set model in lock step "
    "(PacketRingInd; base and step, EdgeGE deviation fails). PacketSessions: every history of five (server session, id) presentations is replayed on the real client "
    "datagram codec with replies made by the real server codec (deviations OneWindow, ResetOnFlip). End to end: real client and server with a "
    "UDP middlebox that duplicates, delays, reorders, replays from another address, with datagrams the server cannot pass on between an accepted "
    "datagram and its copy, and with the server restarted in mid-session while recorded datagrams of the old server session are presented again.",
    TB, "5.11")
HOOK_COMMITS.append("9a14efa")
HOOK_COMMITS.append("b7ecbbf")
CLAIMED["C10"] = (
    "model_checking", "TLA+ handshake/salt-cache model (TLC, all interleavings and clock ticks), schedule replay on real threads, trace validation",
    "TLC checks the code-shaped salt-cache/handshake design (check, open, type, timestamp, atomic insert; lock and cache expiry explicit) "
    "for every interleaving of 2-3 copies and every clock tick, shows each named deviation violates an invariant, and exports every "
    "sequential, timed and concurrent behaviour plus every one-shot message rule; each is replayed on the real codecs (reference-built "
    "messages with exact timestamps/types/echoes, including timestamps at the extremes of the field's range; TLC's interleavings forced on real threads through cfg-guarded sync points; cache expiry "
    "with real sleeps). Random presentation histories recorded from a real listener are validated by TLC.",
    TB + "; reference codec (harness/src/refcodec.rs, refvmess.rs) builds the messages", "5.10")
CLAIMED["C04"] = (
    "model_checking", "TLA+ adapter+decoder guard-structure model (TLC over every segmentation of scaled layouts), segmentation replay through the real FramedRead/WebSocketFramed, trace validation with real field lengths",
    "TLC checks the StreamCodec design (FramedRead / WebSocketFramed contracts around the group-guard structure of every decoder) for "
    "every segmentation of 13 scaled layouts x 2 adapters (NoStall, NeverAhead, NoErrorOnValid, NoPanic, Complete) and that each named "
    "defect class violates them; simulated segmentations are mapped onto real streams of every protocol/cipher (real and reference "
    "producers) and delivered through the real adapters; hundreds of systematic/random runs are recorded and validated by TLC against "
    "the same design instantiated with each run's real field lengths, every invariant in every state; every third reference-made Shadowsocks "
    "request starts with an address-only first chunk (the connect item is owed when it has arrived).",
    TB + "; field boundaries from the reference opener", "5.4")
CLAIMED["C05"] = (
    "model_checking", "TLA+ StreamCodec with attacker (tamper point x segmentation x end of stream, TLC exhaustive) + DatagramTamper, concrete attacks replayed through the real adapters, trace validation",
    "TLC checks, for every scaled encrypted layout, adapter, segmentation, end-of-stream point and tamper point, that nothing beyond the untampered "
    "prefix is released, nothing is released after an error, and tampering is refused once the tampered unit is complete; the datagram model "
    "enumerates every (format, attack, unit). Each scenario is made concrete on real streams/packets (bit flips, drop, duplicate, swap, insert, "
    "splice from another session, reflection, truncation) and judged through the real FramedRead / WebSocketFramed / UDP codecs; hundreds of "
    "random attacked runs are recorded and validated by TLC against the same design with real lengths.",
    TB + "; ideal-AEAD abstraction (DESIGN 2.3)", "5.5")
CLAIMED["C13"] = (
    "model_checking", "TLA+ LocalHandshake (every segmentation / early close, TLC exhaustive) + HttpTarget grammar catalogue, replayed on the real get_request_addr over loopback TCP and the real authority parser",
    "TLC checks the code-shaped local-port design (sniff, SOCKS5 greeting/request, CONNECT head, plain HTTP) for every segmentation and early close of "
    "every handshake kind, well-formed or not, and enumerates 2 480 request targets with the (host, port) each names; every target is run through the "
    "real authority-extraction helper and every model behaviour (sampled in the quick tier) against the real handshake over a loopback connection, "
    "comparing target, replies and the bytes left for the tunnel.",
    TB + "; loopback timing (25 ms pauses)", "5.13")
CLAIMED["C07"] = (
    "model_checking", "TLA+ StreamCodec/LocalHandshake/Malformed NoPanic (TLC exhaustive), malformed-content catalogue and garbage/truncation sweeps on every real decoder, trace validation",
    "Reduced scope: panics/aborts. TLC checks NoPanic of the guard-structure models for every layout, segmentation, tamper point and end-of-stream point, of the "
    "local handshake for every segmentation/early close, and the malformed-content catalogue; each named unguarded-read deviation must violate it. The catalogue "
    "(right keys, wrong content) is built with the reference codec and judged by the real decoders; exhaustive short inputs, seeded random inputs and every truncation "
    "of valid streams with end of stream go through the real adapters under catch_unwind; hostile local handshakes run over real TCP; recorded attacked runs are "
    "validated by TLC with NoPanic evaluated in every state. The catalogue includes every VMess option mask and security code (the server's first "
    "answer for a served request is written too), VMess response headers shorter than their fixed bytes, and extreme 64-bit timestamps in every sealed Shadowsocks 2022 header.",
    TB + "; undefined behaviour that does not crash is not observable and not claimed", "5.7")
CLAIMED["C14"] = (
    "model_checking", "TLA+ Address model (symbolic bytes; both encodings; every name length), each case entered through the client's real doors and round-tripped through the real encoders/decoders",
    "TLC enumerates every (encoding style, address kind, name length class - every length 0..1024 in the thorough tier, tail) with symbolic bytes, so truncation or "
    "re-interpretation of any byte shows, checks ExactOrRefused and that the former 'len as u8' behaviour violates it; each case is presented at the client's real doors "
    "(SOCKS5 request, HTTP request line, CONNECT, local UDP datagram) and every admitted address goes through the real encode/length/try_decode_at/decode of its style with a tail, "
    "and through the real client codec and the real server codec of Trojan, Shadowsocks (legacy, 2022) and VMess with the tail as first payload (connect item for exactly that address, at once).",
    TB, "5.14")
CLAIMED["C06"] = (
    "model_checking", "TLA+ Auth model (configuration x attacker knowledge x message form, TLC exhaustive), every case built with the reference codec and judged by the real server codecs; reply key identified by the reference opener",
    "TLC enumerates every (server configuration, server-level secret the peer knows, user-level secret, message form), checks NoEmitWithoutCredential / CredentialAccepted / "
    "NoCrossUser and that four named deviations violate them; each case is built from exactly those keys with the reference codec (wrong key, one bit different, other registered "
    "user, unregistered, other protocol's valid handshake, random, truncated) for every cipher and presented to the real TCP and UDP server codecs; for accepted sessions the real "
    "server's answer is opened under every candidate key to see whose it is. Also: a peer that knows only the server key (in the user key's place, identity header naming "
    "nobody), and credentials registered at ANOTHER listener of the same process, before and after that listener has served them (two real listeners in one process).",
    TB + "; reference codec builds the attacker's messages", "5.6")
CLAIMED["C12"] = (
    "model_checking", "TLA+ Wire ledger model (TLC exhaustive + deviations), trace validation of the units the real encoders put on the wire (nonces recovered by the reference opener)",
    "Reduced scope: distinctness and counter rules, not unpredictability. TLC checks the sender design (fresh randomness selects the key; one counter per cipher stepping once per sealed "
    "unit; ledger of (key, nonce) pairs) and that four named deviations reuse a pair; the real encoders of every protocol, cipher and direction (streams and datagrams, writes from 1 byte to "
    "70 000 bytes, many sessions) are driven, their output is opened by the reference opener, and TLC validates every session's unit trace: counters 0,1,2,.., no pair twice, grammar, "
    "limits, and all salts / session ids / VMess keys, IVs, auth ids and connection nonces pairwise distinct; SentFresh: codecs created at one clock offset and first used 0 / 31 / 45 / 300 s "
    "later (clock hook) must stamp their first unit with the time of sending (deviation StampAtCreate); replies read by the client between its datagrams must not touch "
    "its own counter; end to end, the visible (key, nonce) identifier of every datagram on a real link is pairwise distinct per direction across the sessions of one server process.",
    TB + "; reference opener recovers the nonce of every unit", "5.12")
CLAIMED["C03"] = (
    "model_checking", "TLA+ WireScripts catalogue + Wire/TraceWire grammar; every script run in both directions between the real codecs and an independent reference codec; unit traces validated by TLC",
    "Reduced scope: TLC cannot compute KDFs or ciphers; that fidelity rests on the independent reference codec. TLC enumerates 1 172 message scripts (family x direction x encoder x write sizes "
    "around each sender limit x all eight VMess option masks); each is realised by the real encoder and read by the reference opener, or realised by the reference encoder (including legal "
    "choices the real one never makes) and read by the real decoder, comparing target address, payload and per-unit sender limits; the real encoders' output is also validated as unit traces "
    "against the Wire grammar (order of units, key class, counters, limits, SentFresh: the timestamp on a session's first unit is the time it was sent).",
    TB + "; reference codec = my offline reading of SIP004/007/022/023, v2ray VMess AEAD, Trojan", "5.3")
TBE = TB + "; Engine B (lib/e2e.py): real client/server processes, scripted applications/targets in one asyncio loop; loopback only"
CLAIMED["C01"] = (
    "model_checking", "TLA+ RelayAbs (abstract flow incl. half-close completeness) + TcpRelay (bounded kernel pipes, sink write buffers, pumps, relays, grace timer, link kinds tcp/tls/quic/ws; TLC refinement + liveness, deviations), scripts exported by TLC and half-close / back-pressure / idle scripts executed on real client/server processes, every recorded flow validated by TLC against TraceRelay",
    "TLC checks that the code-shaped TcpRelay design (Linux TCP reset semantics, QUIC stream shutdown, TLS noise, Stream::forward pumps, select + grace in both relays) refines the abstract per-flow "
    "specification RelayAbs for tcp, tls and quic links and for failing dials, with PromptEnd/Released as liveness, and that each named deviation (try_join teardown, QUIC shutdown without waiting, "
    "join without timer, sink never closed) violates it; TLC enumerates every environment script up to 5 steps (who writes which size class, where everything must have arrived, who closes first and "
    "how); sampled scripts (size classes concretised around each protocol's chunk limits) and randomised scripts (1 B .. MiB, pauses, three local handshake kinds, three close kinds, concurrent) are "
    "executed against the real binaries on a spread of README configurations (all 50 in the thorough tier) and each flow's observations (position-checked spans, dial, ends) are validated by TLC. "
    "RelayAbs includes HalfCloseComplete (a side that only finished sending is owed the complete answer; Lapse after silence longer than the close grace); TcpRelay has bounded kernel queues and "
    "sink write buffers, link kind ws and the deviations WsCloseEndsBoth (open finding), CloseSkipsFlush, NoKeepAlive; further script families on real processes: half-close then answer, "
    "back-pressure (slow reader, 20+ MB, writer closes at once), slow drain beyond the close grace, flows idle for 32 s before their first payload; after a reset by the target "
    "whose writes had all been acknowledged (observer: SIOCOUTQ = 0) the answer is owed in full (TgtCloseA, deviation ServerForwardsErr).",
    TBE, "5.1")
CLAIMED["C15"] = (
    "model_checking", "TLA+ TcpRelay with link-failure action (TLC: PromptEnd / Released / FaultEnds as liveness under weak fairness, deviations) + SinkClose (close under back-pressure; schedules replayed on the real WebSocketFramed sink, validated against TraceSinkClose), ending / hold / slow-drain / slow-link scripts executed on real client/server processes behind a middlebox, every flow and the Idle/Held/Settled descriptor counts validated by TLC against TraceRelay",
    "TLC checks on the code-shaped TcpRelay design (kernel pipes with reset semantics, four forward pumps, select + 2 s grace in both relays, QUIC "
    "shutdown, TLS noise, link failure) that after any close, reset, failed dial or link failure the other side observes an end and both relays drop "
    "the flow, for tcp, tls and quic links, and that JoinBoth / NoSinkClose / IgnoreLinkErr / DropOnFirstClose violate it; TLC enumerates every "
    "ending script up to 5 steps (who closes first and how, where in the transfer, link cut by reset or orderly close, refused / unresolvable target); "
    "sampled scripts and batches of 24 (thorough: 64) concurrent randomly ending flows with data in flight run on real processes behind a middlebox "
    "that fails the link of one chosen flow; TLC validates every flow (complete delivery before an orderly end, prompt end on the other side) and that "
    "the socket counts of client and server after each batch equal the idle baseline.",
    TB + "; Engine B (lib/e2e.py) with lib.e2e.Middlebox; loopback only; tasks observed through the descriptors they hold", "5.15")
CLAIMED["C02"] = (
    "model_checking", "TLA+ UdpRelay (abstract datagram relay) + UdpDesign (binding table, LRU eviction, reply tasks, association table, lossy duplicating network; TLC refinement, deviations), send histories exported by TLC executed by scripted SOCKS5-UDP applications and UDP targets around real client/server processes, every history validated by TLC against TraceUdp",
    "TLC checks that the code-shaped UdpDesign (client binding table keyed by sender [and target for VMess] with LRU eviction, one reply task per binding that "
    "remembers its sender, server association per session / per flow with its own source address, replies labelled with the address they came from, a "
    "network that loses and duplicates) refines the abstract UdpRelay (NoInvent, RightTarget, Whole, NoDup, OneOwnerPerSource, ReplyToOwner, Label) for "
    "2 applications x 2 targets x 3 datagrams x 2 replies with capacity 1, for the Shadowsocks, Trojan and VMess families, and that six named deviations "
    "break it; TLC exports every send history up to 2 (thorough: 3) steps (who, to whom, size class 0 / tiny / small / framing boundary / large, 0-2 "
    "replies, reply from a never-addressed target); sampled histories, randomised histories of 2-6 applications and 4 targets (IPv4 and name), more "
    "senders than the binding table holds, mixed-kind target addresses on interleaved ports and two clients of different users run on 8 (thorough: all "
    "22) UDP-capable configurations; TLC validates every observed history, and at Settle that every datagram the path can carry arrived.",
    TB + "; Engine B datagram side (lib/udprun.py); loopback only, paced sends", "5.2")
CLAIMED["C08"] = (
    "model_checking", "TLA+ Service model of the four long-lived loops and the fault catalogue (TLC: CanariesSucceed in every state reachable by fault sequences, each former error-propagation site a named deviation that violates it), fault sequences exported by TLC injected into real client/server processes, canary results validated by TLC against TraceService",
    "TLC checks Service.tla (server accept loop, server datagram loop + association tasks, client accept loop, client datagram loop + reply tasks; twenty "
    "per-flow faults: silent / garbage / resetting TCP, TLS and WebSocket peers, half local handshakes, unresolvable and refused targets, resets by "
    "application or target, garbage / replayed / unresolvable / oversized datagrams and replies, three kinds of malformed local datagram, descriptor "
    "exhaustion at server and client) and that each of eight named deviations - the `?`, inline await or break the code used to have at that place - "
    "violates CanariesSucceed; every fault sequence up to 2 (thorough: 3) is exported per family; all single faults and a sample of longer sequences are "
    "injected into running client + server pairs (Shadowsocks tcp_and_udp behind recording middleboxes, Trojan/VMess over tls and wss, VMess over tcp and "
    "ws; descriptor limit 360; silent peers stay connected), histories accumulate on the same processes, and after each sequence a fresh TCP flow, a "
    "fresh datagram exchange and an exchange on the session the faults touched must work; TLC validates the recorded runs.",
    TB + "; Engine B (lib/faults.py); loopback; a canary gets two attempts", "5.8")
CLAIMED["C16"] = (
    "model_checking", "TLA+ Config: the README as a function Documented(cfg) and the start-up code as a code-shaped decision function Impl(cfg) (TLC: Conforms for every tuple of names, deviations), every tuple exported by TLC started on the real binaries, observed listeners and reference-client / real-peer exchanges validated by TLC against TraceConfig",
    "TLC checks Config.tla for every tuple (side x protocol name x cipher name incl. the alias and undocumented names x mode name incl. undocumented ones x "
    "credential form [password, 2022 key of exact / shorter / longer length, not base64, empty, user or identity key of wrong length] x link sections; 408 "
    "tuples): the code-shaped decision function (serde names, shared Mode enum, enable_tcp / enable_udp / enable_quic, N-byte key buffer) conforms to the "
    "README function, and QuicNoTcp / ShortKeyPadded / UdpModeExits - what the code used to do - break it. The real server or client binary is started on "
    "every exported tuple (thorough: also every key length 0..2N+1, mangled documented names, passwords of eight lengths); bound TCP/UDP sockets are read "
    "from /proc/net; for accepted tuples an independent reference client that knows only the cipher name and the password string must get an echo over "
    "the server's TCP port and UDP port, and real peers with documented names must relay a TCP echo (every link incl. QUIC) and a datagram echo; for "
    "refused tuples nothing may stay bound and nothing may panic. TLC validates every observation record (Conforms per record).",
    TB + "; reference client = my offline reading of SIP004/SIP022/Trojan; how a refusal is reported is not judged", "5.16")
CLAIMED["C09"] = (
    "model_checking", "TLA+ SharedState (process-wide datagram cipher cache as Call/Acquire/Body/Exit/Use steps of 2-4 threads; TLC: MutexOnCache, NoCorruption, RightCipher, Termination; deviation Unsynchronised) + Handshake concurrent configurations (salt cache), TLC-exported interleavings replayed on real threads through the real get_cipher with a sync-point controller, cache events recorded inside free-running threads and inside real multi-threaded client/server processes validated by TLC against TraceSharedState, every concurrent flow / datagram session validated on its own against TraceRelay / TraceUdp",
    "TLC checks SharedState.tla (the cipher cache every Shadowsocks 2022 datagram encode and decode of every task goes through: at most one thread inside, "
    "no restructuring under another thread, each call gets the cipher of its own key, termination) for 2-4 threads x 2 calls with equal, distinct and "
    "mixed keys, and Handshake.tla with 2 (thorough: 3) concurrent copies of one request; Unsynchronised, TryLock and NonAtomicSet - what the code used to "
    "do - violate them. Every exported interleaving (all 52+52 of two threads x one call, samples of the 23 000 longer ones) is replayed on real threads "
    "with the sync-point controller: while one thread is parked inside the cache the next one is released early and must not get in, every datagram "
    "produced is opened by the reference codec. 2-16 free-running OS threads encode/decode through one shared codec and real client + server on 2-16 tokio "
    "workers carry 24 (thorough: 64) TCP flows and 4 (8) datagram sessions at once on Shadowsocks 2022, VMess and Trojan configurations: the enter/exit "
    "events recorded inside get_cipher are validated by TLC against TraceSharedState, every flow against TraceRelay, every datagram session against "
    "TraceUdp, each deterministic flow's result must equal its result when run alone, and one Shadowsocks 2022 request presented on 16 connections at "
    "once must be accepted exactly once.",
    TB + "; Engine B (lib/e2e.py, lib/relayrun.py, checks/c02.py runners); natural schedules inside the processes are observed, not chosen", "5.9")
