#!/usr/bin/env python3
"""Regenerates MANIFEST.json from the table below (single source of truth for the interface)."""
import json
import os

ROOT = os.path.dirname(os.path.dirname(os.path.abspath(__file__)))
PROPS = [json.loads(l)["id"] for l in open(os.path.join(ROOT, "properties.jsonl"))]

# id -> (category, technique, level text, level note, design ref)
CLAIMED = {}
NOT_APPLICABLE = {}

exec(open(os.path.join(ROOT, "bin", "manifest_table.py")).read())

m = {
    "version": 1,
    "setup_cmd": "bin/setup",
    "hooks": {
        "guard": "octo_verif",
        "enable": "harness/.cargo/config.toml sets rustflags --cfg octo_verif; the harness crate path-depends on /repo's crates "
                  "and builds the real client/server mains (octo-client, octo-server) with hooks on",
        "baseline_off_cmd": "cd /repo && cargo test --workspace --no-fail-fast --offline",
        "source_commits": HOOK_COMMITS,
        "add_only": True,
    },
    "engines": ENGINES,
    "checks": [],
    "notes": NOTES,
    "not_applicable": [],
}
for p in PROPS:
    if p in CLAIMED:
        cat, tech, text, note, ref = CLAIMED[p]
        m["checks"].append({
            "property_id": p,
            "quick_cmd": "bin/check %s --tier quick" % p,
            "thorough_cmd": "bin/check %s --tier thorough" % p,
            "evidence_file": "evidence/%s.json" % p,
            "replay_cmd_template": "bin/check %s --replay {path}" % p,
            "engine": "tlc+harness",
            "level_claimed": {"category": cat, "text": text, "design_ref": ref},
            "level_note": note,
            "technique": tech,
        })
    else:
        m["not_applicable"].append({"property_id": p, "reason": NOT_APPLICABLE.get(p, "check under construction; see DESIGN.md section 5")})
json.dump(m, open(os.path.join(ROOT, "MANIFEST.json"), "w"), indent=1)
print("claimed:", sorted(CLAIMED), "not claimed:", [x["property_id"] for x in m["not_applicable"]])
